"""C08 — A node caught up by snapshot install serves the same data as the leader.

Rig B (real binary).  One scenario = one cluster with RNACOS_RAFT_SNAPSHOT_LOG_SIZE = n in {10, 25, 60}:
  join    leader n1 + follower n2; >= 4n (or 8n) raft entries are written (configs in 3 namespaces incl. updates / removes / types,
          2 namespaces and 3 users through the console API as admin) so that >= 3 compactions happened on the leader; then n3 is started
          for the first time with RNACOS_RAFT_JOIN_ADDR;
  rejoin  n1 + n2 + n3; a few entries (n3 has a non-empty log), n3 is killed, the history is written, the leader is restarted (new leader =
          new replication streams; the old leader's stream would feed the follower from its in-memory buffer), n3 is started again.
A writer keeps publishing slowly during the transfer (variant `quiet`: it does not).  The follower's own log file must show
`filestore create_snapshot` (an InstallSnapshot stream was received) after its start — otherwise the scenario is inconclusive and is
repeated once with a longer history.  Then a few more writes (does the follower keep replicating?), then the differential oracle:
leader vs follower through HTTP, polled every second up to B = 30 s: every config key ever written (status, content, md5, type),
config listing totals per namespace, namespace list, user list (console API as admin), raft membership and console cluster node
list.  Then the follower is restarted (kill -9 + start) and compared again (B).

Signatures   <join|rejoin>/<symptom>/<data class>
  symptom: data-missing-after-snapshot-install | data-differs-after-snapshot-install   (first comparison)
           data-missing-after-restart | data-differs-after-restart                      (comparison after the follower's restart)
           follower-stuck-after-snapshot-install  (class replication: the follower's log index does not reach the leader's within B, or
                                                   the follower died / no longer answers)
           no-snapshot-sent-in-quiet-cluster       (class replication: variant quiet — nothing reached the follower within B although the
                                                   leader holds the history; it only arrives once new writes trigger the next compaction)
  data class: configs (contents + listing totals) | namespaces | users | membership | replication
"""
import json
import os
import random
import shutil
import threading
import time
from concurrent.futures import ThreadPoolExecutor

import common
import procrig
from common import Inconclusive, Outcome

B = 30.0
GROUP = "c08"
CV2 = "/rnacos/api/console/v2"
NAMESPACES = ["", "c08nsa", "c08nsb"]
TYPES = ["json", "yaml", "text", "properties", None]
HTTP_ERR = (OSError, procrig.httpclient.HTTPException)


def install_local_findings():
    """accept <verif>/known_findings.local.json next to the committed file (helper-agent clones; harmless when absent)"""
    p = os.path.join(common.VERIF, "known_findings.local.json")
    if not os.path.exists(p) or getattr(common, "_local_findings_installed", False):
        return
    base = common.load_findings

    def merged():
        d = base()
        try:
            loc = json.load(open(p))
        except ValueError:
            return d
        return {"known": list(d.get("known", [])) + list(loc.get("known", [])), "fixed": list(d.get("fixed", [])) + list(loc.get("fixed", []))}

    common.load_findings = merged
    common._local_findings_installed = True


class Scenario:
    def __init__(self, wd, name, seed, n, mode, quiet, mult):
        self.wd = os.path.join(wd, name)
        os.makedirs(self.wd, exist_ok=True)
        self.name, self.seed, self.n, self.mode, self.quiet, self.mult = name, seed, n, mode, quiet, mult
        self.rnd = random.Random(seed)
        env = {"RNACOS_RAFT_SNAPSHOT_LOG_SIZE": str(n), "RUST_LOG": "warn,rnacos::raft=info", "RNACOS_HTTP_WORKERS": "2"}
        self.n1 = procrig.Node(self.wd, 1, env=env, auto_init=True)
        self.n2 = procrig.Node(self.wd, 2, env=env, join=self.n1.grpc_addr)
        self.n3 = procrig.Node(self.wd, 3, env=env, join=self.n1.grpc_addr)
        self.nodes = [self.n1, self.n2, self.n3]
        self.keys = {}           # (tenant, dataId) -> last written content | None
        self.counter = 0
        self.frozen = set()
        self.flipped = set()     # keys that were re-published with unchanged content (another type, or a change and the change back)
        self.lock = threading.Lock()
        self.stop_writer = threading.Event()
        self.log_off = 0
        self.tokens = {}
        self.res = {"name": name, "seed": seed, "n": n, "mode": mode, "quiet": quiet, "mult": mult, "violations": [], "compared_items": 0, "steps": []}

    # ---- helpers
    def step(self, what, **kw):
        kw["t"] = round(time.time(), 2)
        kw["step"] = what
        self.res["steps"].append(kw)

    def leader(self):
        for nd in self.nodes:
            if nd.alive():
                m = nd.metrics()
                if m and m.get("state") == "Leader":
                    return nd
        return None

    def wait_members(self, nodes, want, timeout=30.0):
        t0 = time.time()
        while time.time() - t0 < timeout:
            ms = [nd.metrics() for nd in nodes]
            if all(ms) and all(len((m.get("membership_config") or {}).get("members") or []) == want for m in ms) and len({m.get("current_leader") for m in ms}) == 1 \
                    and ms[0].get("current_leader") is not None:
                return
            time.sleep(0.2)
        raise Inconclusive("%s: cluster of %d did not form in %ds: %s" % (self.name, want, timeout, [nd.metrics() for nd in nodes]))

    def admin(self, nd, fresh=False):
        """console session of the built-in admin on this node (cached per process: every login is a raft write)"""
        key = (nd.id, nd.p.pid if nd.p else 0)
        if fresh or key not in self.tokens:
            tok, r = nd.console_login(wait=6.0)
            self.tokens[key] = tok
        return self.tokens[key]

    def write_one(self, nd, rnd, forced=None):
        """one raft entry through `nd`: publish (new key / update) or remove; forced = (key, op)"""
        with self.lock:
            self.counter += 1
            c = self.counter
            x = rnd.random()
            existing = [k for k, v in self.keys.items() if v is not None and k not in self.frozen]
            if forced is not None:
                key, op = forced
            elif x < 0.1 and len(existing) > 5:
                key, op = rnd.choice(existing), "rm"
            elif x < 0.16 and existing:
                # the same content once more under another type (md5 unchanged, served type changes)
                key, op = rnd.choice(existing), "retype"
            elif x < 0.21 and existing:
                # a change and the change back: content as before, two more history entries
                key, op = rnd.choice(existing), "flipback"
            elif x < 0.45 and existing:
                key, op = rnd.choice(existing), "pub"
            else:
                key, op = (rnd.choice(NAMESPACES), "k%d" % c), "pub"
        tenant, data_id = key
        try:
            if op == "rm":
                r = nd.delete("/nacos/v1/cs/configs", params={"dataId": data_id, "group": GROUP, "tenant": tenant}, timeout=10)
                ok = r.status == 200
                val = None
            elif op in ("retype", "flipback"):
                with self.lock:
                    val = self.keys.get(key)
                    self.flipped.add(key)
                ok = True
                steps = [val] if op == "retype" else ["%s-f%d" % (self.name, c), val]
                for j, content in enumerate(steps):
                    form = {"dataId": data_id, "group": GROUP, "tenant": tenant, "content": content, "type": [t for t in TYPES if t][(c + j) % 4]}
                    r = nd.post("/nacos/v1/cs/configs", form=form, timeout=10)
                    ok = ok and r.status == 200
                if not ok:
                    val = None if val is None else val
            else:
                val = "%s-v%d" % (self.name, c)
                form = {"dataId": data_id, "group": GROUP, "tenant": tenant, "content": val}
                t = TYPES[c % len(TYPES)]
                if t:
                    form["type"] = t
                r = nd.post("/nacos/v1/cs/configs", form=form, timeout=10)
                ok = r.status == 200
        except HTTP_ERR:
            ok = False
        with self.lock:
            if ok:
                self.keys[key] = val
            else:
                self.keys[key] = self.keys.get(key)     # key stays in the universe; its value is read from the leader anyway
        return ok

    def write_until(self, nd, target_index, rnd, limit=4000):
        i = 0
        while i < limit:
            m = nd.metrics()
            if m and m.get("last_log_index", 0) >= target_index:
                return m["last_log_index"]
            for _ in range(10):
                self.write_one(nd, rnd)
                i += 1
        raise Inconclusive("%s: could not reach log index %d" % (self.name, target_index))

    def writer(self, nd):
        rnd = random.Random(self.seed + 77)
        while not self.stop_writer.is_set():
            self.write_one(nd, rnd)
            self.stop_writer.wait(rnd.uniform(0.05, 0.15))

    def compactions(self, nd):
        return max([int(p.split("_")[1]) for p in os.listdir(nd.dir) if p.startswith("snapshot_") and p.split("_")[1].isdigit()] or [0])

    def snapshot_installs(self, nd):
        try:
            with open(nd.log_path, "rb") as f:
                f.seek(self.log_off)
                return f.read().count(b"filestore create_snapshot")
        except OSError:
            return 0

    # ---- views
    def view(self, nd):
        """what this node serves, per data class"""
        v = {"configs": {}, "config-listing": {}, "namespaces": None, "users": None, "membership": {}}
        with self.lock:
            keys = sorted(self.keys)
        for tenant, data_id in keys:
            r = nd.get("/nacos/v1/cs/configs", params={"dataId": data_id, "group": GROUP, "tenant": tenant}, timeout=5)
            if r.status == 200:
                v["configs"]["%s|%s" % (tenant, data_id)] = [200, r.text(), r.headers.get("content-md5"), r.headers.get("content-type")]
            else:
                v["configs"]["%s|%s" % (tenant, data_id)] = [r.status, r.text()[:60], None, None]
        for tenant in NAMESPACES:
            r = nd.get("/nacos/v1/cs/configs", params={"search": "accurate", "dataId": "", "group": "", "tenant": tenant, "pageNo": 1, "pageSize": 1}, timeout=5)
            j = r.json() if r.status == 200 else None
            v["config-listing"][tenant] = j.get("totalCount") if isinstance(j, dict) else "<%s>" % r.status
        r = nd.get("/nacos/v1/console/namespaces", timeout=5)
        j = r.json() if r.status == 200 else None
        if isinstance(j, dict) and isinstance(j.get("data"), list):
            v["namespaces"] = sorted([[x.get("namespace"), x.get("namespaceShowName"), x.get("type")] for x in j["data"]])
        else:
            v["namespaces"] = "<%s>" % r.status
        tok = self.admin(nd)
        if tok:
            r = nd.console("GET", CV2 + "/user/list", tok, params={"pageNo": 1, "pageSize": 1}, timeout=5)
            if r.status != 200 or not (r.json() or {}).get("success"):
                tok = self.admin(nd, fresh=True)
        else:
            tok = self.admin(nd, fresh=True)
        if not tok:
            v["users"] = "<admin login refused>"
            v["membership"]["console-node-list"] = "<admin login refused>"
        else:
            r = nd.console("GET", CV2 + "/user/list", tok, params={"pageNo": 1, "pageSize": 1000}, timeout=5)
            j = r.json() if r.status == 200 else None
            lst = ((j or {}).get("data") or {}).get("list") if isinstance(j, dict) else None
            if isinstance(lst, list):
                v["users"] = sorted([[u.get("username"), u.get("nickname"), u.get("roles"), u.get("enable"), u.get("passwordHash"), u.get("gmtCreate")] for u in lst])
            else:
                v["users"] = "<%s %s>" % (r.status, r.text()[:60])
            r = nd.console("GET", CV2 + "/cluster/cluster_node_list", tok, timeout=5)
            j = r.json() if r.status == 200 else None
            lst = (j or {}).get("data") if isinstance(j, dict) else None
            v["membership"]["console-node-list"] = sorted([[x.get("nodeId"), x.get("addr"), x.get("raftLeader")] for x in lst]) if isinstance(lst, list) else "<%s>" % r.status
        # change history of up to 12 keys that were re-typed / changed and changed back (ids and contents, newest first)
        v["config-history"] = {}
        if tok:
            with self.lock:
                fl = sorted(self.flipped)[:12]
            for tenant, data_id in fl:
                if v["configs"].get("%s|%s" % (tenant, data_id), [None])[0] != 200:
                    continue
                r = nd.console("GET", "/rnacos/api/console/config/history", tok, params={"dataId": data_id, "group": GROUP, "tenant": tenant, "pageNo": 1, "pageSize": 1000}, timeout=5)
                j = r.json() if r.status == 200 else None
                lst = j.get("list") if isinstance(j, dict) else None
                v["config-history"]["%s|%s" % (tenant, data_id)] = [[x.get("id"), x.get("content")] for x in lst] if isinstance(lst, list) else "<%s>" % r.status
        m = nd.metrics() or {}
        v["membership"]["raft-members"] = sorted((m.get("membership_config") or {}).get("members") or [])
        v["membership"]["raft-leader"] = m.get("current_leader")
        return v

    @staticmethod
    def diff(lv, fv):
        """{data class: (symptom kind missing|differs, detail)}"""
        out = {}
        miss = [k for k, x in lv["configs"].items() if x[0] == 200 and fv["configs"].get(k, [None])[0] != 200]
        other = [k for k, x in lv["configs"].items() if x != fv["configs"].get(k) and k not in miss]
        # same content and md5 on both nodes, another type: its own data class (the content classes keep their signatures)
        typed = [k for k in other if lv["configs"][k][0] == 200 and fv["configs"].get(k, [None])[0] == 200 and lv["configs"][k][1:3] == fv["configs"][k][1:3]]
        other = [k for k in other if k not in typed]
        if typed:
            out["config-type"] = ("differs", {"different": [[k, lv["configs"][k], fv["configs"].get(k)] for k in typed[:4]], "n_different": len(typed)})
        hd = [k for k, h in (lv.get("config-history") or {}).items() if k in (fv.get("config-history") or {}) and h != fv["config-history"][k]]
        # entries applied twice (the same id more than once on the follower, nothing missing) are the known snapshot-cut defect:
        # the leader's snapshot holds effects of entries behind its header index, the follower applies those entries again
        def dup_only(k):
            lh, fh = lv["config-history"][k], fv["config-history"][k]
            if not isinstance(lh, list) or not isinstance(fh, list):
                return False
            ids = [x[0] for x in fh]
            seen, uniq = set(), []
            for x in fh:
                if x[0] not in seen:
                    seen.add(x[0])
                    uniq.append(x)
            return len(ids) != len(set(ids)) and sorted(map(tuple, uniq)) == sorted(map(tuple, lh))
        twice = [k for k in hd if dup_only(k)]
        hd = [k for k in hd if k not in twice]
        if twice:
            out["config-history-entries-applied-twice"] = ("differs", {"different": [[k, lv["config-history"][k][:5], fv["config-history"][k][:7]] for k in twice[:3]], "n_different": len(twice)})
        if hd:
            out["config-history"] = ("differs", {"different": [[k, lv["config-history"][k][:4], fv["config-history"][k][:4], len(lv["config-history"][k]), len(fv["config-history"][k])] for k in hd[:3]], "n_different": len(hd)})
        if miss or other:
            out["configs"] = ("missing" if miss else "differs", {"missing_on_follower": miss[:6], "n_missing": len(miss), "different": [[k, lv["configs"][k], fv["configs"].get(k)] for k in other[:4]],
                                                                 "n_different": len(other), "keys_compared": len(lv["configs"])})
        if lv["config-listing"] != fv["config-listing"] and "configs" not in out:
            less = any(isinstance(a, int) and isinstance(fv["config-listing"].get(t), int) and fv["config-listing"][t] < a for t, a in lv["config-listing"].items())
            out["configs"] = ("missing" if less else "differs", {"listing_totals_leader": lv["config-listing"], "listing_totals_follower": fv["config-listing"]})
        elif "configs" in out:
            out["configs"][1].update({"listing_totals_leader": lv["config-listing"], "listing_totals_follower": fv["config-listing"]})
        for cls in ("namespaces", "users"):
            a, b = lv[cls], fv[cls]
            if a != b:
                sub = isinstance(a, list) and isinstance(b, list) and all(x in a for x in b) and len(b) < len(a)
                refused = isinstance(b, str)
                out[cls] = ("missing" if sub or refused else "differs", {"leader": a if not isinstance(a, list) else a[:6], "follower": b if not isinstance(b, list) else b[:6]})
        if lv["membership"] != fv["membership"]:
            out["membership"] = ("differs", {"leader": lv["membership"], "follower": fv["membership"]})
        return out

    def compare(self, leader, follower, phase):
        """poll every second up to B; on the last attempt report what still differs"""
        t0 = time.time()
        last = None
        while True:
            try:
                if not follower.alive():
                    raise OSError("follower process exited")
                lv, fv = self.view(leader), self.view(follower)
                d = self.diff(lv, fv)
                self.res["compared_items"] += len(lv["configs"]) + len(NAMESPACES) + 4
                last = (d, None)
                if not d:
                    self.step("equal", phase=phase, after_s=round(time.time() - t0, 1), keys=len(lv["configs"]), served_on_leader=sum(1 for x in lv["configs"].values() if x[0] == 200),
                              namespaces=len(lv["namespaces"]), users=len(lv["users"]) if isinstance(lv["users"], list) else lv["users"])
                    return True
            except HTTP_ERR as e:
                last = (None, "%s: %s" % (type(e).__name__, e))
            if time.time() - t0 > B:
                break
            time.sleep(1.0)
        d, err = last
        lm, fm = leader.metrics(), follower.metrics() if follower.alive() else None
        ctx = {"scenario": self.res["name"], "n": self.n, "mode": self.mode, "quiet": self.quiet, "seed": self.seed, "leader_metrics": lm, "follower_metrics": fm,
               "snapshot_installs_seen_in_follower_log": self.snapshot_installs(follower), "phase": phase}
        if err or fm is None or lm is None:
            self.res["violations"].append(("%s/follower-stuck-%s/replication" % (self.mode, phase), dict(ctx, error=err, follower_alive=follower.alive(), log_tail=follower.tail_log(800))))
            return False
        if fm.get("last_log_index", 0) < lm.get("last_log_index", 0) and d:
            # the differences are consequences of the stalled replication: one signature, details in the witness
            self.res["violations"].append(("%s/follower-stuck-%s/replication" % (self.mode, phase),
                                           dict(ctx, differences={c: k for c, (k, _) in d.items()}, detail={c: x for c, (_, x) in d.items()}, log_tail=follower.tail_log(800))))
            self.step("stuck", phase=phase, classes=sorted(d))
            return False
        for cls, (kind, detail) in sorted(d.items()):
            self.res["violations"].append(("%s/data-%s-%s/%s" % (self.mode, kind, phase, cls), dict(ctx, detail=detail)))
        self.step("differs", phase=phase, classes=sorted(d))
        return False

    # ---- the scenario
    def run(self):
        rnd = self.rnd
        n1, n2, n3 = self.nodes
        wt = None
        try:
            n1.start()
            time.sleep(0.8)
            n2.start()
            if self.mode == "rejoin":
                n3.start()
                self.wait_members(self.nodes, 3)
            else:
                self.wait_members([n1, n2], 2)
            leader = self.leader()
            if leader is None:
                raise Inconclusive("%s: no leader after formation" % self.name)
            tok = self.admin(leader)
            if not tok:
                raise Inconclusive("%s: admin login on the leader failed" % self.name)
            # seed namespaces + users through the console API (raft entries as well)
            for ns in NAMESPACES[1:]:
                r = leader.console("POST", CV2 + "/namespaces/add", tok, body={"namespaceId": ns, "namespaceName": "name of " + ns})
                if not (r.json() or {}).get("success"):
                    raise Inconclusive("%s: namespace add failed: %s" % (self.name, r.text()[:200]))
            for u in ("c08u1", "c08u2", "c08u3"):
                r = leader.console("POST", CV2 + "/user/add", tok, body={"username": u, "nickname": "nick " + u, "password": "pw-" + u + "-123", "roles": "2"})
                if not (r.json() or {}).get("success"):
                    raise Inconclusive("%s: user add failed: %s" % (self.name, r.text()[:200]))
            for _ in range(8):
                self.write_one(leader, rnd)
            if self.mode == "rejoin":
                # the follower must hold these entries before it goes away
                t0 = time.time()
                while time.time() - t0 < 10 and (n3.metrics() or {}).get("last_log_index", 0) < (leader.metrics() or {}).get("last_log_index", 1):
                    time.sleep(0.2)
                self.step("follower-log-before-stop", metrics=n3.metrics())
                n3.kill()
                # what the absent member holds is published again with unchanged content: under another type, or changed and changed
                # back - the snapshot it will receive carries the same md5 it already has, and another type / a longer history
                with self.lock:
                    held = sorted(k for k, v in self.keys.items() if v is not None)
                rnd.shuffle(held)
                for i, k in enumerate(held[:5]):
                    self.frozen.add(k)           # nothing else is written to these keys
                    self.write_one(leader, rnd, forced=(k, "retype" if i % 2 == 0 else "flipback"))
                self.step("held-keys-republished-with-unchanged-content", keys=["%s|%s" % k for k in held[:5]])
            base = (leader.metrics() or {}).get("last_log_index", 0)
            end = self.write_until(leader, base + self.mult * self.n, rnd)
            comp = self.compactions(leader)
            self.step("history-written", leader_log_index=end, entries=end - base, leader_compactions=comp, keys=len(self.keys))
            if comp < 3:
                raise Inconclusive("%s: only %d compactions on the leader" % (self.name, comp))
            if self.mode == "rejoin":
                # [probed] a follower that was merely down is fed from its replication stream's in-memory buffer however far behind it is
                # (1470 entries, threshold 25: no InstallSnapshot); a NEW leader's stream starts at its own last index, gets a conflict
                # answer and switches to InstallSnapshot when the follower is >= n behind.  Hence: leader change while the follower is away.
                old = leader
                old.kill()
                time.sleep(0.3)
                old.start(wait=True, timeout=40)
                t0 = time.time()
                leader = None
                while time.time() - t0 < 25 and leader is None:
                    time.sleep(0.3)
                    ld = self.leader()
                    if ld is not None and all((x.metrics() or {}).get("current_leader") == ld.id for x in (n1, n2)):
                        leader = ld
                if leader is None:
                    raise Inconclusive("%s: no leader %ds after the leader restart: %s" % (self.name, 25, [x.metrics() for x in (n1, n2)]))
                self.step("leader-restarted", old_leader=old.id, new_leader=leader.id, seconds=round(time.time() - t0, 1), metrics=leader.metrics())
            if not self.quiet:
                wt = threading.Thread(target=self.writer, args=(leader,), daemon=True)
                wt.start()
            try:
                self.log_off = os.path.getsize(n3.log_path)
            except OSError:
                self.log_off = 0
            t_start = time.time()
            n3.start(wait=True, timeout=40)
            # wait for the transfer (bounded by B)
            installed = 0
            while time.time() - t_start < B:
                installed = self.snapshot_installs(n3)
                fm, lm = n3.metrics(), leader.metrics()
                if installed and fm and lm and len((fm.get("membership_config") or {}).get("members") or []) == 3 and fm.get("last_log_index", 0) >= lm.get("last_log_index", 0) - 3:
                    break
                time.sleep(0.3)
            self.step("transfer-wait", seconds=round(time.time() - t_start, 1), snapshot_installs=installed, follower_metrics=n3.metrics(), leader_metrics=leader.metrics())
            if self.quiet and not installed:
                fm, lm = n3.metrics() or {}, leader.metrics() or {}
                if fm.get("last_log_index", 0) < lm.get("last_log_index", 0):
                    self.res["violations"].append(("%s/no-snapshot-sent-in-quiet-cluster/replication" % self.mode,
                                                   {"scenario": self.name, "n": self.n, "seed": self.seed, "waited_s": round(time.time() - t_start, 1), "leader_metrics": lm, "follower_metrics": fm,
                                                    "leader_compactions": self.compactions(leader), "note": "no client writes since the follower was started"}))
                # new writes let the leader compact again; the scenario continues
                t1 = time.time()
                while time.time() - t1 < B and not self.snapshot_installs(n3):
                    for _ in range(5):
                        self.write_one(leader, rnd)
                    time.sleep(0.3)
                installed = self.snapshot_installs(n3)
                self.step("transfer-after-new-writes", seconds=round(time.time() - t1, 1), snapshot_installs=installed)
            if wt is not None:
                self.stop_writer.set()
                wt.join(15)
                wt = None
            if not installed and not self.quiet:
                # a second bounded period with a faster writer (every burst lets the leader compact again)
                t1 = time.time()
                while time.time() - t1 < B and not self.snapshot_installs(n3):
                    for _ in range(5):
                        self.write_one(leader, rnd)
                    time.sleep(0.3)
                installed = self.snapshot_installs(n3)
                self.step("transfer-second-period", seconds=round(time.time() - t1, 1), snapshot_installs=installed)
            if not installed:
                fm, lm = n3.metrics() or {}, leader.metrics() or {}
                if n3.alive() and fm.get("last_log_index", 0) < lm.get("last_log_index", 0) - 3:
                    # neither a snapshot nor the log reached the node within 2 B although clients kept writing: it is not being caught up
                    self.res["violations"].append(("%s/follower-never-caught-up/replication" % self.mode,
                                                   {"scenario": self.name, "n": self.n, "seed": self.seed, "waited_s": round(time.time() - t_start, 1), "leader_metrics": lm, "follower_metrics": fm,
                                                    "leader_compactions": self.compactions(leader), "snapshot_installs_seen_in_follower_log": 0,
                                                    "note": "clients kept writing during the whole wait"}))
                    self.res["snapshot_installs"] = 0
                    self.res["never_caught_up"] = True
                    return self.res
                raise Inconclusive("%s: no snapshot install seen in the follower's log (leader %s, follower %s)" % (self.name, leader.metrics(), n3.metrics()))
            self.res["snapshot_installs"] = installed
            # the follower must keep replicating after the install
            for _ in range(12):
                self.write_one(leader, rnd)
            # entries that CHANGE what the installed snapshot contains: the oldest keys are removed / rewritten after the install, so the
            # follower's next start-up has to replay "snapshot, then these entries"
            with self.lock:
                oldest = [k for k, v in self.keys.items() if v is not None and k not in self.frozen][:5]
            for j, key in enumerate(oldest):
                tenant, data_id = key
                try:
                    if j < 3:
                        r = leader.delete("/nacos/v1/cs/configs", params={"dataId": data_id, "group": GROUP, "tenant": tenant}, timeout=10)
                        if r.status == 200:
                            with self.lock:
                                self.keys[key] = None
                    else:
                        val = "%s-after-install-%d" % (self.name, j)
                        r = leader.post("/nacos/v1/cs/configs", form={"dataId": data_id, "group": GROUP, "tenant": tenant, "content": val}, timeout=10)
                        if r.status == 200:
                            with self.lock:
                                self.keys[key] = val
                except HTTP_ERR:
                    pass
            self.step("changed-snapshot-contents-after-install", removed=[list(k) for k in oldest[:3]], rewritten=[list(k) for k in oldest[3:5]])
            if self.leader() is not leader:
                self.step("leader-changed", now=getattr(self.leader(), "id", None))
                leader = self.leader() or leader
            self.compare(leader, n3, "after-snapshot-install")
            # restart of the follower
            n3.kill()
            self.log_off = os.path.getsize(n3.log_path)
            n3.start(wait=True, timeout=40)
            for _ in range(3):
                self.write_one(leader, rnd)
            leader = self.leader() or leader
            self.compare(leader, n3, "after-restart")
            self.res["snapshot_installs_after_restart"] = self.snapshot_installs(n3)
            return self.res
        finally:
            self.stop_writer.set()
            for nd in self.nodes:
                nd.kill()


RETRIED = []


def one_scenario(args):
    wd, name, seed, n, mode, quiet, mult = args
    last = None
    t0 = time.time()
    for attempt in (0, 1):
        if attempt and time.time() - t0 > 75:
            break       # keeps the tier inside its wall-clock budget: a late failure is reported as inconclusive instead of being retried
        sc = Scenario(wd, "%s%s" % (name, "r" if attempt else ""), seed + attempt * 7919, n, mode, quiet, mult * (2 if attempt else 1))
        try:
            return sc.run()
        except Inconclusive as e:
            last = str(e)
            RETRIED.append("%s attempt %d: %s" % (name, attempt, last[:300]))
            common.log("C08 scenario %s attempt %d inconclusive: %s" % (name, attempt, last[:300]))
        finally:
            shutil.rmtree(sc.wd, ignore_errors=True)
    return {"name": name, "inconclusive": last, "n": n, "mode": mode}


def big_join_scenario(args):
    """a snapshot large enough that loading it takes a while: 2500 configs of 2 KB, threshold 400. A node joins while clients keep
    REWRITING keys that are in the snapshot; the entries right behind the snapshot must win over the snapshot's older records."""
    import http.client
    import urllib.parse
    wd0, name, seed = args
    wd = os.path.join(wd0, name)
    os.makedirs(wd, exist_ok=True)
    rnd = random.Random(seed)
    K, SIZE, THRESH = 2500, 2048, 400
    res = {"name": name, "n": THRESH, "mode": "join", "quiet": False, "mult": K // THRESH, "compared_items": 0, "violations": [], "steps": [], "snapshot_installs": 0}
    env = {"RNACOS_RAFT_SNAPSHOT_LOG_SIZE": str(THRESH), "RUST_LOG": "warn,rnacos::raft=info", "RNACOS_HTTP_WORKERS": "4"}
    n1 = procrig.Node(wd, 1, env=env, auto_init=True)
    n2 = procrig.Node(wd, 2, env=env, join=n1.grpc_addr, auto_init=False)
    n3 = procrig.Node(wd, 3, env=env, join=n1.grpc_addr, auto_init=False)
    values = {}
    vlock = threading.Lock()
    stop = threading.Event()

    def publish_range(port, idxs, tag, pad, until=None):
        c = http.client.HTTPConnection("127.0.0.1", port, timeout=15)
        for i in idxs:
            if until is not None and until.is_set():
                break
            val = "%s-%d-%s" % (tag, i, pad)
            body = urllib.parse.urlencode({"dataId": "big%d" % i, "group": GROUP, "content": val})
            try:
                c.request("POST", "/nacos/v1/cs/configs", body, {"Content-Type": "application/x-www-form-urlencoded"})
                r = c.getresponse()
                ok = r.status == 200 and r.read().strip() == b"true"
            except (OSError, http.client.HTTPException):
                c.close()
                c = http.client.HTTPConnection("127.0.0.1", port, timeout=15)
                ok = False
            with vlock:
                if ok:
                    values[i] = val
                else:
                    values[i] = None        # unknown: judged against the leader only
            if until is not None:
                time.sleep(0.03)            # ~100 rewrites/s in total: the joiner can finish an install between two compactions
    try:
        n1.start()
        time.sleep(0.8)
        n2.start()
        t0 = time.time()
        while time.time() - t0 < 30:
            m = n2.metrics()
            if m and len((m.get("membership_config") or {}).get("members") or []) == 2:
                break
            time.sleep(0.3)
        else:
            raise Inconclusive("%s: two-node cluster did not form" % name)
        pad = "x" * SIZE
        ths = [threading.Thread(target=publish_range, args=(n1.http_port, range(k, K, 4), "v0", pad), daemon=True) for k in range(4)]
        t0 = time.time()
        [t.start() for t in ths]
        [t.join(120) for t in ths]
        res["steps"].append({"step": "history", "keys": K, "value_bytes": SIZE, "seconds": round(time.time() - t0, 1), "leader_compactions": max([int(p.split("_")[1]) for p in os.listdir(n1.dir) if p.startswith("snapshot_") and p.split("_")[1].isdigit()] or [0])})
        if res["steps"][-1]["leader_compactions"] < 1:
            raise Inconclusive("%s: the leader did not compact" % name)
        # rewriters of keys that are in the snapshot, while the node joins
        rw = [threading.Thread(target=publish_range, args=(n1.http_port, [rnd.randrange(K) for _ in range(100000)], "u%d" % j, "y" * 64, stop), daemon=True) for j in range(3)]
        [t.start() for t in rw]
        time.sleep(0.3)
        log_off = 0
        n3.start(wait=True, timeout=40)
        t_join = time.time()
        # one more rewriter talks to the JOINING node itself (it forwards to the leader and keeps a provisional value)
        rw.append(threading.Thread(target=publish_range, args=(n3.http_port, [rnd.randrange(K) for _ in range(100000)], "j", "z" * 64, stop), daemon=True))
        rw[-1].start()
        installs = 0
        while time.time() - t_join < B:
            try:
                with open(n3.log_path, "rb") as f:
                    f.seek(log_off)
                    installs = f.read().count(b"filestore create_snapshot")
            except OSError:
                installs = 0
            fm, lm = n3.metrics(), n1.metrics()
            if installs and fm and lm and fm.get("last_log_index", 0) >= lm.get("last_log_index", 0) - 20:
                break
            time.sleep(0.2)
        # keep rewriting a little longer: entries arriving right behind the install are the interesting ones
        time.sleep(1.5)
        stop.set()
        [t.join(20) for t in rw]
        res["snapshot_installs"] = installs
        res["steps"].append({"step": "joined", "seconds": round(time.time() - t_join, 1), "snapshot_installs": installs, "rewrites_acknowledged": sum(1 for v in values.values() if v and v.startswith("u"))})
        if not installs:
            raise Inconclusive("%s: no snapshot install seen in the joiner's log" % name)
        # quiescence: same applied index, then every key on both nodes
        t1 = time.time()
        while time.time() - t1 < B:
            fm, lm = n3.metrics() or {}, n1.metrics() or {}
            if fm.get("last_applied") and fm.get("last_applied") == lm.get("last_applied"):
                break
            time.sleep(0.3)
        def read_all(nd):
            c = http.client.HTTPConnection("127.0.0.1", nd.http_port, timeout=15)
            outv = {}
            for i in range(K):
                c.request("GET", "/nacos/v1/cs/configs?dataId=big%d&group=%s" % (i, GROUP))
                r = c.getresponse()
                b = r.read()
                outv[i] = b.decode("utf-8", "replace") if r.status == 200 else "<%d>" % r.status
            return outv
        deadline = time.time() + B
        while True:
            lv, fv = read_all(n1), read_all(n3)
            diff = [i for i in range(K) if lv[i] != fv[i]]
            res["compared_items"] += K
            if not diff or time.time() > deadline:
                break
            time.sleep(1.0)
        def total(nd):
            r = nd.get("/nacos/v1/cs/configs", params={"search": "accurate", "dataId": "", "group": "", "tenant": "", "pageNo": 1, "pageSize": 1}, timeout=10)
            j = r.json() or {}
            return j.get("totalCount")
        lt, ft = total(n1), total(n3)
        res["steps"].append({"step": "compared", "keys": K, "different": len(diff), "listing_total_leader": lt, "listing_total_follower": ft, "leader_metrics": n1.metrics(), "follower_metrics": n3.metrics()})
        if not diff and (lt is None or lt == ft):
            # the caught-up node restarts: what it reloads from its own files must again be the leader's state
            n3.kill()
            n3.start(wait=True, timeout=40)
            t2 = time.time()
            while time.time() - t2 < B:
                fm, lm = n3.metrics() or {}, n1.metrics() or {}
                if fm.get("last_applied") and fm.get("last_applied") == lm.get("last_applied"):
                    break
                time.sleep(0.3)
            deadline = time.time() + B
            while True:
                lv, fv = read_all(n1), read_all(n3)
                diff2 = [i for i in range(K) if lv[i] != fv[i]]
                res["compared_items"] += K
                if not diff2 or time.time() > deadline:
                    break
                time.sleep(1.0)
            ft2 = total(n3)
            res["steps"].append({"step": "compared-after-restart", "different": len(diff2), "listing_total_follower": ft2, "snapshots_in_follower_dir": sorted(p for p in os.listdir(n3.dir) if p.startswith("snapshot_"))})
            if diff2 or (lt is not None and ft2 != lt):
                i = diff2[0] if diff2 else None
                res["violations"].append(("join/data-differs-after-restart/configs",
                                          {"scenario": name, "variant": "big snapshot; the caught-up node was restarted", "keys": K, "different_keys": len(diff2), "listing_total_leader": lt, "listing_total_follower": ft2,
                                           "example_key": None if i is None else "big%d" % i, "leader": None if i is None else lv[i][:40], "follower": None if i is None else fv[i][:40],
                                           "leader_metrics": n1.metrics(), "follower_metrics": n3.metrics()}))
        if not diff and lt is not None and lt != ft:
            res["violations"].append(("join/data-differs-after-snapshot-install/configs",
                                      {"scenario": name, "variant": "big snapshot, keys rewritten through the joining node during the install", "what": "listing total differs although every key reads the same",
                                       "listing_total_leader": lt, "listing_total_follower": ft, "keys": K}))
        if diff:
            i = diff[0]
            res["violations"].append(("join/data-differs-after-snapshot-install/configs",
                                      {"scenario": name, "variant": "big snapshot, keys of the snapshot rewritten during the join", "keys": K, "different_keys": len(diff), "example_key": "big%d" % i,
                                       "leader": lv[i][:40], "follower": fv[i][:40], "last_acknowledged_value": (values.get(i) or "")[:40], "snapshot_installs": installs,
                                       "leader_metrics": n1.metrics(), "follower_metrics": n3.metrics()}))
        return res
    except Inconclusive as e:
        return {"name": name, "inconclusive": str(e), "n": THRESH, "mode": "join"}
    except HTTP_ERR as e:
        return {"name": name, "inconclusive": "%s: %r" % (name, e), "n": THRESH, "mode": "join"}
    finally:
        stop.set()
        for nd in (n1, n2, n3):
            nd.kill()
        shutil.rmtree(wd, ignore_errors=True)


RULE = ("per scenario: real rnacos processes, snapshot threshold n in {10,25,60}; >= 4n (8n) raft entries (configs in 3 namespaces with updates/removes/types, 2 namespaces, "
        "3 users) so that >= 3 compactions happened on the leader; follower started late (join) or killed before and started after the history (rejoin); an InstallSnapshot "
        "stream must be visible in the follower's own log; differential leader vs follower through HTTP within 30 s, again after the follower's restart. "
        "evaluations = items compared (config keys, listing totals, namespace list, user list, membership) over all polls; distinct_nontrivial = distinct "
        "(mode, threshold, quiet yes/no, history length class) scenarios in which a snapshot was really installed")


def run(tier, seed):
    common.build(need_bin=True)
    install_local_findings()
    wd = common.workdir("c08")
    out = Outcome("C08", tier, seed)
    out.rule = RULE
    try:
        rnd = random.Random(seed)
        if tier == "quick":
            jobs = [(wd, "q0", seed * 1009 + 1, rnd.choice([10, 25]), "join", False, 4), (wd, "q1", seed * 1009 + 2, rnd.choice([25, 60]), "rejoin", False, 4)]
            par = 2
        else:
            jobs = []
            i = 0
            for n in (10, 25, 60):
                for mode in ("join", "rejoin"):
                    for quiet in (False, True):
                        for mult in (4, 8):
                            jobs.append((wd, "t%02d" % i, seed * 1009 + i, n, mode, quiet, mult))
                            i += 1
            rnd.shuffle(jobs)
            par = 6
        with ThreadPoolExecutor(max_workers=par + 1) as ex:
            bigf = [ex.submit(big_join_scenario, (wd, "big%d" % i, seed * 7 + i)) for i in range(1 if tier == "quick" else 3)]
            results = list(ex.map(one_scenario, jobs)) + [f.result() for f in bigf]
        for r in results:
            if "inconclusive" in r:
                out.extra.setdefault("inconclusive_subruns", []).append("%s: %s" % (r["name"], (r["inconclusive"] or "")[:300]))
                continue
            out.evaluations += r["compared_items"]
            for sig, w in r["violations"]:
                out.violation(sig, w)
            if r.get("snapshot_installs"):
                out.shape("%s/n=%d/%s/history=%dn" % (r["mode"], r["n"], "quiet" if r["quiet"] else "writes-during-transfer", r["mult"]))
            out.extra.setdefault("scenarios", []).append({k: r.get(k) for k in ("name", "n", "mode", "quiet", "mult", "snapshot_installs", "snapshot_installs_after_restart", "compared_items")}
                                                         | {"violation_signatures": sorted({s for s, _ in r["violations"]}), "steps": r["steps"]})
            if len(out.samples) < 3:
                out.samples.append({"scenario": r["name"], "steps": r["steps"][:6]})
        if RETRIED:
            out.extra["inconclusive_attempts"] = RETRIED[:20]
        out.assumptions = [
            "a snapshot install is recognised by the line `filestore create_snapshot` in the follower's own log after its start (RUST_LOG rnacos::raft=info)",
            "B = 30 s per comparison, counted from the end of the writes",
            "which of the three InstallSnapshot triggers of async-raft fired is not observable from outside and is not distinguished",
        ]
        out.min_nontrivial = 2 if tier == "quick" else 10
        return out.finish()
    finally:
        shutil.rmtree(wd, ignore_errors=True)


def replay(path):
    """re-run the scenario of the witness (same seed / threshold / mode)"""
    w = json.load(open(path))
    wit = w.get("witness") or {}
    common.build(need_bin=True)
    wd = common.workdir("c08r")
    try:
        sig = w.get("signature", "")
        mode = wit.get("mode") or sig.split("/")[0]
        r = one_scenario((wd, "replay", int(wit.get("seed", 1)), int(wit.get("n", 10)), mode, bool(wit.get("quiet", "quiet" in sig)), 4))
        print(json.dumps({k: v for k, v in r.items() if k != "violations"}, indent=1, default=str)[:3000])
        sigs = sorted({s for s, _ in r.get("violations", [])})
        print("signatures:", sigs)
        if sig in sigs:
            print("VIOLATION property=C08 replay=%s" % path)
            return 1
        return 0
    finally:
        shutil.rmtree(wd, ignore_errors=True)
