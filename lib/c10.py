"""C10 — config change notification is complete: no listener waits on a stale md5.

Part 1 (`vh c10`, harness/src/c10.rs): long-poll listeners on a stand-alone ConfigActor, every message order of small
scenarios, sampled larger ones, a real-time family for the 500 ms time-out tick.
Part 2 (here): the real binary with real gRPC bi-stream connections (`vh grpc-client` through lib/grpcrig.py):
ConfigBatchListenRequest listen / un-listen, publishes and removes over HTTP and gRPC, polite and abrupt closes.
Oracle of part 2: every content-changing publish / remove of k while (client, k) is subscribed and connected produces a
ConfigChangeNotifyRequest naming k on that client's stream within 2 s; a listen request whose md5 differs from the
current one is answered with k in changedConfigs. Nothing is demanded after un-listen / disconnect; extra
notifications are allowed.
Part 3 (`cluster_part`): real 3-node cluster, HTTP long-poll listeners and gRPC subscribers on leader and followers, changes
through leader and followers; bound 5 s after the acknowledgement."""
import hashlib
import json
import random
import shutil
import threading
import time
from concurrent.futures import ThreadPoolExecutor

import common
import grpcrig
import procrig
from common import Outcome

BOUND_S = 2.0
NOTIFY = "ConfigChangeNotifyRequest"


def md5(s):
    return hashlib.md5(s.encode("utf-8")).hexdigest()


def canon(t):
    return "" if t in (None, "", "public") else t


def tclass(t):
    return "omitted" if t is None else ("empty" if t == "" else ("public" if t == "public" else "other"))


class Scenario:
    """one op list against the node; keys are unique to the scenario"""

    def __init__(self, sid, node, g, out, lock):
        self.sid, self.n, self.g, self.out, self.lock = sid, node, g, out, lock
        self.content = {}       # key -> str (absent = not stored)
        self.subs = {}          # (conn, key) -> True
        self.conns = {}         # conn -> {"tenant": setup tenant, "open": bool}
        self.prev = {}          # key -> last event kind on key
        self.since_sub = {}     # (conn,key) -> list of event kinds since subscribe
        self.consumed = set()
        self.lost = set()
        self.trace = []
        self.viol = []
        self.fresh = 0
        self.t0 = time.time()

    def rel(self, t=None):
        return round((t if t is not None else time.time()) - self.t0, 4)

    def key(self, i, tenant, group="DEFAULT_GROUP"):
        return ("c10-%s-%d" % (self.sid, i), group, tenant)

    def cname(self, c):
        return "%s-%s" % (self.sid, c)

    def shape(self, s):
        with self.lock:
            self.out.shape(s)

    # ---- ops
    def open(self, c, tenant):
        setup = {"clientVersion": "Nacos-Java-Client:v2.2.0", "labels": {"source": "sdk", "module": "config"}}
        if tenant is not None:
            setup["tenant"] = tenant
        self.g.open_stream(self.cname(c), setup=setup, report=[NOTIFY])
        self.conns[c] = {"tenant": tenant, "open": True}
        self.trace.append([self.rel(), "open", c, {"setup_tenant": tenant}])

    def listen(self, c, items, listen=True, alias=False):
        """items: [(key, held)] held in current|stale|empty"""
        for key, _ in items:
            self.lost.discard((c, key))
        ctxs, expect_changed = [], []
        for key, held in items:
            d, gr, t = key
            cur = md5(self.content[key]) if key in self.content else ""
            m = {"current": cur, "stale": md5("never-the-content"), "empty": ""}[held]
            sent_t = "public" if (alias and t == "") else t
            ctxs.append({"dataId": d, "group": gr, "tenant": sent_t, "md5": m})
            if listen and m != cur:
                expect_changed.append((key, held))
        r = self.g.request(self.cname(c), "ConfigBatchListenRequest", {"listen": listen, "configListenContexts": ctxs})
        self.trace.append([self.rel(), "listen" if listen else "un-listen", c, [[list(k), h] for k, h in items], {"type": r.get("type"), "result_code": r.get("result_code"), "changed": (r.get("body") or {}).get("changedConfigs")}])
        if not r.get("ok") or r.get("result_code") != 200:
            raise common.Inconclusive("ConfigBatchListenRequest refused: %s" % str(r)[:300])
        with self.lock:
            self.out.evaluations += 1
        changed = {(x.get("dataId"), x.get("group"), canon(x.get("tenant"))) for x in ((r.get("body") or {}).get("changedConfigs") or [])}
        for key, held in expect_changed:
            if (key[0], key[1], canon(key[2])) not in changed:
                self.viol.append(("grpc/listen-response-lacks-a-key-whose-md5-differs/held-%s/%s" % (held, "key-stored" if key in self.content else "key-absent"),
                                  {"conn": c, "key": key, "response": r.get("body")}))
            else:
                self.shape("grpc/immediate/held-%s/%s" % (held, "key-stored" if key in self.content else "key-absent"))
        for key, _ in items:
            if listen:
                self.subs[(c, key)] = True
                self.since_sub[(c, key)] = []
            else:
                self.subs.pop((c, key), None)

    def close(self, c, abrupt):
        self.g.close_stream(self.cname(c), abrupt=abrupt)
        self.conns[c]["open"] = False
        for ck in [ck for ck in self.subs if ck[0] == c]:
            self.subs.pop(ck)
        self.trace.append([self.rel(), "close", c, "abrupt" if abrupt else "polite"])

    def change(self, key, kind, via):
        """kind: new | same | remove"""
        d, gr, t = key
        existed = key in self.content
        if kind == "remove":
            name = "remove" if existed else "remove-absent"
            qualifying = existed
        else:
            self.fresh += 1
            content = self.content[key] if (kind == "same" and existed) else "v%d-%s" % (self.fresh, self.sid)
            name = "publish-creates" if not existed else ("publish-same" if content == self.content[key] else "publish-new")
            qualifying = name != "publish-same"
        # (conn, key) pairs that already missed a notification are not judged again: what follows is a consequence
        required = [(c, k) for (c, k) in self.subs if k == key and self.conns[c]["open"] and (c, k) not in self.lost] if qualifying else []
        t_call = time.time()
        if kind == "remove":
            if via == "http":
                r = self.n.delete("/nacos/v1/cs/configs", params={"dataId": d, "group": gr, "tenant": t})
                ok = r.status == 200
            else:
                r = self.g.request(self.cname("w"), "ConfigRemoveRequest", {"dataId": d, "group": gr, "tenant": t})
                ok = r.get("ok") and r.get("result_code") == 200
            self.content.pop(key, None)
        else:
            if via == "http":
                r = self.n.post("/nacos/v1/cs/configs", form={"dataId": d, "group": gr, "tenant": t, "content": content})
                ok = r.status == 200
            else:
                r = self.g.request(self.cname("w"), "ConfigPublishRequest", {"dataId": d, "group": gr, "tenant": t, "content": content})
                ok = r.get("ok") and r.get("result_code") == 200
            self.content[key] = content
        t_ret = time.time()
        if not ok:
            raise common.Inconclusive("change %s via %s refused: %s" % (name, via, str(getattr(r, "status", r))[:200]))
        with self.lock:
            self.out.evaluations += 1
        prev = self.prev.get(key, "none")
        self.trace.append([self.rel(t_call), name, list(key), via, {"returned_after_ms": round((t_ret - t_call) * 1000, 1), "must_notify": [c for c, _ in required]}])
        # ---- every subscribed and connected client must be told within the bound
        deadline = t_ret + BOUND_S
        for (c, k) in required:
            hit, wrong = None, None
            while True:
                for e in self.g.events("push", self.cname(c)):
                    b = e.get("body") or {}
                    if e.get("type") != NOTIFY or id(e) in self.consumed or e["t_recv"] < t_call:
                        continue
                    if b.get("dataId") == d and b.get("group") == gr:
                        if canon(b.get("tenant")) == canon(t):
                            hit = e
                            break
                        wrong = e
                if hit or time.time() > deadline:
                    break
                time.sleep(0.01)
            hist = self.since_sub.get((c, k), [])
            ct, kt = tclass(self.conns[c]["tenant"]), tclass(t)
            if kt == "other" and ct == "other":
                ct = "same-as-key" if self.conns[c]["tenant"] == t else "another"
            ctv = "default" if ct in ("empty", "public") else ct
            if hit:
                self.consumed.add(id(hit))
                lat = hit["t_recv"] - t_call
                self.shape("grpc/notified/%s/after-%s/via-%s/conn-tenant-%s/key-tenant-%s/sharers%d" % (name, hist[-1] if hist else "subscribe", via, ct, kt, min(3, len(required))))
                self.trace.append([self.rel(hit["t_recv"]), "push", c, hit.get("body"), {"latency_ms": round(lat * 1000, 1)}])
            elif wrong:
                self.consumed.add(id(wrong))
                self.lost.add((c, k))
                self.viol.append(("grpc/notification-names-another-tenant/conn-tenant-%s/key-tenant-%s" % (ctv, kt),
                                  {"conn": c, "connection_setup_tenant": self.conns[c]["tenant"], "subscribed_key": key, "notification": wrong.get("body"), "change": name}))
                self.trace.append([self.rel(wrong["t_recv"]), "push-with-another-tenant", c, wrong.get("body")])
            else:
                self.lost.add((c, k))
                # while removes drop subscriptions nothing else can be told apart behind a remove: one signature for that region
                sig = ("grpc/unnotified/change-after-a-remove-of-the-key-since-subscribe" if any(h.startswith("remove") for h in hist)
                       else "grpc/unnotified/%s/after-%s" % (name, hist[-1] if hist else "subscribe"))
                self.viol.append((sig,
                                  {"conn": c, "key": key, "change": name, "via": via, "events_on_key_since_subscribe": hist, "previous_event_on_key": prev,
                                   "waited_s": BOUND_S, "pushes_on_conn": [x.get("body") for x in self.g.events("push", self.cname(c))][-5:]}))
        watched = False
        for ck in self.since_sub:
            if ck[1] == key:
                self.since_sub[ck].append(name)
                watched = True
        self.prev[key] = name
        if watched:
            # let notifications that nobody waits for (un-demanded ones, those of lost subscriptions) arrive before the next
            # change is timed, so that they are not taken for the next change's notification
            time.sleep(0.03)


# ---------------------------------------------------------------------------------------------------- scenario catalogue
def templates():
    """(name, function(sc, rnd)); every function opens what it needs. The writer connection 'w' exists already."""
    T = []

    def t_basic(sc, r):
        k = sc.key(0, r.choice(["", "dev"]))
        sc.change(k, "new", "http")
        sc.open("a", k[2])
        sc.listen("a", [(k, "current")])
        sc.change(k, "new", r.choice(["http", "grpc"]))
        sc.change(k, "same", "http")
        sc.change(k, "new", r.choice(["http", "grpc"]))
    T.append(("subscribe>publish>publish-same>publish", t_basic))

    def t_remove_publish(sc, r):
        k = sc.key(0, r.choice(["", "dev"]))
        sc.change(k, "new", "http")
        sc.open("a", k[2])
        sc.listen("a", [(k, "current")])
        sc.change(k, "remove", r.choice(["http", "grpc"]))
        sc.change(k, "new", r.choice(["http", "grpc"]))
        sc.change(k, "new", "http")
    T.append(("subscribe>remove>publish", t_remove_publish))

    def t_remove_resub_publish(sc, r):
        k = sc.key(0, "")
        sc.change(k, "new", "http")
        sc.open("a", "")
        sc.listen("a", [(k, "current")])
        sc.change(k, "remove", "http")
        sc.listen("a", [(k, "current")])       # what a client does after it handled the removal
        sc.change(k, "new", "http")
    T.append(("subscribe>remove>re-subscribe>publish", t_remove_resub_publish))

    def t_disconnect(sc, r):
        k = sc.key(0, "")
        sc.change(k, "new", "http")
        sc.open("a", "")
        sc.open("b", "")
        sc.listen("a", [(k, "current")])
        sc.listen("b", [(k, "current")])
        sc.close("a", r.choice([True, False]))
        sc.change(k, "new", "http")            # b must be told, a need not
        sc.change(k, "remove", "grpc")
    T.append(("two-clients>one-disconnects>publish", t_disconnect))

    def t_unlisten(sc, r):
        k = sc.key(0, "dev")
        sc.change(k, "new", "http")
        sc.open("a", "dev")
        sc.open("b", "dev")
        sc.listen("a", [(k, "current")])
        sc.listen("b", [(k, "current")])
        sc.change(k, "new", "http")
        sc.listen("a", [(k, "current")], listen=False)
        sc.change(k, "new", "grpc")            # only b
        sc.listen("a", [(k, "current")])
        sc.change(k, "new", "http")            # both again
    T.append(("two-clients>un-listen>publish>re-listen>publish", t_unlisten))

    def t_create(sc, r):
        k = sc.key(0, r.choice(["", "dev"]))
        sc.open("a", k[2])
        sc.listen("a", [(k, "empty")])
        sc.change(k, "new", r.choice(["http", "grpc"]))
        sc.change(k, "remove", "http")
    T.append(("subscribe-absent-key>publish>remove", t_create))

    def t_immediate(sc, r):
        k0, k1 = sc.key(0, ""), sc.key(1, "")
        sc.change(k0, "new", "http")
        sc.open("a", "")
        sc.listen("a", [(k0, "stale"), (k1, "stale")])
        sc.listen("a", [(k0, "empty"), (k1, "empty")])
        sc.change(k0, "new", "http")
        sc.change(k1, "new", "http")
    T.append(("listen-with-differing-md5", t_immediate))

    def t_multi(sc, r):
        ks = [sc.key(i, "", "g2" if i == 1 else "DEFAULT_GROUP") for i in range(3)]
        for k in ks[:2]:
            sc.change(k, "new", "http")
        sc.open("a", "")
        sc.open("b", "")
        sc.listen("a", [(ks[0], "current"), (ks[1], "current"), (ks[2], "current")])
        sc.listen("b", [(ks[1], "current")])
        for k in r.sample(ks, 3):
            sc.change(k, "new", r.choice(["http", "grpc"]))
        sc.change(ks[1], "remove", "http")
        sc.change(ks[0], "new", "http")
    T.append(("one-listen-request-several-keys", t_multi))

    def mk_tenants(ct, kt):
        def t_tenants(sc, r):
            k = sc.key(0, kt)
            sc.change(k, "new", "http")
            sc.open("a", ct)
            sc.listen("a", [(k, "current")], alias=r.random() < 0.5)
            sc.change(k, "new", "http")
            sc.change(k, "remove", "grpc")
        return t_tenants
    # the whole matrix connection-setup tenant x key tenant, once per run (listed with repeat = 1 below)
    for ct in ["", "public", None, "dev", "t-2"]:
        for kt in ["", "dev", "t-2"]:
            T.append(("connection-tenant-%s-x-key-tenant-%s" % ("omitted" if ct is None else repr(ct), repr(kt)), mk_tenants(ct, kt)))

    def t_abrupt_other(sc, r):
        k = sc.key(0, "")
        sc.change(k, "new", "http")
        for c in "abc":
            sc.open(c, "")
            sc.listen(c, [(k, "current")])
        sc.close("b", True)
        sc.change(k, "new", "http")
        sc.close("a", False)
        sc.change(k, "new", "grpc")
    T.append(("three-clients>closes-between-publishes", t_abrupt_other))
    return T


def random_scenario(sc, r):
    tenants = r.choice([[""], ["", "dev"], ["dev"]])
    keys = [sc.key(i, r.choice(tenants)) for i in range(r.randint(1, 3))]
    for k in keys:
        if r.random() < 0.7:
            sc.change(k, "new", "http")
    names = ["a", "b", "c"][:r.randint(1, 3)]
    for c in names:
        # the connection tenant is the tenant of the keys it listens to (what SDKs do) or omitted
        sc.open(c, r.choice([keys[0][2], None]))
    for _ in range(r.randint(5, 11)):
        x = r.random()
        open_conns = [c for c in names if sc.conns[c]["open"]]
        if x < 0.3 and open_conns:
            c = r.choice(open_conns)
            ks = r.sample(keys, r.randint(1, len(keys)))
            same_tenant = [k for k in ks if sc.conns[c]["tenant"] is None or canon(sc.conns[c]["tenant"]) == canon(k[2])] or None
            if same_tenant:
                sc.listen(c, [(k, r.choice(["current", "current", "empty", "stale"])) for k in same_tenant])
        elif x < 0.36 and open_conns:
            c = r.choice(open_conns)
            mine = [k for (cc, k) in sc.subs if cc == c]
            if mine:
                sc.listen(c, [(r.choice(mine), "current")], listen=False)
        elif x < 0.42 and len(open_conns) > 1:
            sc.close(r.choice(open_conns), r.random() < 0.5)
        else:
            k = r.choice(keys)
            sc.change(k, r.choice(["new", "new", "new", "same", "remove"]), r.choice(["http", "grpc"]))


def worker(args):
    node, wd, out, lock, wid, jobs, seed = args
    res = {"scenarios": 0, "viol": [], "samples": []}
    g = grpcrig.GrpcClient(node.grpc_addr, wd, name="grpcc-c10-%d" % wid)
    try:
        count = 0
        for (sid, name, fn) in jobs:
            count += 1
            if count % 12 == 0:     # a fresh client process keeps the event list short
                g.stop()
                g = grpcrig.GrpcClient(node.grpc_addr, wd, name="grpcc-c10-%d-%d" % (wid, count))
            r = random.Random("%d/%s" % (seed, sid))
            sc = Scenario(sid, node, g, out, lock)
            sc.open("w", "")          # writer connection for gRPC publishes / removes
            try:
                fn(sc, r)
            finally:
                for c, st in sc.conns.items():
                    if st["open"]:
                        try:
                            g.close_stream(sc.cname(c), abrupt=False)
                        except common.Inconclusive:
                            pass
                for key in list(sc.content):
                    node.delete("/nacos/v1/cs/configs", params={"dataId": key[0], "group": key[1], "tenant": key[2]})
            res["scenarios"] += 1
            for sig, detail in sc.viol:
                res["viol"].append((sig, {"part": "real binary + gRPC bi-stream clients", "scenario": name, "scenario_id": sid, "detail": detail, "trace": sc.trace}))
            if not sc.viol and len(res["samples"]) < 1:
                res["samples"].append({"part": "grpc", "scenario": name, "trace": sc.trace, "verdict": "every demanded notification arrived within 2 s"})
    finally:
        g.stop()
    return res


def slow_subscriber_case(node, wd, out, seed):
    """one subscriber with many keys stops reading its stream for 3 s while ALL its keys change (HTTP/2 flow control and the
    server's per-connection queue fill up); once it reads again every key must still be announced - nothing may be dropped"""
    import http.client
    import urllib.parse
    N = 300
    # small HTTP/2 receive windows (16 KiB, a constrained SDK): a stalled reader pushes back on the server after a few dozen pushes
    g = grpcrig.GrpcClient(node.grpc_addr, wd, name="c10slow", env_extra={"VH_GRPC_H2_WINDOW": "16384"})
    info = {"keys": N}
    try:
        g.open_stream("s", setup={"clientVersion": "Nacos-Java-Client:v2.2.0", "labels": {"source": "sdk", "module": "config"}, "tenant": ""}, report=[NOTIFY])
        ids = ["c10slow-%d-%d-%s" % (seed, i, "k" * 220) for i in range(N)]

        def publish_all(tag):
            def th(part):
                c = http.client.HTTPConnection("127.0.0.1", node.http_port, timeout=15)
                for d in part:
                    body = urllib.parse.urlencode({"dataId": d, "group": "DEFAULT_GROUP", "content": "%s-%s" % (tag, d[:20])})
                    c.request("POST", "/nacos/v1/cs/configs", body, {"Content-Type": "application/x-www-form-urlencoded"})
                    c.getresponse().read()
            ts = [threading.Thread(target=th, args=(ids[k::6],)) for k in range(6)]
            [t.start() for t in ts]
            [t.join(60) for t in ts]
        publish_all("v0")
        for k in range(0, N, 50):
            ctxs = [{"dataId": d, "group": "DEFAULT_GROUP", "tenant": "", "md5": md5("v0-%s" % d[:20])} for d in ids[k:k + 50]]
            r = g.request("s", "ConfigBatchListenRequest", {"listen": True, "configListenContexts": ctxs})
            if not r.get("ok") or r.get("result_code") != 200:
                raise common.Inconclusive("slow-subscriber listen refused: %s" % str(r)[:200])
            if (r.get("body") or {}).get("changedConfigs"):
                raise common.Inconclusive("slow-subscriber: listener not in sync at subscribe")
        t_stall = time.time()
        g.cmd("stall_reads", ms=3000)
        time.sleep(0.1)
        publish_all("v1")
        info["burst_s"] = round(time.time() - t_stall, 2)
        deadline = t_stall + 3.0 + 6.0
        got = set()
        while time.time() < deadline and len(got) < N:
            got = {(e.get("body") or {}).get("dataId") for e in g.events("push", "s") if e.get("type") == NOTIFY and e["t_recv"] >= t_stall}
            time.sleep(0.1)
        missing = [d for d in ids if d not in got]
        info["notified"] = N - len(missing)
        info["all_announced_after_s"] = round(time.time() - t_stall, 1)
        out.evaluations += N
        if missing:
            out.violation("grpc/unnotified/burst-to-slow-subscriber", {"keys": N, "not_announced": len(missing), "first_missing": missing[0][:40], "reader_stalled_s": 3.0,
                                                                        "waited_after_resume_s": 6.0, "pushes_received": len(got)})
        else:
            out.shape("grpc/notified/burst-of-%d-to-slow-subscriber" % N)
    except common.Inconclusive as e:
        info["inconclusive"] = str(e)[:300]
    finally:
        try:
            g.stop()
        except Exception:
            pass
    out.extra["slow_subscriber"] = info


def grpc_part(out, wd, tier, seed):
    node = procrig.Node(wd, 1)
    lock = threading.Lock()
    try:
        node.start()
        rnd = random.Random(seed * 31 + 7)
        T = templates()
        reps, n_random, workers = (3, 18, 6) if tier == "quick" else (50, 600, 8)
        jobs = []
        for i in range(reps):
            for (name, fn) in T:
                if name.startswith("connection-tenant-") and i >= max(1, reps // 10):
                    continue
                jobs.append(("t%d-%d" % (len(jobs), i), name, fn))
        for i in range(n_random):
            jobs.append(("r%d" % i, "random", random_scenario))
        rnd.shuffle(jobs)
        parts = [jobs[i::workers] for i in range(workers)]
        t0 = time.time()
        with ThreadPoolExecutor(max_workers=workers) as ex:
            results = list(ex.map(worker, [(node, wd, out, lock, i, parts[i], seed) for i in range(workers)]))
        n = 0
        allv = [v for res in results for v in res["viol"]]
        for sig, w in sorted(allv, key=lambda x: (len(x[1]["trace"]), x[1]["scenario_id"])):   # the shortest witness is the one kept
            out.violation(sig, w)
        for res in results:
            n += res["scenarios"]
            for s in res["samples"]:
                if len(out.samples) < 10:
                    out.samples.append(s)
        slow_subscriber_case(node, wd, out, seed)
        if not node.alive():
            raise common.Inconclusive("node died during the gRPC part: %s" % node.tail_log())
        out.extra["grpc_part"] = {"scenarios": n, "wall_s": round(time.time() - t0, 1), "bound_s": BOUND_S, "templates": [t[0] for t in T]}
    finally:
        node.kill()


CLUSTER_BOUND_S = 5.0


def cluster_part(out, wd, tier, seed):
    """part 3: a real 3-node cluster. A listener (HTTP long-poll on /nacos/v1/cs/configs/listener, or a gRPC subscriber) waits
    on node L holding the CURRENT md5 of a key; the key is then created / updated / removed through node P (leader or
    follower, same node as L or another one). The listener must be told within CLUSTER_BOUND_S of the acknowledgement
    (replication to L included) - never left waiting until its own time-out."""
    import os
    from urllib.parse import unquote
    rnd = random.Random(seed * 131 + 3)
    cl = procrig.Cluster(os.path.join(wd, "cl"), 3, env={"RUST_LOG": "warn"})
    facts = {"rounds": 0, "judged": 0, "skipped_unacknowledged": 0, "latency_ms_max": 0.0}
    lock = threading.Lock()
    try:
        cl.start()
        leader = cl.leader()
        if leader is None:
            raise common.Inconclusive("cluster without leader")
        gcs = {}
        for nd in cl.nodes:
            g = grpcrig.GrpcClient(nd.grpc_addr, wd, name="c10cl-%d" % nd.id)
            gcs[nd.id] = g
        n_rounds = 18 if tier == "quick" else 240
        plans = []
        for i in range(n_rounds):
            plans.append({"i": i, "L": cl.nodes[i % 3], "P": cl.nodes[(i // 3) % 3], "listener": ["http", "grpc"][(i // 9) % 2] if i < 18 else rnd.choice(["http", "grpc"]),
                          "change": ["update", "create", "remove"][rnd.randrange(3)] if i >= 18 else ["update", "update", "update", "create", "update", "update", "create", "update", "remove"][i % 9],
                          "tenant": rnd.choice(["", "", "c10t"])})

        def settle(nd, key, want, bound=8.0):
            d, gr, t = key
            end = time.time() + bound
            while time.time() < end:
                r = nd.get("/nacos/v1/cs/configs", params={"dataId": d, "group": gr, "tenant": t}, timeout=5)
                got = r.text() if r.status == 200 else None
                if got == want:
                    return True
                time.sleep(0.1)
            return False

        def one(pl):
            i, L, P = pl["i"], pl["L"], pl["P"]
            key = ("c10cl-%d-%d" % (seed, i), "DEFAULT_GROUP", pl["tenant"])
            d, gr, t = key
            role = lambda n: "leader" if n is leader else "follower"     # noqa: E731
            cur = None
            if pl["change"] != "create":
                cur = "v0-%d" % i
                r = leader.post("/nacos/v1/cs/configs", form={"dataId": d, "group": gr, "tenant": t, "content": cur}, timeout=10)
                if r.status != 200 or not settle(L, key, cur) or not settle(P, key, cur):
                    return {"skip": "set-up publish not served"}
            held = md5(cur) if cur is not None else ""
            res = {}
            conn = "c%d" % i
            if pl["listener"] == "http":
                item = "%s\x02%s\x02%s" % (d, gr, held) + ("\x02%s" % t if t else "") + "\x01"

                def poll():
                    t0 = time.time()
                    try:
                        r = L.post("/nacos/v1/cs/configs/listener", form={"Listening-Configs": item}, headers={"Long-Pulling-Timeout": "14000"}, timeout=25)
                        res["lp"] = (time.time(), r.status, unquote(r.text()))
                    except OSError as e:
                        res["lp"] = (time.time(), -1, repr(e))
                    res["lp_t0"] = t0
                th = threading.Thread(target=poll, daemon=True)
                th.start()
            else:
                g = gcs[L.id]
                g.open_stream(conn, setup={"clientVersion": "Nacos-Java-Client:v2.2.0", "labels": {"source": "sdk", "module": "config"}, "tenant": t}, report=[NOTIFY])
                r = g.request(conn, "ConfigBatchListenRequest", {"listen": True, "configListenContexts": [{"dataId": d, "group": gr, "tenant": t, "md5": held}]})
                if not r.get("ok") or r.get("result_code") != 200:
                    return {"skip": "listen refused: %s" % str(r)[:120]}
                if (r.get("body") or {}).get("changedConfigs"):
                    return {"skip": "listener not in sync at subscribe"}
            time.sleep(rnd.choice([0.3, 0.8, 1.3]))
            if pl["listener"] == "http" and "lp" in res:
                return {"skip": "long-poll returned before the change: %s" % str(res["lp"])[:120]}
            t_call = time.time()
            if pl["change"] == "remove":
                r = P.delete("/nacos/v1/cs/configs", params={"dataId": d, "group": gr, "tenant": t}, timeout=10)
                ok = r.status == 200 and r.text().strip() == "true"
            else:
                r = P.post("/nacos/v1/cs/configs", form={"dataId": d, "group": gr, "tenant": t, "content": "v1-%d" % i}, timeout=10)
                ok = r.status == 200 and r.text().strip() == "true"
            t_ack = time.time()
            if not ok:
                return {"skip": "change not acknowledged", "unacked": True}
            where = "%s-listener-on-%s/change-through-%s%s" % (pl["listener"], role(L), "same-node" if P is L else role(P), "")
            if pl["listener"] == "http":
                th.join(CLUSTER_BOUND_S + 1.0)
                lp = res.get("lp")
                told = lp is not None and lp[1] == 200 and d in lp[2]
                lat = (lp[0] - t_ack) if lp else None
                late = (not told) or lat > CLUSTER_BOUND_S
                if late and lp is None:
                    th.join(16)
                    lp = res.get("lp")
                w = {"key": key, "change": pl["change"], "listener_node": L.id, "listener_role": role(L), "publisher_node": P.id, "publisher_role": role(P),
                     "held_md5": held, "answer": lp and [round(lp[0] - t_ack, 2), lp[1], lp[2][:120]], "bound_s": CLUSTER_BOUND_S, "change_returned_after_ms": round((t_ack - t_call) * 1000, 1)}
            else:
                e = gcs[L.id].wait_push(lambda e: e.get("conn") == conn and e.get("type") == NOTIFY and (e.get("body") or {}).get("dataId") == d and e["t_recv"] >= t_call, timeout=CLUSTER_BOUND_S)
                told = e is not None
                lat = (e["t_recv"] - t_ack) if e else None
                late = not told
                w = {"key": key, "change": pl["change"], "listener_node": L.id, "listener_role": role(L), "publisher_node": P.id, "publisher_role": role(P),
                     "held_md5": held, "pushes_on_conn": [x.get("body") for x in gcs[L.id].events("push", conn)][-3:], "bound_s": CLUSTER_BOUND_S}
                gcs[L.id].close_stream(conn)
            return {"late": late, "where": where, "change": pl["change"], "lat": lat, "witness": w}

        with ThreadPoolExecutor(max_workers=3) as ex:
            results = list(ex.map(one, plans))
        for r in results:
            facts["rounds"] += 1
            if "skip" in r:
                if r.get("unacked"):
                    facts["skipped_unacknowledged"] += 1
                else:
                    facts.setdefault("skipped", []).append(r["skip"][:120])
                continue
            facts["judged"] += 1
            out.evaluations += 1
            if r["late"]:
                out.violation("cluster/unnotified/%s/%s" % (r["where"], r["change"]), r["witness"])
            else:
                out.shape("cluster/notified/%s/%s" % (r["where"], r["change"]))
                facts["latency_ms_max"] = max(facts["latency_ms_max"], round(max(0.0, r["lat"]) * 1000, 1))
        if facts["judged"] < n_rounds // 2:
            facts["inconclusive"] = "fewer than half of the cluster rounds could be judged"
        out.extra["cluster_part"] = facts
    except common.Inconclusive as e:
        facts["inconclusive"] = str(e)[:300]
        out.extra["cluster_part"] = facts
    finally:
        for g in list(locals().get("gcs", {}).values()):
            try:
                g.stop()
            except Exception:
                pass
        cl.kill_all()


def run(tier, seed):
    common.build(need_bin=True)
    wd = common.workdir("c10")
    try:
        out = Outcome("C10", tier, seed)
        out.rule = ("part 1: ConfigCmd::LISTENER long-polls on a stand-alone ConfigActor; schedules are explicit message orders: every permutation of "
                    "{listen_i, change_j} for seeded and hand-written bases with <= 3 listeners, <= 3 keys, <= 4 changes (publish new / same content, remove, "
                    "temporary value, full-value import), sampled orders of larger scenarios, and a real-time family with 200-800 ms deadlines decided by the "
                    "actor's own 500 ms tick; oracle over the recorded history: immediate answer naming every key whose held md5 differs, answer naming the "
                    "changed key no later than the first content-changing publish / remove before the deadline, else an answer in [deadline, deadline + 500 ms "
                    "+ 400 ms]. part 2: real binary, real bi-stream gRPC clients, ConfigBatchListenRequest listen / un-listen, changes over HTTP and gRPC, polite "
                    "and abrupt closes; every content-changing publish / remove of a subscribed key must reach every subscribed, connected client as a "
                    "ConfigChangeNotifyRequest naming that key within 2 s. evaluations = orders / scenarios / change + listen requests; distinct = order patterns "
                    "(change kind, previous event on the key, keys per listener, listeners sharing the key, non-changing events seen before) in which a listener "
                    "was really pending when the change was applied, immediate-answer classes, time-out classes, and per-subscriber notification classes")
        out.assumptions = ["temporary (routed-write) values and full-value imports are not publishes: a listener left stale by them alone is reported as a diagnostic",
                           "a NULL answer before the deadline would be reported as a diagnostic only (the property bounds lateness, not earliness)",
                           "wall-clock lateness beyond deadline + 500 ms tick + 400 ms slack counts only when reproduced 3 times on a quiet actor"]
        shards = 16
        if tier == "quick":
            args = ["--bases", 14, "--sampled", 4000, "--timed", 450]
            to = 220
        else:
            args = ["--bases", 400, "--sampled", 100000, "--timed", 9000]
            to = 800
        # the parts run one after the other: part 1 has a wall-clock family that should not compete with 8 client processes
        reports = common.run_vh_shards("c10", shards, args, wd, to, seed)
        merged = common.merge_reports(reports)
        grpc_part(out, wd, tier, seed)
        cluster_part(out, wd, tier, seed)
        diags = {k: v for k, v in merged["counters"].items() if k.startswith("diag:")}
        merged["counters"] = {k: v for k, v in merged["counters"].items() if not k.startswith("diag:")}
        out.absorb(merged)
        out.extra["diagnostics_not_violations"] = diags
        out.min_nontrivial = 40
        return out.finish()
    finally:
        shutil.rmtree(wd, ignore_errors=True)


def replay(path):
    w = json.load(open(path))
    print(json.dumps(w, indent=1, ensure_ascii=False)[:8000])
    return run(w.get("tier", "quick"), int(w.get("seed", 1)))
