"""Rig A node layer: `vh node-session` (a complete in-process node) driven with seeded ClientRequest sequences."""
import json
import os
import signal
import subprocess
import time

import common


class NodeDied(Exception):
    pass


class NodeSession:
    def __init__(self, d, snapshot_size=10000, auto_init=True, env=None, preload=None, node_id=1):
        e = {k: v for k, v in os.environ.items() if not k.startswith("RNACOS_")}
        e.update({
            "RNACOS_DATA_DIR": d,
            "RNACOS_RAFT_NODE_ID": str(node_id),
            "RNACOS_RAFT_AUTO_INIT": "true" if auto_init else "false",
            "RNACOS_RAFT_NODE_ADDR": "127.0.0.1:1",
            "RNACOS_RAFT_SNAPSHOT_LOG_SIZE": str(snapshot_size),
            "RNACOS_NAMING_PERPETUAL_INSTANCE_PROBE_INTERVAL_SECOND": "0",
            "RNACOS_ENABLE_METRICS": "false",
        })
        e.setdefault("RUST_LOG", "off")
        if env:
            e.update(env)
        if preload:
            e["LD_PRELOAD"] = preload
        os.makedirs(d, exist_ok=True)
        self.p = subprocess.Popen([common.VH, "node-session"], stdin=subprocess.PIPE, stdout=subprocess.PIPE,
                                  stderr=subprocess.DEVNULL, env=e, cwd=d)
        line = self.p.stdout.readline()
        if not line:
            raise NodeDied("no ready line")
        self.ready = json.loads(line)
        if not self.ready.get("ready"):
            raise NodeDied("boot failed: %s" % self.ready)

    def call(self, op, **kw):
        m = dict(kw)
        m["op"] = op
        try:
            self.p.stdin.write((json.dumps(m) + "\n").encode())
            self.p.stdin.flush()
            line = self.p.stdout.readline()
        except (BrokenPipeError, OSError):
            raise NodeDied(op)
        if not line:
            raise NodeDied(op)
        return json.loads(line)

    def write(self, req):
        return self.call("write", req=req)

    def kill(self):
        try:
            self.p.send_signal(signal.SIGKILL)
        except Exception:
            pass
        self.p.wait()
        for f in (self.p.stdin, self.p.stdout):
            try:
                f.close()
            except Exception:
                pass


# ---------------------------------------------------------------- tiny protobuf encoder (ConfigValueDO)
def applied_index_on_disk(d):
    """the last-applied index as the next start will read it (first 8 bytes of the raft index file, big endian)"""
    try:
        with open(os.path.join(d, "index"), "rb") as f:
            b = f.read(8)
        return int.from_bytes(b, "big") if len(b) == 8 else None
    except OSError:
        return None


def settle_on_disk(sess, d, bound_s=10.0):
    """quiescence includes the lazily written last-applied index: it is written by its own actor thread through a
    blocking-pool write after the apply was acknowledged; on a loaded machine that can take longer than any fixed sleep.
    Returns True once the file shows the applied index the raft core reports."""
    import time
    t0 = time.time()
    while time.time() - t0 < bound_s:
        m = sess.call("metrics")
        if m.get("ok") is not False and m.get("last_applied") is not None and applied_index_on_disk(d) == m.get("last_applied") == m.get("last_log_index"):
            return True
        time.sleep(0.05)
    return False


def _vi(n):
    out = bytearray()
    while n > 0x7F:
        out.append((n & 0x7F) | 0x80)
        n >>= 7
    out.append(n)
    return bytes(out)


def _pb_str(tag, s):
    b = s.encode()
    return _vi((tag << 3) | 2) + _vi(len(b)) + b


def _pb_u(tag, n):
    return _vi(tag << 3) + _vi(n)


def user_do(username, nickname, now, roles, enable):
    out = _pb_str(1, username) + _pb_str(2, "") + _pb_str(3, nickname) + _pb_u(4, now) + _pb_u(5, now) + _pb_u(6, 1 if enable else 0)
    for ro in roles:
        out += _pb_str(7, ro)
    out += _pb_str(9, "$2b$04$abcdefghijklmnopqrstuuJ0vC0m0Zq5c1m8d9wQ3R9b8nq6mK7oS")
    return list(out)


def config_value_do(content, histories, ctype=None, desc=None):
    """histories: [(id, content, time, user|None)]"""
    out = _pb_str(1, content)
    for (hid, c, t, u) in histories:
        item = _pb_u(1, hid) + _pb_str(2, c) + _pb_u(3, t)
        if u is not None:
            item += _pb_str(4, u)
        out += _vi((2 << 3) | 2) + _vi(len(item)) + item
    if ctype is not None:
        out += _pb_str(3, ctype)
    if desc is not None:
        out += _pb_str(4, desc)
    return list(out)


# ---------------------------------------------------------------- request generator over all ClientRequest kinds
TENANTS = ["", "t1", "t2"]
GROUPS = ["g1", "DEFAULT_GROUP"]
DATA_IDS = ["d1", "d2", "d3.yaml", "app-config"]
TYPES = [None, "yaml", "json", "text", "properties", "weird"]
SERVICES = [("public", "DEFAULT_GROUP", "svc-a"), ("t1", "g1", "svc-b")]
SEQ_KEYS = ["k1", "k2"]
TABLES = ["T_USER"]


class ReqGen:
    def __init__(self, rnd):
        self.r = rnd
        self.hid = 0
        self.table_hwm = 0
        self.time = 1_700_000_000_000
        self.serial = 0
        self.config_keys = set()
        self.kinds = set()
        self.mcp_ids = []
        self.ns_ids = set()
        self.tool_keys = []

    def fresh_id(self):
        self.idc = getattr(self, "idc", 1000) + 1
        return self.idc

    def content(self):
        r = self.r
        self.serial += 1
        c = r.random()
        base = "v%d-" % self.serial
        if c >= 1.0 - getattr(self, "big_p", 0.004):
            return base + "w" * r.randrange(2_300_000, 6_000_000)      # far beyond the log file's 1 MiB pre-allocation step (limit: 10 MB)
        if c < 0.05:
            return ""
        if c < 0.6:
            return base + "x" * r.randrange(0, 40)
        if c < 0.8:
            return base + "é中文\n\t\"q\" " * r.randrange(1, 20)
        if c < 0.97:
            return base + "y" * r.randrange(500, 5000)
        return base + "z" * r.randrange(100000, 1200000)

    def ckey(self):
        r = self.r
        d, g, t = r.choice(DATA_IDS), r.choice(GROUPS), r.choice(TENANTS)
        self.config_keys.add((d, g, t))
        return ("%s\x02%s" % (d, g)) if t == "" else ("%s\x02%s\x02%s" % (d, g, t))

    def next(self, last_content=None):
        r = self.r
        self.time += r.randrange(1, 5000)
        c = r.random()
        if c < 0.34:
            self.kinds.add("ConfigSet")
            self.hid += 1
            tid = None
            if self.hid > self.table_hwm:
                self.table_hwm += 100
                tid = self.table_hwm
            content = self.content() if (last_content is None or r.random() < 0.85) else last_content
            return {"ConfigSet": {"key": self.ckey(), "value": content, "config_type": r.choice(TYPES), "desc": r.choice([None, None, "desc %d" % self.serial]),
                                  "history_id": self.hid, "history_table_id": tid, "op_time": self.time, "op_user": r.choice([None, "admin", "u2"])}}
        if c < 0.42:
            self.kinds.add("ConfigRemove")
            return {"ConfigRemove": {"key": self.ckey()}}
        if c < 0.46:
            self.kinds.add("ConfigFullValue")
            key = self.ckey()
            n = r.choice([0, 1, 3, 120])
            hs = []
            for _ in range(n):
                self.hid += 1
                hs.append((self.hid, "imp%d" % self.hid, self.time - n + len(hs), r.choice([None, "imp"])))
            content = hs[-1][1] if hs and r.random() < 0.7 else self.content()[:2000]
            last = None
            if self.hid > self.table_hwm:
                self.table_hwm += 100
                last = self.table_hwm
            return {"ConfigFullValue": {"key": list(key.encode()), "value": config_value_do(content, hs, r.choice(TYPES), r.choice([None, "d"])), "last_seq_id": last}}
        if c < 0.56:
            self.kinds.add("TableManagerReq")
            t = "T_USER"
            k = r.random()
            uname = "user%d" % r.randrange(5)
            if k < 0.6:
                return {"TableManagerReq": {"Set": {"table_name": t, "key": list(uname.encode()), "value": user_do(uname, "nick%d" % self.serial, int(self.time / 1000), r.choice([["0"], ["1"], ["2"], ["1", "2"]]), r.random() < 0.9), "last_seq_id": None}}}
            if k < 0.85:
                return {"TableManagerReq": {"Remove": {"table_name": t, "key": list(uname.encode())}}}
            if k < 0.95:
                return {"TableManagerReq": {"NextId": {"table_name": t, "seq_step": r.choice([None, 1, 10])}}}
            return {"TableManagerReq": {"SetSeqId": {"table_name": t, "last_seq_id": r.randrange(1, 5000)}}}
        if c < 0.64:
            self.kinds.add("NamespaceReq")
            nid = r.choice(["t1", "t2", "ns3", "ns4"])
            k = r.random()
            # an empty display name / type is a legal request (the name is cleared): Some("") must stay distinguishable from None on
            # every path the request takes (in-memory on the leader, through the log's JSON on followers and at replay)
            p = {"namespace_id": nid, "namespace_name": r.choice([None, "name-%d" % self.serial, "name-%d" % self.serial, ""]), "type": r.choice([None, "2", None, ""])}
            # AddOnly / InitFromOldValue are never issued by any code path of the system (migration leftovers): not generated
            if k < 0.4:
                return {"NamespaceReq": {"Update": p}}
            if k < 0.8:
                return {"NamespaceReq": {"Set": p}}
            return {"NamespaceReq": {"Delete": {"id": nid}}}
        if c < 0.72:
            self.kinds.add("SequenceReq")
            key = r.choice(SEQ_KEYS)
            k = r.random()
            if k < 0.6:
                return {"SequenceReq": {"req": {"NextId": key}}}
            if k < 0.9:
                return {"SequenceReq": {"req": {"NextRange": [key, r.choice([1, 10, 100])]}}}
            if k < 0.97:
                return {"SequenceReq": {"req": {"SetId": [key, r.randrange(1, 100000)]}}}
            return {"SequenceReq": {"req": {"RemoveId": key}}}
        if c < 0.82:
            self.kinds.add("NamingReq")
            ns, g, s = r.choice(SERVICES)
            ip, port = "10.0.0.%d" % r.randrange(1, 4), r.choice([80, 8080])
            k = r.random()
            param = {"ip": ip, "port": port, "weight": r.choice([1.0, 0.5, 2.0]), "enabled": r.random() < 0.8, "healthy": True, "ephemeral": False,
                     "metadata": {"m": "v%d" % self.serial} if r.random() < 0.5 else {}, "namespace_id": ns, "group_name": g, "service_name": s,
                     "cluster_name": r.choice([None, "c1"]), "app_name": r.choice([None, "app"]), "last_modified_millis": self.time}
            if k < 0.5:
                return {"NamingReq": {"req": {"RegisterInstance": {"param": param}}}}
            if k < 0.75:
                return {"NamingReq": {"req": {"UpdateInstance": {"param": param}}}}
            return {"NamingReq": {"req": {"RemoveInstance": {"namespaceId": ns, "groupName": g, "serviceName": s, "ip": ip, "port": port}}}}
        if c < 0.88:
            self.kinds.add("CacheReq")
            ck = {"cache_type": "String", "key": "ck%d" % r.randrange(4)}
            k = r.random()
            if k < 0.6:
                return {"CacheReq": {"req": {"Set": {"key": ck, "value": {"String": "cv%d" % self.serial}, "ttl": r.choice([0, 3600, 100000]), "now": int(self.time / 1000), "nx": False, "xx": False}}}}
            if k < 0.8:
                return {"CacheReq": {"req": {"Remove": ck}}}
            return {"CacheReq": {"req": {"Incr": [ck, 1]}}}
        if c < 0.90:
            self.kinds.add("NodeAddr")
            return {"NodeAddr": {"id": r.choice([1, 2, 3]), "addr": "127.0.0.1:%d" % r.randrange(1000, 60000)}}
        if c < 0.91:
            self.kinds.add("Members")
            return {"Members": [1]}
        # MCP
        self.kinds.add("McpReq")
        k = r.random()
        if k < 0.35 or not self.tool_keys:
            tk = {"namespace": r.choice(["", "t1"]), "group": "mg", "toolName": "tool%d" % r.randrange(3)}
            if tk not in self.tool_keys:
                self.tool_keys.append(tk)
            spec = dict(tk)
            spec.update({"parameters": {"name": tk["toolName"], "description": "d%d" % self.serial, "inputSchema": {"type": "object"}}, "version": self.fresh_id(), "updateTime": self.time, "opUser": "admin"})
            return {"McpReq": {"req": {"UpdateToolSpec": spec}}}
        if k < 0.45:
            return {"McpReq": {"req": {"RemoveToolSpec": r.choice(self.tool_keys)}}}
        if k < 0.8 or not self.mcp_ids:
            sid = r.randrange(1, 4) if self.mcp_ids and r.random() < 0.5 else (max(self.mcp_ids) + 1 if self.mcp_ids else 1)
            kind = "UpdateServer" if sid in self.mcp_ids else "AddServer"
            if sid not in self.mcp_ids:
                self.mcp_ids.append(sid)
            self.hid += 0
            p = {"id": sid, "uniqueKey": "uk%d" % sid, "valueId": self.fresh_id(), "tools": [], "opUser": "admin", "updateTime": self.time,
                 "namespace": r.choice(["", "t1"]), "name": "srv%d" % sid, "description": "desc%d" % self.serial, "token": "tok", "authKeys": ["a1"], "publishValueId": r.choice([None, self.fresh_id()])}
            return {"McpReq": {"req": {kind: p}}}
        if k < 0.9:
            return {"McpReq": {"req": {"RemoveServer": r.choice(self.mcp_ids)}}}
        return {"McpReq": {"req": {"PublishCurrentServer": [r.choice(self.mcp_ids), self.fresh_id()]}}}

    def dump_args(self):
        return {"config_keys": [{"data_id": d, "group": g, "tenant": t} for (d, g, t) in sorted(self.config_keys)],
                "service_keys": [{"namespace": n, "group": g, "service": s} for (n, g, s) in SERVICES]}


def diff_dumps(a, b, path=""):
    """first few differing leaves between two dumps"""
    if path == "":
        for d in (a, b):
            t = d.get("tables") if isinstance(d, dict) else None
            if isinstance(t, dict):   # an empty table and a missing table serve the same thing
                for name in [n for n, v in t.items() if isinstance(v, dict) and not v.get("rows")]:
                    del t[name]
    out = []
    if type(a) != type(b):
        return [(path, a, b)]
    if isinstance(a, dict):
        for k in sorted(set(a) | set(b)):
            if k not in a:
                out.append((path + "/" + k, "<absent>", b[k]))
            elif k not in b:
                out.append((path + "/" + k, a[k], "<absent>"))
            else:
                out += diff_dumps(a[k], b[k], path + "/" + k)
            if len(out) > 60:
                break
        return out
    if isinstance(a, list):
        if len(a) != len(b):
            return [(path + "#len", len(a), len(b))]
        for i, (x, y) in enumerate(zip(a, b)):
            out += diff_dumps(x, y, "%s[%d]" % (path, i))
            if len(out) > 6:
                break
        return out
    if a != b:
        return [(path, a, b)]
    return []
