"""C12 — registry queries return exactly the live registrations; a closed gRPC connection removes its own ephemeral instances only.

Part 1 (harness/src/c12.rs): in-process NamingActor, reference model of the documented rules, four query kinds.
Part 2 (this file): the real rnacos binary, real gRPC connections (one `vh grpc-client` process per connection) and HTTP clients
on the same (service, ip, port) keys; connections are closed politely / abruptly / by SIGKILL of the client process in every
order; results are read through /nacos/v1/ns/instance/list and the gRPC ServiceQueryRequest."""
import itertools
import json
import os
import random
import shutil
import subprocess
import threading
import time
from concurrent.futures import ThreadPoolExecutor

import common
import grpcrig
import procrig
from common import Outcome

SHARDS = 16
DISCONNECT_BOUND_S = 5.0
IPS = ["10.1.0.1", "10.1.0.2"]
PORTS = [7001, 7002, 7003]
KEYS = [(ip, p) for ip in IPS for p in PORTS][:5]
CLOSE_MODES = ["polite", "abrupt", "sigkill"]


# ------------------------------------------------------------------------------------------------ reference model (part 2)
class MInst:
    def __init__(self, owners, ephemeral, enabled, weight):
        self.owners, self.ephemeral, self.enabled, self.weight = set(owners), ephemeral, enabled, weight

    def desc(self):
        return {"owners": sorted(self.owners), "ephemeral": self.ephemeral, "enabled": self.enabled, "weight": self.weight}


def klass(m, actor):
    """prior state class of an instance relative to the acting connection (same names as the in-process part)"""
    if m is None:
        return "absent"
    if m.owners == {""}:
        who = "http"
    elif actor is not None and m.owners == {actor}:
        who = "owned-by-acting-connection"
    elif actor is not None and actor in m.owners:
        who = "maybe-owned-by-acting-connection"
    else:
        who = "owned-by-other-connection"
    return "%s-%s" % ("ephemeral" if m.ephemeral else "persistent", who)


def expect_write(op, old):
    """allowed outcome of a register/update: dict field -> list of allowed values, plus owners as a function of the resulting ephemeral flag"""
    if op["op"] == "grpc_reg":
        c = op["conn"]
        if old is None:
            return {"new": True, "ephemeral": [op["ephemeral"]], "enabled": [op["enabled"]], "weight": [op["weight"]],
                    "owners": lambda eph: {c} if eph else {c, ""}}
        return {"new": False, "ephemeral": [op["ephemeral"], old.ephemeral], "enabled": [op["enabled"], old.enabled], "weight": [op["weight"], old.weight],
                "owners": lambda eph: {c} if eph else ({c, ""} | old.owners)}
    # http_reg: an absent parameter means "default" for a new instance and "unchanged" for an existing one
    e, en, w = op.get("ephemeral"), op.get("enabled"), op.get("weight")
    if old is None:
        return {"new": True, "ephemeral": [True if e is None else e], "enabled": [True if en is None else en], "weight": [1.0 if w is None else w],
                "owners": lambda eph: {""}}
    return {"new": False, "ephemeral": [old.ephemeral if e is None else e], "enabled": [old.enabled if en is None else en],
            "weight": [old.weight] if w is None else ([w, old.weight] if w == 1.0 else [w]),
            # an HTTP ephemeral write onto a gRPC-owned instance keeps the gRPC owner
            "owners": lambda eph: set(old.owners) if eph else (set(old.owners) | {""})}


def expect_dereg(by, old):
    """True = must still exist, False = must be gone, None = either"""
    if old is None:
        return False
    if not old.ephemeral:
        return None  # the property is silent about deregistering persistent instances
    if by == "" or old.owners == {by}:
        return False
    if by not in old.owners:
        return True  # an ephemeral instance can only be removed by its owner (or by an empty client id)
    return None


def expect_close(c, m):
    if m.ephemeral and m.owners == {c}:
        return False
    if not m.ephemeral or c not in m.owners:
        return True
    return None


K1, K2, K3 = ("10.1.0.1", 7001), ("10.1.0.1", 7002), ("10.1.0.2", 7001)
# minimal scenarios: one rule each (they are the positive controls of the rules and give minimal witnesses)
SCRIPTS = [
    ("own-ephemeral-removed-at-polite-close", [{"op": "grpc_reg", "conn": "a", "key": K1}, {"op": "grpc_reg", "conn": "b", "key": K2}, {"op": "close", "conn": "a", "mode": "polite"}, {"op": "close", "conn": "b", "mode": "polite"}]),
    ("own-ephemeral-removed-at-abrupt-close", [{"op": "grpc_reg", "conn": "a", "key": K1}, {"op": "grpc_reg", "conn": "b", "key": K2}, {"op": "close", "conn": "b", "mode": "abrupt"}, {"op": "close", "conn": "a", "mode": "sigkill"}]),
    ("re-registration-by-another-connection-moves-ownership", [{"op": "grpc_reg", "conn": "a", "key": K1}, {"op": "grpc_reg", "conn": "b", "key": K1}, {"op": "close", "conn": "a", "mode": "polite"}, {"op": "close", "conn": "b", "mode": "abrupt"}]),
    ("http-ephemeral-write-keeps-grpc-owner", [{"op": "grpc_reg", "conn": "a", "key": K1}, {"op": "http_reg", "key": K1, "weight": 2.0}, {"op": "http_reg", "key": K2}, {"op": "close", "conn": "a", "mode": "polite"}]),
    ("foreign-connection-cannot-deregister", [{"op": "grpc_reg", "conn": "a", "key": K1}, {"op": "grpc_dereg", "conn": "b", "key": K1}, {"op": "http_dereg", "key": K1}, {"op": "grpc_reg", "conn": "a", "key": K2}, {"op": "grpc_dereg", "conn": "a", "key": K2}]),
    ("persistent-instance-registered-over-grpc-survives-close", [{"op": "grpc_reg", "conn": "a", "key": K1, "ephemeral": False}, {"op": "close", "conn": "a", "mode": "polite"}]),
    ("persistent-http-instance-re-registered-by-connection-survives-close", [{"op": "http_reg", "key": K1, "ephemeral": False}, {"op": "grpc_reg", "conn": "a", "key": K1}, {"op": "close", "conn": "a", "mode": "polite"}]),
    ("persistent-http-instance-re-registered-by-connection-survives-kill", [{"op": "http_reg", "key": K1, "ephemeral": False}, {"op": "grpc_reg", "conn": "a", "key": K1}, {"op": "close", "conn": "a", "mode": "sigkill"}]),
    ("http-write-switching-persistent-to-ephemeral-keeps-instance", [{"op": "http_reg", "key": K1, "ephemeral": False}, {"op": "http_reg", "key": K1, "ephemeral": True}]),
    ("http-write-switching-grpc-owned-persistent-to-ephemeral-keeps-instance", [{"op": "http_reg", "key": K1, "ephemeral": False}, {"op": "grpc_reg", "conn": "a", "key": K1}, {"op": "http_reg", "key": K1, "ephemeral": True}]),
    ("batch-registration-default-namespace-spelled-out", [{"op": "grpc_batch_reg", "conn": "a", "keys": [K1, K2], "namespace": "public"}, {"op": "close", "conn": "a", "mode": "polite"}]),
    ("batch-registration-empty-namespace-means-default", [{"op": "grpc_reg", "conn": "a", "key": K3, "namespace": ""}, {"op": "grpc_batch_reg", "conn": "a", "keys": [K1, K2], "namespace": ""}, {"op": "close", "conn": "a", "mode": "polite"}]),
    ("disabled-instance-not-listed", [{"op": "grpc_reg", "conn": "a", "key": K1, "enabled": False}, {"op": "http_reg", "key": K2, "enabled": False}, {"op": "http_reg", "key": K3}, {"op": "http_reg", "key": K2, "enabled": True}]),
]


# ------------------------------------------------------------------------------------------------ real-node scenario
class Scenario:
    def __init__(self, node, idx, seed, wd, order, modes, observer, obs_lock):
        self.node, self.idx, self.seed, self.wd = node, idx, seed, wd
        self.rnd = random.Random(seed)
        self.svc = "c12-%d-%d" % (seed % 100000, idx)
        self.order, self.modes = order, modes
        self.conns = {}            # name -> GrpcClient
        self.closed = set()
        self.model = {}            # key -> MInst
        self.trace = []
        self.viol = []             # (signature, detail)
        self.shapes = {}
        self.evals = 0
        self.observer, self.obs_lock = observer, obs_lock

    # ---- plumbing
    def _http(self, fn, *a, **kw):
        """transport errors (connection refused / reset under load) are infrastructure trouble, never a verdict"""
        last = None
        for _ in range(4):
            try:
                return fn(*a, **kw)
            except OSError as e:
                last = e
                if not self.node.alive():
                    break
                time.sleep(0.25)
        raise common.Inconclusive("HTTP transport error (%s), node alive=%s: %s" % (last, self.node.alive(), self.node.tail_log(600)))

    def shape(self, s):
        self.shapes[s] = self.shapes.get(s, 0) + 1

    def violation(self, sig, detail):
        self.viol.append((sig, {"rig": "real rnacos binary", "service": self.svc, "scenario_seed": self.seed, "detail": detail,
                                "trace": list(self.trace[-40:])}))

    def spell(self, v):
        """clients spell booleans as their language prints them: true / True / TRUE"""
        self.n_spell = getattr(self, "n_spell", 0) + 1
        w = "true" if v else "false"
        return (w, w.capitalize(), w.upper())[self.n_spell % 3]

    def http_reg(self, key, ephemeral=None, enabled=None, weight=None):
        form = {"serviceName": self.svc, "ip": key[0], "port": str(key[1])}
        if ephemeral is not None:
            form["ephemeral"] = self.spell(ephemeral)
        if enabled is not None:
            form["enabled"] = self.spell(enabled)
        if weight is not None:
            form["weight"] = str(weight)
        r = self._http(self.node.post, "/nacos/v1/ns/instance", form=form)
        if r.status != 200:
            raise common.Inconclusive("HTTP register answered %s %s" % (r.status, r.text()[:200]))

    def http_dereg(self, key):
        r = self._http(self.node.delete, "/nacos/v1/ns/instance", params={"serviceName": self.svc, "ip": key[0], "port": str(key[1])})
        if r.status != 200:
            raise common.Inconclusive("HTTP deregister answered %s %s" % (r.status, r.text()[:200]))

    def grpc_instance(self, conn, key, typ, ephemeral=True, enabled=True, weight=1.0, namespace="public"):
        body = {"namespace": namespace, "serviceName": self.svc, "groupName": "DEFAULT_GROUP", "type": typ,
                "instance": {"ip": key[0], "port": key[1], "weight": weight, "healthy": True, "enabled": enabled, "ephemeral": ephemeral,
                             "clusterName": "DEFAULT", "serviceName": self.svc, "metadata": {}}}
        r = self.conns[conn].request(conn, "InstanceRequest", body)
        if not r.get("ok") or r.get("type") != "InstanceResponse" or r.get("result_code") != 200:
            raise common.Inconclusive("gRPC InstanceRequest failed: %s" % json.dumps(r)[:300])

    def detail(self, key):
        """GET /nacos/v1/ns/instance: the stored instance regardless of enabled/healthy; None when not registered"""
        r = self._http(self.node.get, "/nacos/v1/ns/instance", params={"serviceName": self.svc, "ip": key[0], "port": str(key[1])})
        self.evals += 1
        if r.status == 200:
            j = r.json() or {}
            return {"ephemeral": j.get("ephemeral"), "enabled": j.get("enabled"), "weight": j.get("weight"), "healthy": j.get("healthy")}
        if r.status == 500 and r.text().strip() == "error":
            return None
        raise common.Inconclusive("GET instance answered %s %s" % (r.status, r.text()[:200]))

    def lists(self):
        """(http hosts, grpc hosts) as {key: {...}} for healthyOnly=false"""
        r = self._http(self.node.get, "/nacos/v1/ns/instance/list", params={"serviceName": self.svc, "healthyOnly": self.spell(False)})
        if r.status != 200:
            raise common.Inconclusive("instance/list answered %s %s" % (r.status, r.text()[:200]))
        h = {(x["ip"], x["port"]): x for x in (r.json() or {}).get("hosts", [])}
        with self.obs_lock:
            g = self.observer.request("q", "ServiceQueryRequest", {"namespace": "public", "serviceName": self.svc, "groupName": "DEFAULT_GROUP",
                                                                     "cluster": "", "healthyOnly": False})
        if not g.get("ok") or g.get("type") != "QueryServiceResponse":
            raise common.Inconclusive("gRPC ServiceQueryRequest failed: %s" % json.dumps(g)[:300])
        gh = {(x["ip"], x["port"]): x for x in (((g.get("body") or {}).get("serviceInfo") or {}).get("hosts") or [])}
        self.evals += 2
        return h, gh

    def check_lists(self, after):
        want = {k for k, m in self.model.items() if m.enabled}
        h, g = self.lists()
        for name, got in (("http-instance-list", h), ("grpc-service-query", g)):
            keys = set(got)
            if keys != want:
                miss, extra = sorted(want - keys), sorted(keys - want)
                if miss:
                    sym = "registered-instance-missing-from-result"
                elif any(k in self.model for k in extra):
                    sym = "disabled-instance-returned"
                else:
                    sym = "unregistered-or-deregistered-instance-returned"
                self.violation("real/query/%s/%s" % (name, sym), {"after": after, "missing": miss, "extra": extra,
                                                                  "model": {"%s:%d" % k: m.desc() for k, m in self.model.items()}})
                return
            for k, x in got.items():
                m = self.model[k]
                if x.get("ephemeral") != m.ephemeral or abs(float(x.get("weight", -1)) - m.weight) > 1e-6:
                    self.violation("real/query/%s/returned-instance-differs-from-registration" % name, {"after": after, "returned": x, "registered": m.desc()})
                    return
        self.shape("real/query/%d-enabled/%d-disabled" % (min(len(want), 3), min(len(self.model) - len(want), 2)))

    def settle(self, persistent_involved, key=None):
        # persistent instances take a raft round trip that the HTTP/gRPC answer does not wait for: wait until the stored
        # instance has not changed for 0.4 s (at most 3 s)
        if not persistent_involved or key is None:
            time.sleep(0.4 if persistent_involved else 0.03)
            return
        t0 = time.time()
        last, since = self.detail(key), time.time()
        while time.time() - since < 0.4 and time.time() - t0 < 3.0:
            time.sleep(0.1)
            cur = self.detail(key)
            if cur != last:
                last, since = cur, time.time()

    # ---- operations
    def do_write(self, op):
        key = op["key"]
        old = self.model.get(key)
        actor = op.get("conn")
        pc = klass(old, actor)
        exp = expect_write(op, old)
        self.trace.append({k: v for k, v in op.items()})
        if op["op"] == "grpc_reg":
            self.grpc_instance(actor, key, "registerInstance", op["ephemeral"], op["enabled"], op["weight"], namespace=op.get("namespace", "public"))
            kind, note = "grpc-register", "[ephemeral=%s]" % str(op["ephemeral"]).lower()
        else:
            self.http_reg(key, op.get("ephemeral"), op.get("enabled"), op.get("weight"))
            e = op.get("ephemeral")
            kind, note = "http-write", "[ephemeral=%s]" % ("unset" if e is None else str(e).lower())
        pers = (old is not None and not old.ephemeral) or op.get("ephemeral") is False
        self.settle(pers, key)
        got = self.detail(key)
        self.shape("real/op/%s%s@%s" % (kind, note, pc))
        sym = None
        if got is None:
            sym = "registered-instance-missing-after-write"
        else:
            fam = "new-instance" if exp["new"] else "re-registration"
            if got["ephemeral"] not in exp["ephemeral"]:
                sym = fam + "-ephemeral-flag-differs"
            elif got["enabled"] not in exp["enabled"]:
                sym = fam + "-enabled-flag-differs"
            elif not any(abs(float(got["weight"]) - w) < 1e-6 for w in exp["weight"]):
                sym = fam + "-weight-differs"
        if sym:
            self.violation("real/%s/%s%s@%s" % (sym, kind, note, pc), {"op": op, "model_before": old.desc() if old else None, "read_back": got,
                                                                        "allowed": {k: exp[k] for k in ("ephemeral", "enabled", "weight")}})
        if got is None:
            self.model.pop(key, None)
        else:
            self.model[key] = MInst(exp["owners"](got["ephemeral"]), got["ephemeral"], got["enabled"], float(got["weight"]))
        self.check_lists(kind)

    def do_batch(self, op):
        """gRPC BatchInstanceRequest (one connection registers several ephemeral instances at once) with the namespace spelled as given"""
        conn, ns = op["conn"], op["namespace"]
        self.trace.append(dict(op))
        body = {"namespace": ns, "serviceName": self.svc, "groupName": "DEFAULT_GROUP", "type": "registerInstance",
                "instances": [{"ip": k[0], "port": k[1], "weight": 1.0, "healthy": True, "enabled": True, "ephemeral": True,
                               "clusterName": "DEFAULT", "metadata": {}} for k in op["keys"]]}
        r = self.conns[conn].request(conn, "BatchInstanceRequest", body)
        if not r.get("ok") or r.get("type") != "BatchInstanceResponse" or r.get("result_code") != 200:
            raise common.Inconclusive("gRPC BatchInstanceRequest failed: %s" % json.dumps(r)[:300])
        self.settle(False)
        note = "[namespace=%s]" % ("empty" if ns == "" else "default-spelled-out")
        for k in op["keys"]:
            k = tuple(k)
            old = self.model.get(k)
            got = self.detail(k)
            self.shape("real/op/grpc-batch-register%s@%s" % (note, klass(old, conn)))
            if got is None:
                self.violation("real/registered-instance-missing-after-write/grpc-batch-register%s@%s" % (note, klass(old, conn)),
                               {"op": op, "instance": "%s:%d" % k, "read_back": None,
                                "note": "read back through GET /nacos/v1/ns/instance in the default namespace; the same request shape with a single InstanceRequest registers into 'public'"})
                self.model.pop(k, None)
            else:
                self.model[k] = MInst({conn} if got["ephemeral"] else {conn, ""}, got["ephemeral"], got["enabled"], float(got["weight"]))
        self.check_lists("grpc-batch-register")

    def do_dereg(self, op):
        key = op["key"]
        old = self.model.get(key)
        by = op.get("conn") or ""
        pc = klass(old, op.get("conn"))
        exp = expect_dereg(by, old)
        self.trace.append(dict(op))
        if by:
            self.grpc_instance(by, key, "deregisterInstance")
            kind = "grpc-deregister"
        else:
            self.http_dereg(key)
            kind = "http-deregister"
        self.settle(old is not None and not old.ephemeral, key)
        got = self.detail(key)
        self.shape("real/op/%s@%s/%s" % (kind, pc, "kept" if got else "gone"))
        sym = None
        if exp is True and got is None:
            sym = "ephemeral-instance-removed-by-foreign-client"
        elif exp is False and got is not None:
            sym = "deregistered-instance-still-registered"
        if sym:
            self.violation("real/%s/%s@%s" % (sym, kind, pc), {"op": op, "model_before": old.desc() if old else None, "read_back": got})
        if got is None:
            self.model.pop(key, None)
        self.check_lists(kind)

    def do_close(self, conn, mode):
        self.trace.append({"op": "close", "conn": conn, "mode": mode})
        before = {k: m for k, m in self.model.items()}
        must_go = [k for k, m in before.items() if expect_close(conn, m) is False]
        must_stay = [k for k, m in before.items() if expect_close(conn, m) is True]
        g = self.conns[conn]
        t0 = time.time()
        if mode == "sigkill":
            g.stop(abrupt=True)
        else:
            g.close_stream(conn, abrupt=(mode == "abrupt"))
        self.closed.add(conn)
        # bounded wait: the connection's own ephemeral instances must be gone within 5 s
        left = list(must_go)
        while True:
            left = [k for k in left if self.detail(k) is not None]
            if not left or time.time() - t0 > DISCONNECT_BOUND_S:
                break
            time.sleep(0.05)
        took = time.time() - t0
        if not left:
            time.sleep(0.25)  # let a removal of somebody else's instance (if any) become visible too
        for k in left:
            self.violation("real/connection-end-left-own-ephemeral-instance/connection-end@%s" % klass(before[k], conn),
                           {"conn": conn, "mode": mode, "instance": "%s:%d" % k, "waited_s": round(took, 2), "model_before": before[k].desc()})
        for k in must_stay:
            if self.detail(k) is None:
                m = before[k]
                what = "persistent" if not m.ephemeral else ("http" if m.owners == {""} else "other-connections")
                self.violation("real/connection-end-removed-%s-instance/connection-end@%s" % (what, klass(m, conn)),
                               {"conn": conn, "mode": mode, "instance": "%s:%d" % k, "model_before": m.desc()})
        for k in list(self.model):
            if self.detail(k) is None:
                self.model.pop(k)
        self.shape("real/op/connection-end/%s/own=%d/others-left=%d" % (mode, min(len(must_go), 3), min(len(must_stay), 3)))
        self.check_lists("connection-end")
        return took

    # ---- script
    def run_script(self, script):
        """a fixed list of operations (minimal scenarios, also the positive controls of the individual rules)"""
        names = sorted({o["conn"] for o in script if o.get("conn")})
        try:
            for n in names:
                g = grpcrig.GrpcClient(self.node.grpc_addr, self.wd, name="s%d-%s" % (self.idx, n))
                self.conns[n] = g
                g.open_stream(n)
            took = []
            for o in script:
                o = dict(o)
                if "key" in o:
                    o["key"] = tuple(o["key"])
                if o["op"] in ("grpc_reg", "http_reg"):
                    if o["op"] == "grpc_reg":
                        o.setdefault("ephemeral", True)
                        o.setdefault("enabled", True)
                        o.setdefault("weight", 1.0)
                    self.do_write(o)
                elif o["op"] in ("grpc_dereg", "http_dereg"):
                    self.do_dereg(o)
                elif o["op"] == "grpc_batch_reg":
                    self.do_batch(o)
                elif o["op"] == "close":
                    took.append(self.do_close(o["conn"], o["mode"]))
            time.sleep(0.3)
            for k, m in list(self.model.items()):
                if self.detail(k) is None:
                    self.violation("real/registered-instance-missing-at-end/%s" % klass(m, None), {"instance": "%s:%d" % k, "model": m.desc()})
            self.check_lists("end")
            return {"took": took}
        finally:
            for n, g in self.conns.items():
                try:
                    g.stop(abrupt=True)
                except Exception:
                    pass

    def run(self):
        rnd = self.rnd
        names = ["a", "b", "c"][:len(self.order)]
        try:
            for n in names:
                g = grpcrig.GrpcClient(self.node.grpc_addr, self.wd, name="s%d-%s" % (self.idx, n))
                self.conns[n] = g
                g.open_stream(n)
            live = lambda: [n for n in names if n not in self.closed]
            close_plan = list(zip(self.order, self.modes))
            # a first connection may already end in the middle of the history
            n_ops = rnd.randint(8, 14)
            mid_close_at = rnd.randint(4, n_ops - 1) if rnd.random() < 0.5 else None
            took = []
            for i in range(n_ops):
                if mid_close_at == i and len(close_plan) > 1:
                    c, mode = close_plan.pop(0)
                    took.append(self.do_close(names[c], mode))
                present = list(self.model)
                x = rnd.random()
                if x < 0.42 and live():
                    key = rnd.choice(present) if present and rnd.random() < 0.45 else rnd.choice(KEYS)
                    self.do_write({"op": "grpc_reg", "conn": rnd.choice(live()), "key": key, "ephemeral": rnd.random() < 0.85,
                                   "enabled": rnd.random() < 0.85, "weight": rnd.choice([1.0, 1.0, 2.0, 0.5])})
                elif x < 0.70:
                    key = rnd.choice(present) if present and rnd.random() < 0.55 else rnd.choice(KEYS)
                    op = {"op": "http_reg", "key": key}
                    if rnd.random() < 0.5:
                        op["ephemeral"] = rnd.random() < 0.5
                    if rnd.random() < 0.35:
                        op["enabled"] = rnd.random() < 0.5
                    if rnd.random() < 0.35:
                        op["weight"] = rnd.choice([1.0, 2.0, 0.5])
                    self.do_write(op)
                elif x < 0.88 and live():
                    key = rnd.choice(present) if present and rnd.random() < 0.85 else rnd.choice(KEYS)
                    m = self.model.get(key)
                    owner = next(iter(m.owners)) if m and len(m.owners) == 1 else ""
                    conn = owner if owner in live() and rnd.random() < 0.5 else rnd.choice(live())
                    self.do_dereg({"op": "grpc_dereg", "conn": conn, "key": key})
                else:
                    key = rnd.choice(present) if present and rnd.random() < 0.85 else rnd.choice(KEYS)
                    self.do_dereg({"op": "http_dereg", "key": key})
                if len(self.viol) >= 6:
                    break
            for c, mode in close_plan:
                took.append(self.do_close(names[c], mode))
            # end state: nothing of a closed connection is left, everything else is still served
            time.sleep(0.3)
            for k, m in list(self.model.items()):
                if self.detail(k) is None:
                    self.violation("real/registered-instance-missing-at-end/%s" % klass(m, None), {"instance": "%s:%d" % k, "model": m.desc()})
            self.check_lists("end")
            return {"took": took}
        finally:
            for n, g in self.conns.items():
                try:
                    g.stop(abrupt=True)
                except Exception:
                    pass


def real_part(out, wd, seed, n_scen, workers):
    env = {"RNACOS_NAMING_HEALTH_TIMEOUT_SECOND": "600", "RNACOS_NAMING_INSTANCE_TIMEOUT_SECOND": "1200"}
    node = procrig.Node(wd, 1, env=env)
    observer = None
    try:
        node.start()
        time.sleep(0.8)
        observer = grpcrig.GrpcClient(node.grpc_addr, wd, name="observer")
        observer.open_stream("q")
        obs_lock = threading.Lock()
        # positive control: a registration is visible through both read paths, otherwise the comparisons below mean nothing
        ctl = Scenario(node, 0, seed, wd, (0,), ("polite",), observer, obs_lock)
        ctl.http_reg(("10.9.9.9", 9), ephemeral=True)
        h, g = ctl.lists()
        if ("10.9.9.9", 9) not in h or ("10.9.9.9", 9) not in g:
            raise common.Inconclusive("control registration not visible: http=%s grpc=%s" % (list(h), list(g)))
        plans = [(1000 + i, seed, None, None, sc) for i, sc in enumerate(SCRIPTS)]
        rnd = random.Random(seed * 977 + 5)
        orders3 = list(itertools.permutations(range(3)))
        orders2 = list(itertools.permutations(range(2)))
        for i in range(n_scen):
            if i % 3 == 2:
                order = orders2[(i // 3) % 2]
            else:
                order = orders3[i % 6]
            # every close mode appears in every position over the run
            modes = tuple(CLOSE_MODES[(i + j * (1 + i // 6)) % 3] for j in range(len(order)))
            plans.append((i + 1, rnd.randrange(1 << 30), order, modes, None))
        results = []
        lock = threading.Lock()
        max_took = [0.0]

        def one(plan):
            idx, sseed, order, modes, script = plan
            last = None
            for attempt in range(2):  # one retry of a flaky sub-run
                sc = Scenario(node, idx + attempt * 100000, sseed, wd, order or (), modes or (), observer, obs_lock)
                try:
                    r = sc.run_script(script[1]) if script else sc.run()
                    with lock:
                        if r["took"]:
                            max_took[0] = max(max_took[0], max(r["took"]))
                    return sc, None
                except common.Inconclusive as e:
                    last = str(e)
                    if not node.alive():
                        break
            return None, last

        with ThreadPoolExecutor(max_workers=workers) as ex:
            results = list(ex.map(one, plans))
        incon = [e for sc, e in results if sc is None]
        orders_seen, modes_seen = set(), set()
        for (sc, e), plan in zip(results, plans):
            if sc is None:
                continue
            out.evaluations += sc.evals
            if plan[4]:
                out.extra.setdefault("real_scripted_scenarios", {})[plan[4][0]] = "as-modelled" if not sc.viol else [v[0] for v in sc.viol]
                if sc.viol:
                    for v in sc.viol:
                        v[1]["trace"] = plan[4][1]
                        v[1]["scripted_scenario"] = plan[4][0]
            else:
                orders_seen.add((len(plan[2]), plan[2]))
                modes_seen.update(plan[3])
            for s, n in sc.shapes.items():
                out.shape(s, n)
            for sig, w in sc.viol:
                out.violation(sig, w)
            if not sc.viol and len([x for x in out.samples if x.get("rig") == "real rnacos binary"]) < 2:
                out.samples.append({"rig": "real rnacos binary", "service": sc.svc, "close_order": [["a", "b", "c"][c] for c in (plan[2] or ())], "close_modes": plan[3], "scripted": plan[4][0] if plan[4] else None,
                                    "trace": sc.trace[:14], "verdict": "every read-back, both list paths and every connection end matched the reference model"})
        out.extra["real_scenarios"] = len(plans) - len(incon)
        out.extra["real_close_orders_exercised"] = len(orders_seen)
        out.extra["real_close_modes_exercised"] = sorted(modes_seen)
        out.extra["real_max_seconds_until_own_instances_gone"] = round(max_took[0], 3)
        if incon:
            out.extra.setdefault("inconclusive_subruns", []).extend(incon[:10])
        if len(incon) > max(1, len(plans) // 10):
            raise common.Inconclusive("%d of %d real-node scenarios failed for infrastructure reasons: %s" % (len(incon), len(plans), incon[0]))
        if not node.alive():
            raise common.Inconclusive("node died during the run: %s" % node.tail_log())
    finally:
        if observer is not None:
            try:
                observer.stop(abrupt=True)
            except Exception:
                pass
        node.kill()


def silent_connection_part(out, wd, seed):
    """a gRPC client that answered at least one liveness probe and then goes silent WITHOUT closing its connection (frozen process,
    pulled cable): the server must notice through its own probes (detection time-out 3 s here, response time-out 3 s) and
    remove exactly that connection's ephemeral instances; a busy neighbour connection keeps its own"""
    import os
    import signal
    DET = 3
    node = procrig.Node(os.path.join(wd, "silent"), 7, env={"RNACOS_GRPC_DETECTION_TIMEOUT_SECOND": str(DET), "RNACOS_NAMING_HEALTH_TIMEOUT_SECOND": "600",
                                                            "RNACOS_NAMING_INSTANCE_TIMEOUT_SECOND": "1200"}, name="silent")
    info = {"detection_timeout_s": DET}
    a = b = None
    try:
        node.start()
        time.sleep(0.5)
        svc = "c12silent-%d" % seed

        def reg(g, conn, ip):
            body = {"namespace": "public", "serviceName": svc, "groupName": "DEFAULT_GROUP", "type": "registerInstance",
                    "instance": {"ip": ip, "port": 80, "weight": 1.0, "healthy": True, "enabled": True, "ephemeral": True, "clusterName": "DEFAULT", "serviceName": svc, "metadata": {}}}
            r = g.request(conn, "InstanceRequest", body)
            if not r.get("ok") or r.get("result_code") != 200:
                raise common.Inconclusive("silent-connection part: registration refused: %s" % str(r)[:200])

        def listed():
            r = node.get("/nacos/v1/ns/instance/list", params={"serviceName": svc, "healthyOnly": "false"}, timeout=5)
            return sorted(h.get("ip") for h in ((r.json() or {}).get("hosts") or []))
        a = grpcrig.GrpcClient(node.grpc_addr, wd, name="silent-a")
        b = grpcrig.GrpcClient(node.grpc_addr, wd, name="silent-b")
        a.open_stream("a", report=["ClientDetectionRequest"])
        b.open_stream("b", report=["ClientDetectionRequest"])
        reg(a, "a", "10.12.0.1")
        reg(b, "b", "10.12.0.2")
        if listed() != ["10.12.0.1", "10.12.0.2"]:
            raise common.Inconclusive("silent-connection part: registrations not listed: %s" % listed())
        # idle until A has answered a probe (B keeps talking: it is never probed)
        t0 = time.time()
        probes = 0
        while time.time() - t0 < 4 * DET + 4:
            reg(b, "b", "10.12.0.2")
            probes = len([e for e in a.events("push", "a") if e.get("type") == "ClientDetectionRequest" and e.get("acked")])
            if probes >= 1 and time.time() - t0 > DET + 1.5:
                break
            time.sleep(0.4)
        info["probes_answered_before_silence"] = probes
        if probes < 1:
            info["status"] = "inconclusive: the idle connection was not probed"
            out.extra["silent_connection"] = info
            return
        os.kill(a.p.pid, signal.SIGSTOP)
        t_stop = time.time()
        bound = DET + 3 + 2 * 2 + 4.0          # detection + response time-out, two 2 s check rounds, slack
        gone = None
        while time.time() - t_stop < bound:
            reg(b, "b", "10.12.0.2")
            cur = listed()
            if "10.12.0.1" not in cur:
                gone = time.time() - t_stop
                break
            time.sleep(0.5)
        cur = listed()
        info.update({"silent_instance_gone_after_s": gone and round(gone, 1), "bound_s": bound, "listed_at_end": cur})
        out.evaluations += 1
        if gone is None:
            out.violation("grpc-instance-of-silent-connection-not-removed/after-an-answered-probe",
                          {"service": svc, "silent_connection_instance": "10.12.0.1", "probes_answered_before_silence": probes, "frozen_for_s": round(time.time() - t_stop, 1),
                           "bound_s": bound, "listed": cur, "detection_timeout_s": DET, "response_timeout_s": 3})
        elif "10.12.0.2" not in cur:
            out.violation("instance-of-live-connection-removed/neighbour-of-silent-connection", {"service": svc, "listed": cur})
        else:
            out.shape("real/silent-connection/after-%d-answered-probes/removed" % min(probes, 2))
        out.extra["silent_connection"] = info
    except common.Inconclusive as e:
        info["status"] = "inconclusive: %s" % str(e)[:300]
        out.extra["silent_connection"] = info
    finally:
        for g in (a, b):
            if g is not None:
                try:
                    import os as _os, signal as _sg
                    _os.kill(g.p.pid, _sg.SIGCONT)
                except Exception:
                    pass
                try:
                    g.stop(abrupt=True)
                except Exception:
                    pass
        node.kill()


def use_local_findings():
    """also honour <clone>/known_findings.local.json (proposed entries that are not yet in known_findings.json)"""
    base = common.load_findings
    if getattr(base, "_with_local", False):
        return

    def merged():
        f = dict(base())
        p = os.path.join(common.VERIF, "known_findings.local.json")
        if os.path.exists(p):
            f["known"] = list(f.get("known", [])) + json.load(open(p)).get("known", [])
        return f
    merged._with_local = True
    common.load_findings = merged


def run(tier, seed):
    use_local_findings()
    common.build(need_bin=True)
    wd = common.workdir("c12")
    try:
        out = Outcome("C12", tier, seed)
        out.rule = (
            "reference model of the documented rules: key = (service, ip, port); last registration wins, an HTTP ephemeral write onto a gRPC-owned "
            "instance keeps the owner; an ephemeral instance is removed only by its owner or by an empty client id; a connection end removes exactly "
            "the ephemeral instances it owns; results = enabled instances, healthy-only unless healthy/total <= threshold (then all, marked "
            "healthy); a NEW instance carries the registered ephemeral / enabled / weight values (re-registrations may keep the old value where the "
            "update-tag heuristics say so; absent HTTP parameters mean unchanged); outcomes the rules leave open are accepted and adopted. "
            "Part 1: in-process NamingActor fed exactly the messages of the gRPC instance handler, the open-api / console instance handlers and "
            "RemoveClient (3 connection ids + HTTP on overlapping keys), read back with NamingCmd::Query and compared through QueryList, "
            "QueryListString, QueryServiceInfo, QueryInstancePage (page size 2) x healthy-only on/off x thresholds {0,0.3,0.8,1}. Part 2: real "
            "binary, 2-3 real gRPC connections (one client process each) + HTTP clients on the same keys, connections closed politely / abruptly / "
            "by SIGKILL in every order, read through /nacos/v1/ns/instance/list, GET /nacos/v1/ns/instance and gRPC ServiceQueryRequest; own "
            "ephemeral instances must be gone within 5 s, nothing else may disappear. evaluations = operations + compared query results; shapes = "
            "(operation kind, requested ephemeral flag, prior state class of the key relative to the acting connection) and (query kind, "
            "healthy-only, threshold, reached or not, unhealthy / disabled instances present) classes that were executed and compared")
        n_hist, n_ops = (40, 120) if tier == "quick" else (1250, 120)
        reports = common.run_vh_shards("c12", SHARDS, ["--histories", n_hist, "--ops", n_ops], wd, 120 if tier == "quick" else 600, seed)
        out.absorb(common.merge_reports(reports))
        st = threading.Thread(target=silent_connection_part, args=(out, wd, seed), daemon=True)
        st.start()
        real_part(out, wd, seed, 36 if tier == "quick" else 800, 6 if tier == "quick" else 8)
        st.join(90)
        out.min_nontrivial = 150
        out.assumptions = [
            "in-process part: the Raft round trip of persistent instances (update / remove echo applied to the same actor) is reproduced by the harness from "
            "the actor's own rules; findings that depend on it are also driven against the real binary in part 2",
            "the protection-threshold test is the code's (and upstream Nacos's) healthy/total <= threshold over the enabled instances; the ratio over all "
            "registered instances is accepted as well",
            "part 2 runs with naming time-outs of 600 s / 1200 s so that heartbeat expiry (C13) cannot remove HTTP instances during a scenario; all "
            "operations of one scenario are sequential, persistent writes are followed by a 0.3 s settle time for the raft round trip",
            "connection end detection bound: %.0f s" % DISCONNECT_BOUND_S,
        ]
        return out.finish()
    finally:
        shutil.rmtree(wd, ignore_errors=True)


def replay(path):
    w = json.load(open(path))
    wit = w.get("witness") or {}
    if "ops" in wit:
        common.build()
        p = subprocess.run([common.VH, "c12", "--replay", path], stdout=subprocess.PIPE, stderr=subprocess.STDOUT, text=True, timeout=300,
                           env=dict(os.environ, RUST_LOG="off"))
        print(p.stdout[-6000:])
        print("recorded signature:", w.get("signature"))
        return 1 if ("signature=%s " % w.get("signature")) in p.stdout else 0
    print(json.dumps(w, indent=1)[:6000])
    print("real-node witness: re-running the tier with the recorded seed")
    return run(w.get("tier", "quick"), int(w.get("seed", 1)))
