"""C18 — namespace-scoped console users never see or change data outside their namespaces.

Rig B (real binary, console port).  An admin session seeds 4 namespaces (default, A, B, C) with configs, services,
instances, MCP tool specs / servers and namespace records (each item carries a NAME marker and a SECRET marker of its
namespace), creates restricted console users for every privilege shape (whitelist x blacklist, roles developer/manager)
and then every user sweeps every console DATA endpoint of both API versions, addressing every namespace in every
spelling.  Oracle: allowed(ns) = !enabled || ((wl_all || ns in wl) && !(bl_all || ns in bl)).
"""
import base64
import io
import json
import random
import shutil
import time
import urllib.parse
import zipfile

import common
import procrig
from common import Outcome

V1 = "/rnacos/api/console"
V2 = "/rnacos/api/console/v2"
TAGS = ["D", "A", "B", "C"]
NSID = {"D": "", "A": "c18a", "B": "c18b", "C": "Public"}      # data-bearing namespaces; C is a real namespace of its own whose id
                                                                # equals the default namespace's name ignoring case
TWIN = {"A": "c18a2", "B": "c18b2", "C": "c18c2"}             # empty twins: targets of namespace add / remove
NM = {"D": "zzndflt", "A": "zznalfa", "B": "zznbrvo", "C": "zzncrly"}    # markers in item NAMES (listings)
SC = {"D": "qqsdflt", "A": "qqsalfa", "B": "qqsbrvo", "C": "qqscrly"}    # markers in item CONTENTS (reads)
IPN = {"D": 10, "A": 11, "B": 12, "C": 13}
DG = "DEFAULT_GROUP"
PW = "c18-Passw0rd"
PAGE = 2

WL_KINDS = {"all": None, "none": [], "A": ["A"], "AB": ["A", "B"], "D": ["D"]}
BL_KINDS = {"all": None, "none": [], "A": ["A"], "B": ["B"], "D": ["D"]}     # bl=D only in the extra shape wl=all/bl=D
ROLES = {"dev": "1", "mgr": "0"}


def nns(t):
    """namespace id as the naming / MCP modules store it"""
    return "public" if t == "D" else NSID[t]


def spellings(t):
    if t == "D":
        return [("omitted", None), ("empty", ""), ("public", "public")]
    return [("explicit", NSID[t])]


class Shape:
    def __init__(self, wl, bl, unset=False, disabled=False):
        self.wl, self.bl, self.unset, self.disabled = wl, bl, unset, disabled
        self.name = "unset" if unset else "%swl=%s/bl=%s" % ("disabled/" if disabled else "", wl, bl)

    def allowed(self, t):
        if self.unset or self.disabled:
            return True
        wl_ok = self.wl == "all" or t in WL_KINDS[self.wl]
        bl_hit = self.bl == "all" or t in BL_KINDS[self.bl]
        return wl_ok and not bl_hit

    def param(self):
        if self.unset:
            return None

        def ids(tags):
            out = []
            for t in tags or []:
                out.append(NSID[t])
                if t in TWIN:
                    out.append(TWIN[t])
            return out
        return {"whitelistIsAll": self.wl == "all", "whitelist": ids(WL_KINDS[self.wl]),
                "blacklistIsAll": self.bl == "all", "blacklist": ids(BL_KINDS[self.bl])}


DISABLED = [("none", "none"), ("A", "none"), ("AB", "B"), ("all", "all"), ("D", "A")]     # enabled=no variants (thorough)


def grid():
    return [(w, b) for w in WL_KINDS for b in BL_KINDS if b != "D"] + [("all", "D")]    # + blacklisted default namespace (normalisation)


def all_shapes():
    return [Shape(w, b) for w, b in grid()] + [Shape(None, None, unset=True)] + [Shape(w, b, disabled=True) for w, b in DISABLED]


def quick_shapes(seed):
    core = [("A", "none"), ("AB", "B"), ("all", "A"), ("D", "none"), ("all", "D"), ("none", "none")]
    rest = [x for x in grid() if x not in core]
    rnd = random.Random(seed)
    rnd.shuffle(rest)
    w, b = rnd.choice(DISABLED[:3])
    return [Shape(w, b) for w, b in core + rest[:1]] + [Shape(w, b, disabled=True)]


# ------------------------------------------------------------------------------------------------ request plumbing

def multipart(fields, fname, data):
    b = "----c18boundary7d1"
    parts = []
    for k, v in fields.items():
        parts.append(("--%s\r\nContent-Disposition: form-data; name=\"%s\"\r\n\r\n%s\r\n" % (b, k, v)).encode())
    parts.append(("--%s\r\nContent-Disposition: form-data; name=\"file\"; filename=\"%s\"\r\n"
                  "Content-Type: application/zip\r\n\r\n" % (b, fname)).encode() + data + b"\r\n")
    parts.append(("--%s--\r\n" % b).encode())
    return b"".join(parts), "multipart/form-data; boundary=" + b


def make_zip(files):
    bio = io.BytesIO()
    with zipfile.ZipFile(bio, "w", zipfile.ZIP_STORED) as z:
        for name, content in files:
            z.writestr(name, content)
    return bio.getvalue()


def body_text(resp):
    """response body as searchable text; zip archives are unpacked (names + contents) as well"""
    raw = resp.body or b""
    txt = raw.decode("utf-8", "replace")
    if raw[:2] == b"PK":
        try:
            z = zipfile.ZipFile(io.BytesIO(raw))
            for n in z.namelist():
                txt += "\n" + n + "\n" + z.read(n).decode("utf-8", "replace")
        except Exception:
            pass
    return txt


def spec_text(s):
    t = s["p"] + " " + urllib.parse.urlencode(s.get("q") or {}) + " " + json.dumps(s.get("j")) + " " + \
        urllib.parse.urlencode(s.get("f") or {}) + " " + json.dumps(s.get("h") or {})
    if s.get("mp"):
        t += " " + json.dumps(s["mp"][0]) + " " + s["mp"][2].decode("latin1")
    return t


def refused(resp):
    if resp.status != 200:
        return True
    j = resp.json()
    if isinstance(j, dict):
        if j.get("success") is False:
            return True
        if "success" not in j and "code" in j and "data" in j and j["code"] not in (200, None):
            return True     # v1 ConsoleResult {code:500,message:NO_PERMISSION}
    return False


class Ctx:
    def __init__(self, sh, t, sp, nsv, n):
        self.sh, self.t, self.sp, self.nsv, self.n = sh, t, sp, nsv, n

    def ns(self, key):
        return {} if self.nsv is None else {key: self.nsv}

    @property
    def nm(self):
        return NM[self.t]

    @property
    def sc(self):
        return SC[self.t]

    @property
    def ip(self):
        return "10.%d.0." % IPN[self.t]


# ------------------------------------------------------------------------------------------------ endpoint table
# Every op: id "<ver>/<family>/<kind>", fam = fingerprint family for writes, leak = symptom name for marker hits,
# expect = which marker of the target namespace a working (allowed) read must contain, build(ctx) -> request spec.

def R(m, p, q=None, j=None, f=None, h=None, mp=None):
    return {"m": m, "p": p, "q": q, "j": j, "f": f, "h": h, "mp": mp}


def pg(c, extra=None):
    d = {"pageNo": c.page, "pageSize": PAGE}
    d.update(extra or {})
    return d


def tool_fn(name, desc):
    return {"name": name, "description": desc, "inputSchema": {"type": "object", "properties": {"x": {"type": "string", "description": desc}}}}


def tool_yaml(group, name, desc):
    return "group: %s\nname: %s\ndescription: %s\ninputSchema:\n  type: object\n  properties:\n    x:\n      type: string\n      description: %s\n" % (group, name, desc, desc)


def server_yaml(key, name, desc, auth, tool, group):
    return ("uniqueKey: '%s'\nname: %s\ndescription: %s\nauthKeys:\n- %s\ntools:\n- toolName: %s\n  toolGroup: %s\n  routeRule:\n"
            "    protocol: http\n    url: /\n    method: GET\n    additionHeaders: {}\n    convertType: NONE\n    serviceGroup: ''\n"
            "    serviceName: ''\n") % (key, name, desc, auth, tool, group)


def build_ops():
    ops = []

    def op(id_, build, kind="read", expect=None, leak="read-leak", fam=None, paged=False, omitted_all=False, tags=None, nons=False, byid=False):
        ver, family, k = id_.split("/")
        ops.append({"id": id_, "ver": ver, "family": family, "k": k, "build": build, "kind": kind, "expect": expect, "leak": leak,
                    "fam": fam, "paged": paged, "omitted_all": omitted_all, "tags": tags or TAGS, "nons": nons, "byid": byid})

    cs = V1 + "/cs/configs"
    # ---- v1 config
    op("v1/config/get", lambda c: R("GET", cs, dict({"dataId": "cfg1-" + c.nm, "group": DG}, **c.ns("tenant"))), expect="sc")
    op("v1/config/search", lambda c: R("GET", cs, pg(c, dict({"search": "accurate"}, **c.ns("tenant")))), expect="nm", leak="list-leak", paged=True)
    op("v1/config/search-blur", lambda c: R("GET", cs, pg(c, dict({"search": "blur", "dataId": "", "group": ""}, **c.ns("tenant")))), expect="nm", leak="list-leak", paged=True)
    op("v1/config/list", lambda c: R("GET", V1 + "/configs", pg(c, c.ns("tenant"))), expect="nm", leak="list-leak", paged=True)
    op("v1/config/history", lambda c: R("GET", V1 + "/config/history", pg(c, dict({"dataId": "cfg1-" + c.nm, "group": DG}, **c.ns("tenant")))), expect="sc", paged=True)
    op("v1/config/export", lambda c: R("GET", V1 + "/config/download", c.ns("tenant")), expect="sc", leak="list-leak")
    op("v1/config/export-keys", lambda c: R("POST", V1 + "/config/download", j=[dict({"dataId": "cfg1-" + c.nm, "group": DG}, **c.ns("tenant"))]), expect="sc")
    op("v1/config/add", lambda c: R("POST", cs, f=dict({"dataId": "new%d-%s" % (c.n, c.nm), "group": DG, "content": "written by restricted user"}, **c.ns("tenant"))), kind="write", fam="config")
    op("v1/config/update", lambda c: R("PUT", cs, f=dict({"dataId": "cfg1-" + c.nm, "group": DG, "content": "overwritten %d" % c.n}, **c.ns("tenant"))), kind="write", fam="config")
    op("v1/config/remove", lambda c: R("DELETE", cs, dict({"dataId": "cfg2-" + c.nm, "group": DG}, **c.ns("tenant"))), kind="write", fam="config")

    def cfg_import(c, path):
        z = make_zip([(DG + "/imp%d-%s" % (c.n, c.nm), "imported by restricted user")])
        return R("POST", path, h=c.ns("tenant"), mp=({}, "imp.zip", z))
    op("v1/config/import", lambda c: cfg_import(c, V1 + "/config/import"), kind="write", fam="config")
    # ---- v1 naming
    op("v1/service/get", lambda c: R("GET", V1 + "/ns/service", dict({"serviceName": "svc1-" + c.nm, "groupName": DG}, **c.ns("namespaceId"))), expect="sc")
    op("v1/service/list", lambda c: R("GET", V1 + "/ns/services", pg(c, c.ns("namespaceId"))), expect="nm", leak="list-leak", paged=True, omitted_all=True)
    op("v1/service/add", lambda c: R("POST", V1 + "/ns/service", f=dict({"serviceName": "new%d-%s" % (c.n, c.nm), "groupName": DG, "metadata": '{"by":"restricted"}'}, **c.ns("namespaceId"))), kind="write", fam="naming")
    op("v1/service/update", lambda c: R("PUT", V1 + "/ns/service", f=dict({"serviceName": "svc1-" + c.nm, "groupName": DG, "metadata": '{"by":"restricted%d"}' % c.n, "protectThreshold": "0.9"}, **c.ns("namespaceId"))), kind="write", fam="naming")
    op("v1/service/remove", lambda c: R("DELETE", V1 + "/ns/service", dict({"serviceName": "svc3-" + c.nm, "groupName": DG}, **c.ns("namespaceId"))), kind="write", fam="svc3")
    op("v1/instance/get", lambda c: R("GET", V1 + "/ns/instance", dict({"serviceName": "svc1-" + c.nm, "groupName": DG, "ip": c.ip + "1", "port": 8001}, **c.ns("namespaceId"))), expect="sc")
    op("v1/instance/list", lambda c: R("GET", V1 + "/instances", dict({"serviceName": "svc1-" + c.nm, "groupName": DG}, **c.ns("namespaceId"))), expect="sc", leak="list-leak")
    op("v1/instance/add", lambda c: R("POST", V1 + "/ns/instance", f=dict({"serviceName": "svc1-" + c.nm, "groupName": DG, "ip": c.ip + "99", "port": 9000 + c.n % 1000, "ephemeral": "false", "metadata": '{"by":"restricted"}'}, **c.ns("namespaceId"))), kind="write", fam="naming")
    op("v1/instance/update", lambda c: R("PUT", V1 + "/ns/instance", f=dict({"serviceName": "svc1-" + c.nm, "groupName": DG, "ip": c.ip + "1", "port": 8001, "ephemeral": "false", "weight": "3", "metadata": '{"by":"restricted%d"}' % c.n}, **c.ns("namespaceId"))), kind="write", fam="naming")
    op("v1/instance/remove", lambda c: R("DELETE", V1 + "/ns/instance", dict({"serviceName": "svc1-" + c.nm, "groupName": DG, "ip": c.ip + "2", "port": 8002, "ephemeral": "false"}, **c.ns("namespaceId"))), kind="write", fam="naming")
    # ---- v1 namespaces
    op("v1/namespace/list", lambda c: R("GET", V1 + "/namespaces"), expect="nm", leak="list-leak", nons=True)
    op("v1/namespace/add", lambda c: R("POST", V1 + "/namespaces", f={"namespaceId": TWIN[c.t], "namespaceName": "readded %d" % c.n}), kind="write", fam="ns", tags=["A", "B", "C"])
    op("v1/namespace/update", lambda c: R("PUT", V1 + "/namespaces", f={"namespaceId": NSID[c.t], "namespaceName": "renamed %d" % c.n}), kind="write", fam="ns", tags=["A", "B", "C"])
    op("v1/namespace/remove", lambda c: R("DELETE", V1 + "/namespaces", f={"namespaceId": TWIN[c.t]}), kind="write", fam="ns", tags=["A", "B", "C"])
    # ---- v2 config
    op("v2/config/get", lambda c: R("GET", V2 + "/config/info", dict({"dataId": "cfg1-" + c.nm, "group": DG}, **c.ns("tenant"))), expect="sc")
    op("v2/config/list", lambda c: R("GET", V2 + "/config/list", pg(c, c.ns("tenant"))), expect="nm", leak="list-leak", paged=True)
    op("v2/config/history", lambda c: R("GET", V2 + "/config/history", pg(c, dict({"dataId": "cfg1-" + c.nm, "group": DG}, **c.ns("tenant")))), expect="sc", paged=True)
    op("v2/config/export", lambda c: R("GET", V2 + "/config/download", c.ns("tenant")), expect="sc", leak="list-leak")
    op("v2/config/add", lambda c: R("POST", V2 + "/config/add", j=dict({"dataId": "new%d-%s" % (c.n, c.nm), "group": DG, "content": "written by restricted user"}, **c.ns("tenant"))), kind="write", fam="config")
    op("v2/config/update", lambda c: R("POST", V2 + "/config/update", j=dict({"dataId": "cfg1-" + c.nm, "group": DG, "content": "overwritten %d" % c.n}, **c.ns("tenant"))), kind="write", fam="config")
    op("v2/config/remove", lambda c: R("POST", V2 + "/config/remove", j=dict({"dataId": "cfg2-" + c.nm, "group": DG}, **c.ns("tenant"))), kind="write", fam="config")
    op("v2/config/import", lambda c: cfg_import(c, V2 + "/config/import"), kind="write", fam="config")
    # ---- v2 naming
    op("v2/service/list", lambda c: R("GET", V2 + "/service/list", pg(c, c.ns("namespaceId"))), expect="nm", leak="list-leak", paged=True, omitted_all=True)
    op("v2/service/add", lambda c: R("POST", V2 + "/service/add", j=dict({"serviceName": "new%d-%s" % (c.n, c.nm), "groupName": DG, "metadata": '{"by":"restricted"}'}, **c.ns("namespaceId"))), kind="write", fam="naming")
    op("v2/service/update", lambda c: R("POST", V2 + "/service/update", j=dict({"serviceName": "svc1-" + c.nm, "groupName": DG, "metadata": '{"by":"restricted%d"}' % c.n, "protectThreshold": 0.9}, **c.ns("namespaceId"))), kind="write", fam="naming")
    op("v2/service/remove", lambda c: R("POST", V2 + "/service/remove", j=dict({"serviceName": "svc3-" + c.nm, "groupName": DG}, **c.ns("namespaceId"))), kind="write", fam="svc3")
    op("v2/instance/list", lambda c: R("GET", V2 + "/instance/list", dict({"serviceName": "svc1-" + c.nm, "groupName": DG}, **c.ns("namespaceId"))), expect="sc", leak="list-leak")
    op("v2/instance/get", lambda c: R("GET", V2 + "/instance/info", dict({"serviceName": "svc1-" + c.nm, "groupName": DG, "ip": c.ip + "1", "port": 8001}, **c.ns("namespaceId"))), expect="sc")
    op("v2/instance/add", lambda c: R("POST", V2 + "/instance/add", j=dict({"serviceName": "svc1-" + c.nm, "groupName": DG, "ip": c.ip + "99", "port": 9000 + c.n % 1000, "ephemeral": "false", "metadata": '{"by":"restricted"}'}, **c.ns("namespaceId"))), kind="write", fam="naming")
    op("v2/instance/update", lambda c: R("POST", V2 + "/instance/update", j=dict({"serviceName": "svc1-" + c.nm, "groupName": DG, "ip": c.ip + "1", "port": 8001, "ephemeral": "false", "weight": 3.0, "metadata": '{"by":"restricted%d"}' % c.n}, **c.ns("namespaceId"))), kind="write", fam="naming")
    op("v2/instance/remove", lambda c: R("POST", V2 + "/instance/remove", j=dict({"serviceName": "svc1-" + c.nm, "groupName": DG, "ip": c.ip + "2", "port": 8002, "ephemeral": "false"}, **c.ns("namespaceId"))), kind="write", fam="naming")
    # ---- v2 namespaces
    op("v2/namespace/list", lambda c: R("GET", V2 + "/namespaces/list"), expect="nm", leak="list-leak", nons=True)
    op("v2/namespace/add", lambda c: R("POST", V2 + "/namespaces/add", j={"namespaceId": TWIN[c.t], "namespaceName": "readded %d" % c.n}), kind="write", fam="ns", tags=["A", "B", "C"])
    op("v2/namespace/update", lambda c: R("POST", V2 + "/namespaces/update", j={"namespaceId": NSID[c.t], "namespaceName": "renamed %d" % c.n}), kind="write", fam="ns", tags=["A", "B", "C"])
    op("v2/namespace/remove", lambda c: R("POST", V2 + "/namespaces/remove", j={"namespaceId": TWIN[c.t]}), kind="write", fam="ns", tags=["A", "B", "C"])
    # ---- v2 MCP tool specs
    ts = V2 + "/mcp/toolspec"
    op("v2/mcp-toolspec/list", lambda c: R("GET", ts + "/list", pg(c, c.ns("namespaceId"))), expect="nm", leak="list-leak", paged=True)
    op("v2/mcp-toolspec/get", lambda c: R("GET", ts + "/info", dict({"group": "grp-" + c.nm, "toolName": "tool1-" + c.nm}, **c.ns("namespace"))), expect="sc")
    op("v2/mcp-toolspec/export", lambda c: R("GET", ts + "/download", c.ns("namespaceId")), expect="sc", leak="list-leak")
    op("v2/mcp-toolspec/add", lambda c: R("POST", ts + "/add", j=dict({"group": "grp-" + c.nm, "toolName": "new%d-%s" % (c.n, c.nm), "function": tool_fn("new%d-%s" % (c.n, c.nm), "by restricted")}, **c.ns("namespace"))), kind="write", fam="mcp")
    op("v2/mcp-toolspec/update", lambda c: R("POST", ts + "/update", j=dict({"group": "grp-" + c.nm, "toolName": "tool2-" + c.nm, "function": tool_fn("tool2-" + c.nm, "overwritten %d" % c.n)}, **c.ns("namespace"))), kind="write", fam="mcp")
    op("v2/mcp-toolspec/batch-update", lambda c: R("POST", ts + "/batch_update", j=[dict({"group": "grp-" + c.nm, "toolName": "tool2-" + c.nm, "function": tool_fn("tool2-" + c.nm, "batch overwritten %d" % c.n)}, **c.ns("namespace"))]), kind="write", fam="mcp")
    op("v2/mcp-toolspec/remove", lambda c: R("POST", ts + "/remove", j=dict({"group": "grp-" + c.nm, "toolName": "tool3-" + c.nm}, **c.ns("namespace"))), kind="write", fam="mcp")
    op("v2/mcp-toolspec/import", lambda c: R("POST", ts + "/import", mp=(c.ns("namespace"), "ts.zip", make_zip([("imp.yaml", tool_yaml("grp-" + c.nm, "imp%d-%s" % (c.n, c.nm), "imported by restricted"))]))), kind="write", fam="mcp")
    # ---- v2 MCP servers (get / update / remove / history / publish address the item by id)
    sv = V2 + "/mcp/server"
    op("v2/mcp-server/list", lambda c: R("GET", sv + "/list", pg(c, c.ns("namespaceId"))), expect="nm", leak="list-leak", paged=True)
    op("v2/mcp-server/get", lambda c: R("GET", sv + "/info", {"id": c.sh.srv_id(c.t, "srv1-" + c.nm)}), expect="sc", byid=True)
    op("v2/mcp-server/history", lambda c: R("GET", sv + "/history", {"id": c.sh.srv_id(c.t, "srv1-" + c.nm), "pageNo": 1, "pageSize": 20}), expect="sc", byid=True)
    op("v2/mcp-server/export", lambda c: R("GET", sv + "/download", c.ns("namespaceId")), expect="sc", leak="list-leak")
    op("v2/mcp-server/add", lambda c: R("POST", sv + "/add", j=dict({"name": "new%d-%s" % (c.n, c.nm), "description": "by restricted", "authKeys": ["k%d" % c.n], "tools": []}, **c.ns("namespace"))), kind="write", fam="mcp")
    op("v2/mcp-server/update", lambda c: R("POST", sv + "/update", j=dict({"id": c.sh.srv_id(c.t, "srv1-" + c.nm), "description": "overwritten %d" % c.n}, **c.ns("namespace"))), kind="write", fam="mcp")
    op("v2/mcp-server/remove", lambda c: R("POST", sv + "/remove", j={"id": c.sh.srv_id(c.t, "srv2-" + c.nm)}), kind="write", fam="mcp", byid=True)
    op("v2/mcp-server/publish", lambda c: R("POST", sv + "/publish", j={"id": c.sh.srv_id(c.t, "srv1-" + c.nm)}), kind="write", fam="mcp", byid=True)
    op("v2/mcp-server/publish-history", lambda c: R("POST", sv + "/publish/history", j={"id": c.sh.srv_id(c.t, "srv1-" + c.nm), "historyValueId": c.sh.srv_hist(c.t, "srv1-" + c.nm)}), kind="write", fam="mcp", byid=True)
    op("v2/mcp-server/import", lambda c: R("POST", sv + "/import", mp=(c.ns("namespace"), "sv.zip", make_zip([("imp.yaml", server_yaml("impkey%d-%s" % (c.n, c.nm), "imp%d-%s" % (c.n, c.nm), "imported by restricted", "k%d" % c.n, "tool1-" + c.nm, "grp-" + c.nm))]))), kind="write", fam="mcp")
    # ---- whole-instance export (manager role only): no namespace addressing at all
    op("v1/transfer/export", lambda c: R("GET", V1 + "/transfer/export"), expect="nm", leak="list-leak", nons=True)
    return ops


# ------------------------------------------------------------------------------------------------ one node + its users

class Shard:
    def __init__(self, wd, idx, users, tier, seed, ops, ports=None, only=None):
        self.wd, self.idx, self.users, self.tier, self.seed, self.ops = wd, idx, users, tier, seed, ops
        self.ports, self.only = ports, only
        self.evals = 0
        self.cases = []          # evaluated cases (dicts)
        self.srv = {}            # tag -> name -> {"id":, "hist":[...]}
        self.base = {}           # family -> tag -> fingerprint
        self.counter = 0
        self.error = None
        self.notes = []
        self.node = None
        self.admin = None
        self.t_seed = self.t_sweep = 0.0
        self.prof = {}

    # ---- plumbing
    def send(self, token, s, timeout=15):
        h = dict(s.get("h") or {})
        body = None
        if s.get("mp"):
            body, ct = multipart(*s["mp"])
            h["Content-Type"] = ct
        elif s.get("j") is not None:
            body = s["j"]
        self.evals += 1
        t0 = time.time()
        try:
            return self.node.console(s["m"], s["p"], token=token, params=s.get("q") or None, form=s.get("f"), body=body, headers=h, timeout=timeout)
        finally:
            k = s["m"] + " " + s["p"]
            e = self.prof.setdefault(k, [0, 0.0])
            e[0] += 1
            e[1] += time.time() - t0

    def adm(self, m, p, q=None, j=None, f=None, h=None, mp=None, must=True):
        r = self.send(self.admin, R(m, p, q, j, f, h, mp))
        if must and refused(r):
            raise common.Inconclusive("admin request refused: %s %s %s -> %s %s" % (m, p, json.dumps(q or j or f)[:200], r.status, r.body[:200]))
        return r

    def panic_lines(self):
        try:
            lines = open(self.node.log_path, "rb").read().decode("utf-8", "replace").splitlines()
        except OSError:
            return ""
        idx = [i for i, l in enumerate(lines) if "panicked" in l or "ERROR" in l][:3]
        return " | ".join(" ".join(lines[i:i + 3]) for i in idx)[:900] or self.node.tail_log(500)

    def srv_id(self, t, name):
        return (self.srv.get(t, {}).get(name) or {}).get("id", 999999)

    def srv_hist(self, t, name):
        h = (self.srv.get(t, {}).get(name) or {}).get("hist") or [999999]
        return h[0]

    # ---- seeding (admin)
    def seed_config(self, t, only=None):
        nm, sc = NM[t], SC[t]
        for data_id, group, n in (("cfg1-" + nm, DG, 1), ("cfg2-" + nm, DG, 2), ("cfg3-" + nm, "grp-" + nm, 3)):
            if only is not None and (data_id, group) not in only:
                continue
            for v in ("draft", "final"):
                self.adm("POST", V2 + "/config/add", j={"dataId": data_id, "group": group, "tenant": NSID[t], "content": "k=%s-c%d-%s" % (sc, n, v), "desc": "seed"})

    def seed_service(self, t, name):
        self.adm("POST", V2 + "/service/update", j={"serviceName": name, "groupName": DG, "namespaceId": nns(t), "metadata": json.dumps({"owner": SC[t]}), "protectThreshold": 0.5})

    def seed_instance(self, t, svc, last, port, eph):
        self.adm("POST", V2 + "/instance/add", j={"serviceName": svc, "groupName": DG, "namespaceId": nns(t), "ip": "10.%d.0.%d" % (IPN[t], last), "port": port,
                                                     "ephemeral": "true" if eph else "false", "weight": 1.0, "enabled": True, "metadata": json.dumps({"sec": SC[t]})})

    def svc3_present(self, t):
        r = self.adm("GET", V2 + "/service/list", {"namespaceId": nns(t), "pageNo": 1, "pageSize": 1000, "serviceNameParam": "svc3-" + NM[t]})
        return any(x["name"] == "svc3-" + NM[t] for x in ((r.json() or {}).get("data") or {}).get("list") or [])

    def seed_naming(self, t):
        nm = NM[t]
        for s in ("svc1-", "svc2-", "svc3-"):
            self.seed_service(t, s + nm)
        self.seed_instance(t, "svc1-" + nm, 1, 8001, False)
        self.seed_instance(t, "svc1-" + nm, 2, 8002, False)
        self.seed_instance(t, "svc2-" + nm, 3, 8003, True)

    def seed_tool(self, t, name):
        self.adm("POST", V2 + "/mcp/toolspec/add", j={"namespace": nns(t), "group": "grp-" + NM[t], "toolName": name, "function": tool_fn(name, SC[t] + " tool")})

    def seed_server(self, t, name):
        nm, sc = NM[t], SC[t]
        tools = [{"toolName": "tool1-" + nm, "namespace": nns(t), "group": "grp-" + nm}]
        r = self.adm("POST", V2 + "/mcp/server/add", j={"namespace": nns(t), "name": name, "description": sc + " srv v1", "authKeys": ["key-" + sc], "tools": tools})
        sid = r.json()["data"]
        self.adm("POST", V2 + "/mcp/server/update", j={"id": sid, "namespace": nns(t), "description": sc + " srv v2", "tools": tools})
        self.adm("POST", V2 + "/mcp/server/publish", j={"id": sid})

    def seed_all(self):
        for t in ("A", "B", "C"):
            self.adm("POST", V2 + "/namespaces/add", j={"namespaceId": NSID[t], "namespaceName": "nsname-%s-%s" % (NM[t], SC[t])})
            self.adm("POST", V2 + "/namespaces/add", j={"namespaceId": TWIN[t], "namespaceName": "twin-%s-%s" % (NM[t], SC[t])})
        for t in TAGS:
            self.seed_config(t)
            self.seed_naming(t)
            for i in (1, 2, 3):
                self.seed_tool(t, "tool%d-%s" % (i, NM[t]))
            for i in (1, 2):
                self.seed_server(t, "srv%d-%s" % (i, NM[t]))

    # ---- admin-read fingerprints, per family and namespace tag
    def fp_config(self, t):
        r = self.adm("GET", V1 + "/cs/configs", {"search": "accurate", "tenant": NSID[t], "pageNo": 1, "pageSize": 1000})
        return {"%s|%s" % (i["dataId"], i["group"]): i.get("md5") for i in (r.json() or {}).get("pageItems") or []}

    def fp_naming(self, t):
        r = self.adm("GET", V2 + "/service/list", {"namespaceId": nns(t), "pageNo": 1, "pageSize": 1000})
        out = {}
        for s in ((r.json() or {}).get("data") or {}).get("list") or []:
            key = "%s|%s" % (s["name"], s["groupName"])
            if s["name"].startswith("svc3-") and not s.get("ipCount"):
                continue        # empty services are dropped by the server after 30 s (hard-coded): volatile, handled by the svc3 probe
            inst = {}
            if s.get("ipCount"):
                ri = self.adm("GET", V2 + "/instance/list", {"namespaceId": nns(t), "serviceName": s["name"], "groupName": s["groupName"]})
                for i in ((ri.json() or {}).get("data") or {}).get("list") or []:
                    inst["%s:%s" % (i["ip"], i["port"])] = [i.get("weight"), i.get("enabled"), i.get("ephemeral"), json.dumps(i.get("metadata"), sort_keys=True)]
            md = s.get("metadata") or "{}"
            try:
                md = json.dumps(json.loads(md), sort_keys=True)
            except Exception:
                pass
            out[key] = {"md": md, "pt": s.get("protectThreshold"), "inst": inst}
        return out

    def fp_mcp(self, t):
        out = {}
        r = self.adm("GET", V2 + "/mcp/toolspec/list", {"namespaceId": nns(t), "pageNo": 1, "pageSize": 1000})
        for s in ((r.json() or {}).get("data") or {}).get("list") or []:
            out["tool|%s|%s" % (s["group"], s["toolName"])] = json.dumps(s.get("function"), sort_keys=True)
        r = self.adm("GET", V2 + "/mcp/server/list", {"namespaceId": nns(t), "pageNo": 1, "pageSize": 1000})
        ids = {}
        for s in ((r.json() or {}).get("data") or {}).get("list") or []:
            def val(v):
                v = v or {}
                return [v.get("description"), sorted(x.get("toolName") for x in v.get("tools") or [])]
            hist = [h["id"] for h in s.get("histories") or []]
            out["server|%s" % s["name"]] = [s.get("namespace"), s.get("description"), sorted(s.get("authKeys") or []), val(s.get("currentValue")),
                                           val(s.get("releaseValue")), len(hist)]
            ids[s["name"]] = {"id": s["id"], "hist": hist, "key": s.get("uniqueKey")}
        self.srv[t] = ids
        return out

    def fp_ns(self, t=None):
        r = self.adm("GET", V2 + "/namespaces/list")
        return {i["namespaceId"]: i["namespaceName"] for i in (r.json() or {}).get("data") or []}

    def fp_family(self, fam, tags=None):
        if fam == "ns":
            allns = self.fp_ns()
            out = {}
            for t in ("A", "B", "C"):
                out[t] = {k: allns.get(k) for k in (NSID[t], TWIN[t])}
            known = {NSID[t] for t in TAGS} | set(TWIN.values())
            out["D"] = {k: v for k, v in allns.items() if k not in known or k == ""}
            return out
        f = {"config": self.fp_config, "naming": self.fp_naming, "mcp": self.fp_mcp}[fam]
        return {t: f(t) for t in (tags or TAGS)}

    def changed_tags(self, fam, tags=None):
        """admin re-reads the family (all namespaces, or the given ones) and compares with the seeded state"""
        cur = self.fp_family(fam, tags)
        return [t for t in TAGS if t in cur and cur[t] != self.base[fam][t]], cur

    # ---- repair: bring the family back to the seeded state (admin), then re-verify
    def repair(self, fam, tags, cur):
        for t in tags:
            base, now = self.base[fam][t], cur[t]
            if fam == "config":
                for k in now:
                    if k not in base:
                        d, g = k.split("|")
                        self.adm("POST", V2 + "/config/remove", j={"dataId": d, "group": g, "tenant": NSID[t]})
                todo = {tuple(k.split("|")) for k in base if now.get(k) != base[k]}
                if todo:
                    self.seed_config(t, only=todo)
            elif fam == "naming":
                for k, s in now.items():
                    name, g = k.split("|")
                    binst = (base.get(k) or {}).get("inst") or {}
                    for ik, iv in s["inst"].items():
                        if ik not in binst:
                            ip, port = ik.split(":")
                            self.adm("POST", V2 + "/instance/remove", j={"serviceName": name, "groupName": g, "namespaceId": nns(t), "ip": ip, "port": int(port), "ephemeral": "true" if iv[2] else "false"})
                    if k not in base:
                        self.adm("POST", V2 + "/service/remove", j={"serviceName": name, "groupName": g, "namespaceId": nns(t)})
                for k, s in base.items():
                    name, g = k.split("|")
                    n = now.get(k)
                    if n is None or n["md"] != s["md"] or n["pt"] != s["pt"]:
                        self.seed_service(t, name)
                    for ik, iv in s["inst"].items():
                        if n is None or n["inst"].get(ik) != iv:
                            ip, port = ik.split(":")
                            # twice: a (re)added instance first takes the remembered console metadata, the second call updates it
                            self.seed_instance(t, name, int(ip.split(".")[-1]), int(port), iv[2])
                            self.seed_instance(t, name, int(ip.split(".")[-1]), int(port), iv[2])
            elif fam == "mcp":
                for k in now:
                    if k.startswith("server|") and now[k] != base.get(k):
                        self.adm("POST", V2 + "/mcp/server/remove", j={"id": self.srv[t][k.split("|", 1)[1]]["id"]})
                for k in now:
                    if k.startswith("tool|") and k not in base:
                        _, g, n = k.split("|")
                        self.adm("POST", V2 + "/mcp/toolspec/remove", j={"namespace": nns(t), "group": g, "toolName": n})
                for k in base:
                    if k.startswith("tool|") and now.get(k) != base[k]:
                        self.seed_tool(t, k.split("|")[2])
                for k in base:
                    if k.startswith("server|") and now.get(k) != base[k]:
                        self.seed_server(t, k.split("|", 1)[1])
            elif fam == "ns":
                for k, v in base.items():
                    if now.get(k) != v and k != "":
                        self.adm("POST", V2 + "/namespaces/add", j={"namespaceId": k, "namespaceName": v})
                for k in now:
                    if k not in base:
                        self.adm("POST", V2 + "/namespaces/remove", j={"namespaceId": k}, must=False)
        still, cur2 = self.changed_tags(fam, tags)
        if still:
            raise common.Inconclusive("repair of family %s failed for %s: base=%s now=%s" % (fam, still, json.dumps(self.base[fam][still[0]])[:600], json.dumps(cur2[still[0]])[:600]))

    # ---- users
    def create_users(self):
        for n, u in enumerate(self.users):
            body = {"username": u["name"], "nickname": u["name"], "password": PW, "roles": ROLES[u["role"]]}
            p = u["shape"].param()
            u["via_update"] = False
            if p is not None and (n % 3 == 1 or (u["shape"].wl == "none" and u["role"] == "dev")):
                # every third user reaches its privilege through an admin UPDATE of a wider one (whitelist of every seeded
                # namespace): the restriction must be what the last acknowledged update says, not what the user had before.
                # users with an EMPTY whitelist always come this way once: emptying a list is an update like any other
                wide = {"whitelistIsAll": False, "whitelist": sorted(set(NSID.values()) | set(TWIN.values())), "blacklistIsAll": False, "blacklist": []}
                body["namespacePrivilegeParam"] = wide
                self.adm("POST", V2 + "/user/add", j=body)
                self.adm("POST", V2 + "/user/update", j={"username": u["name"], "namespacePrivilegeParam": p})
                u["via_update"] = True
                continue
            if p is not None:
                body["namespacePrivilegeParam"] = p
            self.adm("POST", V2 + "/user/add", j=body)
            if p is not None and p.get("blacklist") and n % 2 == 0:
                # a later edit by the admin that says nothing about the blacklist (new nickname, the whitelist part as it is): what an
                # update does not mention stays as it was
                part = {k: p[k] for k in ("whitelistIsAll", "whitelist") if k in p}
                self.adm("POST", V2 + "/user/update", j={"username": u["name"], "nickname": "edited " + u["name"], "namespacePrivilegeParam": part})
                u["edited_without_blacklist"] = True
        r = self.adm("GET", V2 + "/user/list", {"pageNo": 1, "pageSize": 1000})
        stored = {x["username"]: x for x in r.json()["data"]["list"]}
        for u in self.users:
            s = stored.get(u["name"])
            if not s:
                raise common.Inconclusive("user %s was not created" % u["name"])
            want = u["shape"].param() or {"whitelistIsAll": True, "whitelist": [], "blacklistIsAll": False, "blacklist": []}
            got = s.get("namespacePrivilege") or {}
            # a flag the server leaves out of its answer counts as false (the judged behaviour is the sweep's, not this echo)
            ok = got.get("enabled") is True and bool(got.get("whitelistIsAll")) == want["whitelistIsAll"] and bool(got.get("blacklistIsAll")) == want["blacklistIsAll"] \
                and sorted(got.get("whitelist") or []) == sorted(want["whitelist"]) and sorted(got.get("blacklist") or []) == sorted(want["blacklist"]) \
                and s.get("roles") == [ROLES[u["role"]]]
            if not ok and (u.get("via_update") or u.get("edited_without_blacklist")):
                # not an infrastructure problem: the acknowledged update did not take effect; the sweep below judges the user
                # against the privilege the admin asked for
                self.update_not_stored = getattr(self, "update_not_stored", []) + [{"user": u["name"], "requested": want, "stored": got}]
                continue
            if not ok:
                raise common.Inconclusive("stored privilege of %s differs from the requested one: %s" % (u["name"], json.dumps(got)))
        self.disable_privileges([u["name"] for u in self.users if u["shape"].disabled])
        for u in self.users:
            tok, r = self.node.console_login(u["name"], PW)
            self.evals += 1
            if not tok:
                raise common.Inconclusive("login of %s failed: %s" % (u["name"], r.body[:200]))
            u["token"] = tok

    def disable_privileges(self, names):
        """enabled=no cannot be set through the user API (add/update force the ENABLE bit).  The only console route to such a
        record is a whole-instance transfer file: export, clear the ENABLE bit of the stored flags (one byte, same length) of the
        chosen users, import the users section again, and verify on a second export that the bit is now clear."""
        if not names:
            return
        blob = self.adm("GET", V1 + "/transfer/export").body
        patched = bytearray(blob)
        for n in names:
            i = self.flag_offset(patched, n)
            if i is None or patched[i] & 1 == 0:
                raise common.Inconclusive("transfer file: flags of user %s not found" % n)
            patched[i] &= 0xFE
        body, ct = multipart({}, "users.data", bytes(patched))
        r = self.send(self.admin, {"m": "POST", "p": V1 + "/transfer/import", "h": {"import-config": "0", "import-cache": "0", "import-mcp": "0", "import-naming": "0", "import-user": "1"},
                                   "mp": ({}, "users.data", bytes(patched))})
        if r.status != 200:
            raise common.Inconclusive("transfer import refused: %s %s" % (r.status, r.body[:200]))
        t0 = time.time()
        while True:
            now = bytearray(self.adm("GET", V1 + "/transfer/export").body)
            offs = [self.flag_offset(now, n) for n in names]
            if all(o is not None and now[o] & 1 == 0 for o in offs):
                return
            if time.time() - t0 > 20:
                raise common.Inconclusive("users with a disabled privilege group did not appear after the transfer import")
            time.sleep(0.3)

    @staticmethod
    def flag_offset(blob, name):
        nb = name.encode()
        pat = b"\x0a" + bytes([len(nb)]) + nb + b"\x1a" + bytes([len(nb)]) + nb       # UserDo: username (1), nickname (3)
        i = blob.find(pat)
        if i < 0:
            return None
        j = blob.find(b"J<", i)         # password_hash (9), 60 bytes of bcrypt
        if j < 0 or j - i > 200 or blob[j + 62] != 0x50:    # namespace_privilege_flags (10)
            return None
        return j + 63

    # ---- the sweep
    def run(self):
        try:
            t0 = time.time()
            env = {"RNACOS_NAMING_HEALTH_TIMEOUT_SECOND": "86400", "RNACOS_NAMING_INSTANCE_TIMEOUT_SECOND": "86400",
                   "RNACOS_CONSOLE_LOGIN_ONE_HOUR_LIMIT": "1000000", "RNACOS_CONSOLE_LOGIN_TIMEOUT": "86400"}
            self.node = procrig.Node(self.wd, 1, env=env, name="c18n%d" % self.idx)
            if self.ports:      # allocated together in the parent, so that concurrently starting shards cannot pick the same port
                self.node.http_port, self.node.grpc_port, self.node.console_port = self.ports
            self.node.start(timeout=60)
            self.admin, r = self.node.console_login("admin", "admin", wait=20)
            if not self.admin:
                raise common.Inconclusive("admin login failed: %s; node log: %s" % (r.body[:200], self.panic_lines()))
            self.create_users()     # before any data exists: the transfer file used for the enabled=no users then carries users only
            self.seed_all()
            for fam in ("config", "naming", "mcp", "ns"):
                self.base[fam] = self.fp_family(fam)
            self.check_seed()
            self.t_seed = time.time() - t0
            t0 = time.time()
            for u in self.users:
                self.sweep_user(u)
                self.sweep_pairs(u)
                for fam in ("config", "naming", "mcp", "ns"):
                    ch, cur = self.changed_tags(fam)
                    if ch:
                        self.cases.append({"user": u["name"], "shape": u["shape"].name, "role": u["role"], "op": "block/%s" % fam, "unattributed": ch,
                                           "diff": diff_text(self.base[fam][ch[0]], cur[ch[0]])})
                        self.repair(fam, ch, cur)
            self.t_sweep = time.time() - t0
            self.resweep_after_restart()
        except common.Inconclusive as e:
            self.error = "shard %d: %s" % (self.idx, e)
        except Exception as e:  # harness failure -> inconclusive, never a violation
            import traceback
            self.error = "shard %d: harness exception %r\n%s\nnode log: %s" % (self.idx, e, traceback.format_exc()[-1500:], self.node.tail_log(600) if self.node else "")
        finally:
            if self.node:
                self.node.kill()

    def resweep_after_restart(self):
        """the privilege group a session carries is stored with the session (raft cache entry): after a restart the SAME token
        is served from what was written to disk, so the read endpoints are swept again with the tokens issued before"""
        if self.only:
            return
        self.node.kill()
        self.node.start(timeout=60)
        self.admin, r = self.node.console_login("admin", "admin", wait=20)
        if not self.admin:
            raise common.Inconclusive("admin login after restart failed: %s" % r.body[:200])
        deadline = time.time() + 30
        while True:       # start-up replay done = the seeded data reads back as before
            cur = {fam: self.fp_family(fam) for fam in ("config", "ns")}
            if all(cur[f] == self.base[f] for f in cur):
                break
            if time.time() > deadline:
                raise common.Inconclusive("seeded data not readable 30 s after the restart")
            time.sleep(0.5)
        n0 = len(self.cases)
        reads = [o for o in self.ops if o["kind"] == "read" and o["fam"] != "svc3"]
        for u in self.users:
            for o in reads:
                if o["nons"]:
                    self.run_case(u, o, None, "none", None)
                    continue
                for t in o["tags"]:
                    sp, nsv = ("by-id", None) if o["byid"] else spellings(t)[0]
                    self.run_case(u, o, t, sp, nsv)
        for c in self.cases[n0:]:
            c["phase"] = "after-restart"

    def check_seed(self):
        for t in TAGS:
            if len(self.base["config"][t]) != 3 or len(self.base["naming"][t]) != 2 or len(self.base["mcp"][t]) != 5:
                raise common.Inconclusive("seeding incomplete for %s: %s" % (t, json.dumps({f: self.base[f][t] for f in ("config", "naming", "mcp")})[:800]))
            n = self.base["naming"][t]
            if sum(len(s["inst"]) for s in n.values()) != 3:
                raise common.Inconclusive("seeded instances missing for %s: %s" % (t, json.dumps(n)[:500]))
        for t in ("A", "B", "C"):
            if None in self.base["ns"][t].values():
                raise common.Inconclusive("seeded namespaces missing: %s" % json.dumps(self.base["ns"]))

    def sweep_user(self, u):
        for o in self.ops:
            if o["nons"]:
                self.run_case(u, o, None, "none", None)
                continue
            for t in o["tags"]:
                if o["byid"]:       # the item id names the namespace: no spelling to vary
                    self.run_case(u, o, t, "by-id", None)
                    continue
                for sp, nsv in spellings(t):
                    self.run_case(u, o, t, sp, nsv)
                # the id of an existing namespace with a blank behind it is another id: whatever the answer is, the namespace the
                # user may not touch must stay as it is (judged by state only, never by the answer)
                if o["fam"] == "ns" and o["id"].split("/")[-1] in ("update", "remove"):
                    self.run_case(u, o, t, "padded", None)

    # ---- cross-namespace references: a request addressed to an ALLOWED namespace `a` that reaches into namespace `b`
    PAIR_OPS = ("v2/mcp-server/add-foreign-tool", "v2/mcp-server/update-foreign-id", "v2/mcp-server/import-foreign-key",
                # one request that names the namespace in two places: the `tenant` header (what the handler checks) says `a`, a
                # multipart text field `tenant` next to the file says `b`
                "v1/config/import-foreign-tenant-field", "v2/config/import-foreign-tenant-field")

    def run_pair(self, u, op_id, a, b):
        shape = u["shape"]
        self.counter += 1
        n = self.counter
        sv = V2 + "/mcp/server"
        dis = [x for x in TAGS if not shape.allowed(x)]
        reqs, resps = [], []

        def go(spec):
            reqs.append(spec)
            resps.append(self.send(u["token"], spec))
            return resps[-1]
        fam = "config" if "/config/" in op_id else "mcp"
        if op_id.endswith("import-foreign-tenant-field"):
            z = make_zip([(DG + "/pairimp%d-%s" % (n, NM[a]), "imported by restricted user, header says %s" % a)])
            go(R("POST", (V1 if op_id.startswith("v1/") else V2) + "/config/import", h={"tenant": NSID[a]}, mp=({"tenant": NSID[b]}, "imp.zip", z)))
        elif op_id.endswith("add-foreign-tool"):
            r = go(R("POST", sv + "/add", j={"namespace": nns(a), "name": "pair%d-%s" % (n, NM[a]), "description": "pair", "authKeys": ["k%d" % n],
                                            "tools": [{"toolName": "tool1-" + NM[b], "namespace": nns(b), "group": "grp-" + NM[b]}]}))
            sid = (r.json() or {}).get("data") if not refused(r) else None
            if isinstance(sid, int):
                go(R("GET", sv + "/info", {"id": sid}))
        elif op_id.endswith("update-foreign-id"):
            go(R("POST", sv + "/update", j={"id": self.srv_id(b, "srv1-" + NM[b]), "namespace": nns(a), "description": "moved %d" % n}))
        else:
            key = (self.srv.get(b, {}).get("srv2-" + NM[b]) or {}).get("key") or "nokey"
            z = make_zip([("imp.yaml", server_yaml(key, "taken%d-%s" % (n, NM[a]), "taken over", "k%d" % n, "tool1-" + NM[a], "grp-" + NM[a]))])
            go(R("POST", sv + "/import", mp=({"namespace": nns(a)}, "sv.zip", z)))
        text = "\n".join(body_text(r) for r in resps)
        rtext = " ".join(spec_text(x) for x in reqs)
        leaks = [m for x in dis for m in (NM[x], SC[x]) if m in text and m not in rtext]
        ch, cur = self.changed_tags(fam, sorted({a, b}))
        case = {"user": u["name"], "role": u["role"], "shape": shape.name, "op": op_id, "ns": b, "spelling": "via-allowed-ns", "kind": "write",
                "status": resps[0].status, "refused": refused(resps[0]), "leaks": leaks, "list_all": True, "allowed": a == b, "pages": len(resps),
                "request": {k: v for k, v in reqs[0].items() if v and k != "mp"}, "response": resps[-1].body[:300].decode("utf-8", "replace"),
                "via_namespace": a, "changed": ch, "changed_disallowed": [x for x in ch if x in dis]}
        if reqs[0].get("mp"):
            case["request"]["multipart_fields"] = reqs[0]["mp"][0]
            case["request"]["zip_member"] = reqs[0]["mp"][2][30:400].decode("latin1")
        case["worked"] = (SC[b] in text) if op_id.endswith("add-foreign-tool") else (b in ch)
        if ch:
            x = (case["changed_disallowed"] or ch)[0]
            case["diff"] = diff_text(self.base[fam][x], cur[x])
            self.repair(fam, ch, cur)
        self.cases.append(case)

    def sweep_pairs(self, u):
        shape = u["shape"]
        ok = [x for x in ("A", "B", "C", "D") if shape.allowed(x)]
        bad = [x for x in ("B", "C", "A", "D") if not shape.allowed(x)]
        for op_id in self.PAIR_OPS:
            if self.only and not any(op_id.startswith(p) for p in self.only):
                continue
            if ok:
                self.run_pair(u, op_id, ok[0], ok[0])       # positive control: the reference stays inside the allowed namespace
            if ok and bad:
                self.run_pair(u, op_id, ok[0], bad[0])

    def run_case(self, u, o, t, sp, nsv):
        shape = u["shape"]
        self.counter += 1
        c = Ctx(self, t or "D", sp, nsv, self.counter)
        list_all = o["nons"] or (o["omitted_all"] and sp == "omitted")
        bodies, reqs, resps = [], [], []
        c.page = 1
        if o["fam"] == "svc3":      # the empty target service lives 30 s only: (re)create it right before the request
            self.adm("POST", V2 + "/service/remove", j={"serviceName": "svc3-" + NM[t], "groupName": DG, "namespaceId": nns(t)}, must=False)
            self.seed_service(t, "svc3-" + NM[t])
            if not self.svc3_present(t):
                raise common.Inconclusive("could not re-create the empty service svc3 in %s" % t)
        while True:
            s = o["build"](c)
            if sp == "padded":
                for part in ("f", "j", "q"):
                    if isinstance(s.get(part), dict) and isinstance(s[part].get("namespaceId"), str):
                        s[part] = dict(s[part], namespaceId=s[part]["namespaceId"] + " ")
            r = self.send(u["token"], s)
            reqs.append(s)
            resps.append(r)
            bodies.append(body_text(r))
            if not o["paged"] or refused(r) or c.page >= 12:
                break
            if not page_has_items(r):
                break
            c.page += 1
        first = resps[0]
        text = "\n".join(bodies)
        rtext = " ".join(spec_text(s) for s in reqs)
        dis = [x for x in TAGS if not shape.allowed(x)]
        leaks = []
        for x in dis:
            for m in (NM[x], SC[x]):
                if m in text and m not in rtext:
                    leaks.append(m)
        case = {"user": u["name"], "role": u["role"], "shape": shape.name, "op": o["id"], "ns": t, "spelling": sp, "kind": o["kind"],
                "status": first.status, "refused": refused(first), "leaks": leaks, "list_all": list_all,
                "allowed": (any(shape.allowed(x) for x in TAGS) if list_all else shape.allowed(t)),
                "request": {k: v for k, v in reqs[0].items() if v and k != "mp"}, "response": first.body[:300].decode("utf-8", "replace"), "pages": len(resps)}
        if reqs[0].get("mp"):
            case["request"]["multipart_fields"] = reqs[0]["mp"][0]
        if o["kind"] == "write" and o["fam"] == "svc3":
            gone = not self.svc3_present(t)
            case["changed"] = [t] if gone else []
            case["changed_disallowed"] = [t] if gone and t in dis else []
            case["worked"] = gone
        elif o["kind"] == "write":
            # per request: the addressed namespace; all namespaces of all families are re-read after each user's block
            ch, cur = self.changed_tags(o["fam"], [t])
            case["changed"] = ch
            case["changed_disallowed"] = [x for x in ch if x in dis]
            case["worked"] = (t in ch)
            if ch:
                case["diff"] = diff_text(self.base[o["fam"]][ch[0]], cur[ch[0]])
                self.repair(o["fam"], ch, cur)
        else:
            if list_all:
                vis = dict(NM)
                if o["family"] == "namespace":
                    vis["D"] = '"namespaceName":"public"'
                case["worked"] = (not refused(first)) and any(vis[x] in text for x in TAGS if shape.allowed(x))
            else:
                want = SC[t] if o["expect"] == "sc" else NM[t]
                case["worked"] = (not refused(first)) and want in text
        self.cases.append(case)


def page_has_items(r):
    j = r.json()
    if not isinstance(j, dict):
        return False
    d = j.get("data") if isinstance(j.get("data"), dict) else j
    for k in ("list", "pageItems", "serviceList"):
        if isinstance(d.get(k), list):
            return len(d[k]) > 0
    return False


def diff_text(a, b):
    out = []
    for k in sorted(set(a) | set(b)):
        if a.get(k) != b.get(k):
            out.append("%s: %s -> %s" % (k, json.dumps(a.get(k))[:120], json.dumps(b.get(k))[:120]))
    return out[:6]


# ------------------------------------------------------------------------------------------------ verdict

def judge(out, shards):
    """turn the evaluated cases of all shards into violations / shapes / facts"""
    cases = [c for s in shards for c in s.cases]
    pc_ok = {}          # (op, role) -> number of working positive controls
    pc_fail = {}
    sp_ok = set()       # (op, spelling) for which some allowed request worked: a refusal of this spelling is not a malformed-request artefact
    for c in cases:
        if "unattributed" in c:
            continue
        key = (c["op"], c["role"])
        if c["allowed"]:
            if c["worked"]:
                pc_ok[key] = pc_ok.get(key, 0) + 1
                sp_ok.add((c["op"], c["spelling"]))
            else:
                pc_fail.setdefault(key, []).append(c)
    stats = {"requests_by_restricted_users": 0, "disallowed_cases": 0, "disallowed_refused": 0, "allowed_cases": 0, "allowed_worked": 0,
             "leak_cases": 0, "write_through_cases": 0, "not_refused_cases": 0}
    held = {}
    before = {}
    for c in cases:
        if "unattributed" not in c and c.get("phase") != "after-restart":
            bad = bool(c["leaks"]) or (not c["allowed"] and not c["refused"] and not c["list_all"] and c["spelling"] != "padded")
            k = (c["user"], c["op"], c["ns"], c["spelling"])
            before[k] = before.get(k, False) or bad
    stats["after_restart_cases"] = 0
    stats["after_restart_sessions_still_valid"] = 0
    for c in cases:
        if "unattributed" in c:
            out.violation("unattributed-state-change/%s" % c["op"].split("/")[1], c)
            continue
        stats["requests_by_restricted_users"] += c["pages"]
        out.evaluations += c["pages"]
        sig_base = c["op"]
        if c.get("phase") == "after-restart":
            # same user, same token, same request as before the restart: only a verdict that CHANGED is reported here (an
            # endpoint that leaks in both phases is one finding, reported by the first phase)
            stats["after_restart_cases"] += 1
            if c["allowed"] and c["worked"]:
                stats["after_restart_sessions_still_valid"] += 1
            bad = bool(c["leaks"]) or (not c["allowed"] and not c["refused"] and not c["list_all"] and c["spelling"] != "padded")
            if bad and not before.get((c["user"], c["op"], c["ns"], c["spelling"]), False):
                w = witness(c)
                w["phase"] = "same token after a restart of the node; the same request was refused / clean before the restart"
                out.violation("after-restart/%s/%s" % (sig_base, c["leak_name"] if c["leaks"] else "not-refused"), w)
            elif not bad and c["allowed"] and c["worked"]:
                out.shape("after-restart|%s|%s" % (c["op"], c["shape"]))
            continue
        viol = False
        if c["leaks"]:
            stats["leak_cases"] += 1
            out.violation("%s/%s" % (sig_base, c["leak_name"]), witness(c))
            viol = True
        if c["kind"] == "write" and c.get("changed_disallowed"):
            stats["write_through_cases"] += 1
            out.violation("%s/write-through" % sig_base, witness(c))
            viol = True
        if c["allowed"]:
            stats["allowed_cases"] += 1
            stats["allowed_worked"] += 1 if c["worked"] else 0
        else:
            stats["disallowed_cases"] += 1
            if c["refused"]:
                stats["disallowed_refused"] += 1
            elif not viol and not c["list_all"] and c["spelling"] != "padded":
                stats["not_refused_cases"] += 1
                out.violation("%s/not-refused" % sig_base, witness(c))
                viol = True
        if pc_ok.get((c["op"], c["role"])) and (c["op"], c["spelling"]) in sp_ok and (c["worked"] or not c["allowed"]):
            out.shape("%s|%s" % (c["op"], c["shape"]))
            if not viol:
                held[c["op"]] = held.get(c["op"], 0) + 1
    ops_seen = sorted({c["op"] for c in cases if "unattributed" not in c})
    roles = sorted({c["role"] for c in cases if "unattributed" not in c})
    inconcl = ["%s (role %s)" % (o, r) for o in ops_seen for r in roles if not pc_ok.get((o, r))]
    out.extra.update(stats)
    out.extra["endpoints_swept"] = len(ops_seen)
    out.extra["spellings_never_working_for_anyone"] = sorted({"%s|%s" % (c["op"], c["spelling"]) for c in cases if "unattributed" not in c and (c["op"], c["spelling"]) not in sp_ok})
    out.extra["endpoint_role_pairs_without_working_positive_control"] = inconcl
    out.extra["positive_controls_worked"] = {"%s|%s" % k: v for k, v in sorted(pc_ok.items())}
    out.extra["allowed_but_not_working"] = sorted({"%s|%s|%s|%s -> %s %s" % (c["op"], c["role"], c["ns"], c["spelling"], c["status"], c["response"][:80])
                                                   for v in pc_fail.values() for c in v})[:120]
    out.extra["endpoints_clean_on_all_cases"] = sorted(o for o in ops_seen if o in held and not any(sig.startswith(o + "/") for sig in out.violations))
    for c in cases:
        if "unattributed" in c:
            continue
        if len(out.samples) < 6 and not c["allowed"] and c["refused"] and not c["leaks"]:
            if not any(s.get("op") == c["op"] for s in out.samples):
                out.samples.append(witness(c))
    for c in cases:
        if "unattributed" not in c and len(out.samples) < 8 and c["allowed"] and c["worked"] and c["kind"] == "write":
            out.samples.append(witness(c))
            break


def witness(c):
    w = {k: c[k] for k in ("user", "role", "shape", "op", "ns", "spelling", "allowed", "status", "refused", "request", "response") if k in c}
    for k in ("leaks", "changed", "changed_disallowed", "diff"):
        if c.get(k):
            w[k] = c[k]
    return w


# ------------------------------------------------------------------------------------------------ entry points

def make_users(shapes):
    users = []
    for i, sh in enumerate(shapes):
        for role in ("dev", "mgr"):
            users.append({"name": "c18u%02d%s" % (i, role), "role": role, "shape": sh})
    return users


def run(tier, seed, only_ops=None, n_shards=None):
    common.build(need_bin=True)
    wd = common.workdir("c18")
    out = Outcome("C18", tier, seed)
    out.rule = ("every restricted console user (privilege shape whitelist x blacklist x enabled, roles developer and manager) sends every console data "
                "operation of API v1 and v2 (config, service, instance, namespace, MCP tool spec / server, transfer export) to every namespace "
                "in every spelling (explicit id / omitted / empty / 'public'), listings with and without filter over all pages; "
                "oracle allowed(ns) = (wl_all or ns in wl) and not (bl_all or ns in bl), default namespace normalised; disallowed: refusal, "
                "admin-read fingerprint of every namespace unchanged, no NAME/SECRET marker of a disallowed namespace in any response body; "
                "allowed: operation must work (positive control). evaluations = HTTP requests sent by restricted users in the sweep "
                "(admin seeding / fingerprint / repair requests are counted separately); "
                "distinct_nontrivial = (endpoint operation, privilege shape) pairs exercised on an endpoint+role whose positive control worked")
    out.assumptions = [
        "the ENABLE bit of a namespace privilege group cannot be cleared through the user API (add/update force enabled=true); enabled=no users are "
        "made by the only console route to such a record: transfer export, clear the bit of the stored flags byte, transfer import of the users, "
        "verified on a second export. 'unset' = user created without namespacePrivilegeParam",
        "letters A/B in privilege lists stand for the data namespace and its empty twin (c18a + c18a2); namespace add/remove act on the twin because "
        "namespaces holding data cannot be removed; the default namespace is listed as \"\" (what the console UI sends)",
        "MCP server get/remove/history/publish address an item by id; the namespace of the addressed server decides allowed/disallowed",
        "a response that is answered 200/success for a disallowed namespace without leaking or changing anything is reported under the separate "
        "symptom 'not-refused' (the property demands a refusal)",
        "per write request the admin re-reads the addressed namespace of the written family; every namespace of every family is re-read after each "
        "user's block (signature unattributed-state-change/<family> if something else moved)",
        "service subscriber listings and transfer import are not swept (no subscriber can be created over HTTP; transfer import replaces whole tables)"]
    try:
        shapes = quick_shapes(seed) if tier == "quick" else all_shapes()
        users = make_users(shapes)
        ops = select_ops(only_ops)
        k = n_shards or (8 if tier == "quick" else 14)
        k = max(1, min(k, len(users)))
        groups = [users[i::k] for i in range(k)]
        ports = procrig.free_ports(3 * k)
        jobs = [(wd, i, g, tier, seed, only_ops, ports[3 * i:3 * i + 3]) for i, g in enumerate(groups)]
        shards = attempt(jobs)
        failed = [s for s in shards if s.error]
        if failed:      # retry a failed sub-run once on a fresh node
            common.log("retrying %d shard(s): %s" % (len(failed), failed[0].error[:300]))
            ports = procrig.free_ports(3 * len(failed))
            redo = attempt([(wd, s.idx + 100, s.users, tier, seed, only_ops, ports[3 * i:3 * i + 3]) for i, s in enumerate(failed)])
            shards = [s for s in shards if not s.error] + redo
            still = [s for s in redo if s.error]
            if still:
                raise common.Inconclusive(still[0].error[:1800])
        out.extra["http_requests_total_incl_admin_seed_fingerprint_repair"] = sum(s.evals for s in shards)
        for c in [c for s in shards for c in s.cases]:
            if "unattributed" not in c:
                o = next((x for x in ops if x["id"] == c["op"]), None)
                c["leak_name"] = o["leak"] if o else "read-leak"
        judge(out, shards)
        out.extra["users"] = len(users)
        out.extra["privilege_shapes"] = [s.name for s in shapes]
        out.extra["nodes"] = len(shards)
        prof = {}
        for s in shards:
            for k, (n, t) in s.prof.items():
                e = prof.setdefault(k, [0, 0.0])
                e[0] += n
                e[1] += t
        out.extra["slowest_request_kinds_ms"] = {k: [n, round(1000 * t / n, 1)] for k, (n, t) in sorted(prof.items(), key=lambda kv: -kv[1][1])[:12]}
        out.extra["seed_seconds_max"] = round(max(s.t_seed for s in shards), 1)
        out.extra["sweep_seconds_max"] = round(max(s.t_sweep for s in shards), 1)
        out.min_nontrivial = 40 if not only_ops else 1
        return out.finish()
    finally:
        shutil.rmtree(wd, ignore_errors=True)


class ShardResult:
    def __init__(self, d):
        self.__dict__.update(d)


def shard_main(job):
    wd, idx, users, tier, seed, only_ops, ports = job
    try:        # if the front-end is killed (watchdog), this process gets SIGTERM and still stops its node in Shard.run's finally
        import ctypes
        import signal
        import sys
        ctypes.CDLL("libc.so.6").prctl(1, signal.SIGTERM)
        signal.signal(signal.SIGTERM, lambda *a: sys.exit(143))
    except Exception:
        pass
    ops = select_ops(only_ops)
    sh = Shard(wd, idx, [dict(u, token=None) for u in users], tier, seed, ops, ports, only_ops)
    sh.run()
    return {"idx": idx, "users": users, "evals": sh.evals, "cases": sh.cases, "error": sh.error, "t_seed": sh.t_seed, "t_sweep": sh.t_sweep, "prof": sh.prof}


def select_ops(only_ops):
    ops = build_ops()
    if only_ops:
        ops = [o for o in ops if any(o["id"].startswith(p) for p in only_ops)]
    return ops


def attempt(jobs):
    """one OS process per node+user group (threads would serialise on the interpreter lock and dominate the latency)"""
    import multiprocessing
    from concurrent.futures import ProcessPoolExecutor
    with ProcessPoolExecutor(max_workers=len(jobs), mp_context=multiprocessing.get_context("fork")) as ex:
        return [ShardResult(r) for r in ex.map(shard_main, jobs)]


def replay(path):
    """re-run the sweep restricted to the endpoint operation of the recorded signature (same tier and seed, 2 nodes);
    prints VIOLATION / KNOWN-FINDING lines like a normal run; the evidence file of the last full run is kept"""
    import os
    w = json.load(open(path))
    prefix = "/".join(w["signature"].split("/")[:3])
    evid = os.path.join(common.EVID, "C18.json")
    keep = open(evid, "rb").read() if os.path.exists(evid) else None
    try:
        rc = run(w.get("tier", "quick"), int(w.get("seed", 1)), only_ops=[prefix], n_shards=2)
    finally:
        if keep is not None:
            open(evid, "wb").write(keep)
    print(json.dumps({"replayed_signature": w["signature"], "endpoint_operation": prefix, "exit": rc}))
    return rc
