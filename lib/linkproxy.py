"""Link fabric for the process rig: every node advertises a proxy port instead of its gRPC port, so that all node-to-node
traffic (raft RPCs, naming batch sync, routed writes, snapshot pulls) of a directed pair src->dst runs through one python
forwarder and can be STALLED for a while and then released - nothing is dropped, reordered or altered, bytes are only held
(TCP back-pressure on the sender, delayed delivery on the receiver). That is the "delayed batch sync" / "message delayed on
one link while the others are fast" part of the cluster properties' quantifiers, which SIGSTOP of a whole process cannot
produce. The source node of an incoming connection is found through /proc (owner pid of the peer's ephemeral port)."""
import os
import selectors
import socket
import threading
import time


def _owner_inode(peer_port, proxy_port):
    want_l = "0100007F:%04X" % peer_port
    want_r = "0100007F:%04X" % proxy_port
    try:
        with open("/proc/net/tcp") as f:
            next(f)
            for line in f:
                p = line.split()
                if p[1] == want_l and p[2] == want_r:
                    return p[9]
    except OSError:
        pass
    return None


def _pid_has_inode(pid, inode):
    d = "/proc/%d/fd" % pid
    want = "socket:[%s]" % inode
    try:
        for fd in os.listdir(d):
            try:
                if os.readlink(os.path.join(d, fd)) == want:
                    return True
            except OSError:
                continue
    except OSError:
        pass
    return False


class _Pipe:
    __slots__ = ("a", "b", "src", "dst", "buf_ab", "buf_ba", "closed", "t_open", "bytes_ab", "bytes_ba", "held")

    def __init__(self, a, b, src, dst):
        self.a, self.b, self.src, self.dst = a, b, src, dst
        self.buf_ab, self.buf_ba = bytearray(), bytearray()
        self.closed = False
        self.t_open = time.monotonic()
        self.bytes_ab = self.bytes_ba = 0
        self.held = False


class LinkFabric:
    """pids: callable returning {node_id: pid or None}; targets: {node_id: real grpc port}"""

    def __init__(self, targets, pids):
        self.targets = dict(targets)
        self.pids = pids
        self.listen = {}
        self.port = {}
        for nid in self.targets:
            s = socket.socket()
            s.setsockopt(socket.SOL_SOCKET, socket.SO_REUSEADDR, 1)
            s.bind(("127.0.0.1", 0))
            s.listen(128)
            s.setblocking(False)
            self.listen[nid] = s
            self.port[nid] = s.getsockname()[1]
        self.lock = threading.Lock()
        self.stalled = set()            # (src, dst); src None never stalled
        self.pipes = []
        self.sel = selectors.DefaultSelector()
        self.stop_flag = False
        self.wake_r, self.wake_w = os.pipe()
        os.set_blocking(self.wake_r, False)
        self.stats = {"connections": 0, "by_link": {}, "unknown_source": 0, "stalls": 0, "bytes_held_released": 0,
                      "connections_held": 0}
        self.thread = threading.Thread(target=self._loop, daemon=True)

    def addr(self, nid):
        return "127.0.0.1:%d" % self.port[nid]

    def start(self):
        for nid, s in self.listen.items():
            self.sel.register(s, selectors.EVENT_READ, ("listen", nid))
        self.sel.register(self.wake_r, selectors.EVENT_READ, ("wake", None))
        self.thread.start()
        return self

    def close(self):
        self.stop_flag = True
        self._wake()
        self.thread.join(3)
        for p in list(self.pipes):
            self._close(p)
        for s in self.listen.values():
            try:
                s.close()
            except OSError:
                pass

    def _wake(self):
        try:
            os.write(self.wake_w, b"x")
        except OSError:
            pass

    # ---- control (any thread)
    def stall(self, src, dst):
        with self.lock:
            self.stalled.add((src, dst))
            self.stats["stalls"] += 1
        self._wake()

    def release(self, src=None, dst=None):
        with self.lock:
            if src is None and dst is None:
                self.stalled.clear()
            else:
                self.stalled = {l for l in self.stalled if not ((src is None or l[0] == src) and (dst is None or l[1] == dst))}
        self._wake()

    def is_stalled(self, src, dst):
        with self.lock:
            return (src, dst) in self.stalled

    # ---- loop
    def _source_of(self, peer_port, proxy_port):
        inode = None
        for _ in range(3):
            inode = _owner_inode(peer_port, proxy_port)
            if inode and inode != "0":
                break
            time.sleep(0.001)
        if not inode or inode == "0":
            return None
        for nid, pid in (self.pids() or {}).items():
            if pid and _pid_has_inode(pid, inode):
                return nid
        return None

    def _accept(self, nid):
        try:
            c, peer = self.listen[nid].accept()
        except OSError:
            return
        src = self._source_of(peer[1], self.port[nid])
        up = socket.socket()
        try:
            up.settimeout(1.0)
            up.connect(("127.0.0.1", self.targets[nid]))
        except OSError:
            try:
                c.setsockopt(socket.SOL_SOCKET, socket.SO_LINGER, b"\x01\x00\x00\x00\x00\x00\x00\x00")
                c.close()
            except OSError:
                pass
            up.close()
            return
        for s in (c, up):
            s.setblocking(False)
            s.setsockopt(socket.IPPROTO_TCP, socket.TCP_NODELAY, 1)
        p = _Pipe(c, up, src, nid)
        self.pipes.append(p)
        self.stats["connections"] += 1
        if src is None:
            self.stats["unknown_source"] += 1
        k = "%s->%s" % (src, nid)
        self.stats["by_link"][k] = self.stats["by_link"].get(k, 0) + 1
        self._arm(p)

    def _arm(self, p):
        """(re)register both ends according to the stall state and pending buffers"""
        if p.closed:
            return
        with self.lock:
            held = (p.src, p.dst) in self.stalled
        if held and not p.held:
            self.stats["connections_held"] += 1
        if p.held and not held:
            self.stats["bytes_held_released"] += len(p.buf_ab) + len(p.buf_ba)
        p.held = held
        for sock, outbuf, tag in ((p.a, p.buf_ba, "a"), (p.b, p.buf_ab, "b")):
            ev = 0
            if not held:
                ev |= selectors.EVENT_READ
                if outbuf:
                    ev |= selectors.EVENT_WRITE
            try:
                if ev:
                    try:
                        self.sel.modify(sock, ev, ("pipe", p, tag))
                    except KeyError:
                        self.sel.register(sock, ev, ("pipe", p, tag))
                else:
                    try:
                        self.sel.unregister(sock)
                    except KeyError:
                        pass
            except (ValueError, OSError):
                self._close(p)
                return

    def _close(self, p):
        if p.closed:
            return
        p.closed = True
        for s in (p.a, p.b):
            try:
                self.sel.unregister(s)
            except (KeyError, ValueError, OSError):
                pass
            try:
                s.close()
            except OSError:
                pass
        try:
            self.pipes.remove(p)
        except ValueError:
            pass

    def _io(self, p, tag, mask):
        if p.closed or p.held:
            return
        sock, peer = (p.a, p.b) if tag == "a" else (p.b, p.a)
        inbuf = p.buf_ab if tag == "a" else p.buf_ba        # data read from sock, to be written to peer
        outbuf = p.buf_ba if tag == "a" else p.buf_ab       # data to be written to sock
        if mask & selectors.EVENT_READ and len(inbuf) < (1 << 22):
            try:
                d = sock.recv(1 << 16)
            except (BlockingIOError, InterruptedError):
                d = None
            except OSError:
                d = b""
            if d == b"":
                # flush what we can to the peer, then close both (no half-close handling needed for gRPC/HTTP2)
                try:
                    if inbuf:
                        peer.setblocking(True)
                        peer.settimeout(0.2)
                        peer.sendall(bytes(inbuf))
                except OSError:
                    pass
                self._close(p)
                return
            if d:
                inbuf += d
                if tag == "a":
                    p.bytes_ab += len(d)
                else:
                    p.bytes_ba += len(d)
        if mask & selectors.EVENT_WRITE and outbuf:
            try:
                n = sock.send(bytes(outbuf[:1 << 16]))
                del outbuf[:n]
            except (BlockingIOError, InterruptedError):
                pass
            except OSError:
                self._close(p)
                return
        # try to push freshly read data straight away
        if inbuf:
            try:
                n = peer.send(bytes(inbuf[:1 << 16]))
                del inbuf[:n]
            except (BlockingIOError, InterruptedError):
                pass
            except OSError:
                self._close(p)
                return
        self._arm(p)

    def _loop(self):
        while not self.stop_flag:
            try:
                events = self.sel.select(0.2)
            except OSError:
                continue
            rearm = False
            for key, mask in events:
                kind = key.data[0]
                if kind == "listen":
                    self._accept(key.data[1])
                elif kind == "wake":
                    try:
                        os.read(self.wake_r, 4096)
                    except OSError:
                        pass
                    rearm = True
                else:
                    self._io(key.data[1], key.data[2], mask)
            if rearm:
                for p in list(self.pipes):
                    self._arm(p)


# ---------------------------------------------------------------------------------------------- own process (no GIL sharing)
class FabricProcess:
    """the same fabric in a child process (`python3 linkproxy.py`), JSON lines on stdin/stdout; the check's client threads
    then do not share an interpreter lock with the forwarder"""

    def __init__(self, targets):
        import json
        import subprocess
        import sys
        self._json = json
        self.p = subprocess.Popen([sys.executable, os.path.abspath(__file__)], stdin=subprocess.PIPE, stdout=subprocess.PIPE, text=True, bufsize=1)
        self.lock = threading.Lock()
        r = self._call({"cmd": "init", "targets": {str(k): v for k, v in targets.items()}})
        self.port = {int(k): v for k, v in r["ports"].items()}
        self.stalled = set()

    def _call(self, msg):
        with self.lock:
            self.p.stdin.write(self._json.dumps(msg) + "\n")
            self.p.stdin.flush()
            line = self.p.stdout.readline()
        if not line:
            raise OSError("link fabric process ended")
        return self._json.loads(line)

    def start(self):
        return self

    def addr(self, nid):
        return "127.0.0.1:%d" % self.port[nid]

    def set_pids(self, pids):
        self._call({"cmd": "pids", "pids": {str(k): v for k, v in pids.items()}})

    def stall(self, src, dst):
        self.stalled.add((src, dst))
        self._call({"cmd": "stall", "src": src, "dst": dst})

    def release(self, src=None, dst=None):
        self.stalled = {l for l in self.stalled if not ((src is None or l[0] == src) and (dst is None or l[1] == dst))}
        self._call({"cmd": "release", "src": src, "dst": dst})

    @property
    def stats(self):
        return self._call({"cmd": "stats"})["stats"]

    def close(self):
        try:
            self._call({"cmd": "quit"})
        except (OSError, ValueError):
            pass
        try:
            self.p.wait(3)
        except Exception:
            self.p.kill()


def _main():
    import json
    import sys
    fab = None
    pids = {}
    for line in sys.stdin:
        try:
            m = json.loads(line)
        except ValueError:
            continue
        c = m.get("cmd")
        out = {"ok": True}
        if c == "init":
            fab = LinkFabric({int(k): v for k, v in m["targets"].items()}, lambda: pids).start()
            out["ports"] = {str(k): v for k, v in fab.port.items()}
        elif c == "pids":
            pids.clear()
            pids.update({int(k): v for k, v in m["pids"].items()})
        elif c == "stall":
            fab.stall(m["src"], m["dst"])
        elif c == "release":
            fab.release(m.get("src"), m.get("dst"))
        elif c == "stats":
            out["stats"] = fab.stats
        elif c == "quit":
            print(json.dumps(out), flush=True)
            break
        print(json.dumps(out), flush=True)
    if fab is not None:
        fab.close()


if __name__ == "__main__":
    _main()
