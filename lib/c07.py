"""C07 — leader apply, follower replication and restart replay yield the same state."""
import json
import time
import glob
import os
import random
import shutil
from concurrent.futures import ThreadPoolExecutor

import common
import noderig
from common import Outcome
from c01 import req_kind


def open_idle(d):
    """a node whose raft core never writes: not initialised, no join address"""
    s = noderig.NodeSession(d, snapshot_size=10000, auto_init=False)
    s.call("preamble", term=1, voted_for=2)
    return s


def settled_dump(sess, gen):
    sess.call("actor_barrier", ms=60)
    return sess.call("dump", **gen.dump_args())


def one_sequence(args):
    wd, seed, n = args
    rnd = random.Random(seed)
    gen = noderig.ReqGen(rnd)
    reqs = []
    last_content = None
    for _ in range(n):
        r = gen.next(last_content)
        if "ConfigSet" in r:
            last_content = r["ConfigSet"]["value"]
        if "NodeAddr" in r or "Members" in r:
            continue   # they change the raft membership files of an un-initialised node; C05 covers them
        reqs.append(r)
    res = {"seed": seed, "n": len(reqs), "kinds": sorted({req_kind(r).split(".")[0] for r in reqs}), "subkinds": len({req_kind(r) for r in reqs})}
    dl, df = os.path.join(wd, "L%d" % seed), os.path.join(wd, "F%d" % seed)
    sl = sf = None
    try:
        sl, sf = open_idle(dl), open_idle(df)
        # L: leader path, one entry at a time (append + apply, awaiting the response)
        leader_resps = []
        changed_by_encoding = None
        for i, r in enumerate(reqs):
            if changed_by_encoding is None:
                pr = sl.call("serde_probe", req=r)
                res["encoding_probes"] = res.get("encoding_probes", 0) + 1
                if pr.get("ok") and pr.get("same") is False:
                    changed_by_encoding = {"request_kind": req_kind(r), "index": i + 1, "in_memory": pr.get("in_memory"), "after_encoding": pr.get("after_encoding")}
            a = sl.call("leader_apply", index=i + 1, term=1, req=r)
            if not a.get("ok"):
                res["inconclusive"] = "leader_apply failed: %s" % json.dumps(a)[:300]
                return res
            leader_resps.append(a.get("resp"))
        # F: follower path, arbitrary batch splits
        i = 0
        splits = []
        with_compaction = seed % 2 == 0
        compacted = False
        pattern = rnd.choice(["singles", "small", "mixed", "one-big"])
        while i < len(reqs):
            b = {"singles": 1, "small": rnd.randrange(1, 4), "mixed": rnd.choice([1, 2, 5, 17, 60]), "one-big": len(reqs)}[pattern]
            chunk = reqs[i:i + b]
            a = sf.call("follower_batch", entries=[{"index": i + 1 + j, "term": 1, "req": r} for j, r in enumerate(chunk)])
            if not a.get("ok"):
                res["inconclusive"] = "follower_batch failed: %s" % json.dumps(a)[:300]
                return res
            splits.append(len(chunk))
            i += len(chunk)
            if with_compaction and not compacted and i >= len(reqs) // 2:
                # R will be snapshot + log suffix instead of pure log replay
                sf.call("actor_barrier", ms=30)
                compacted = bool(sf.call("compact").get("ok"))
        res["split_pattern"] = pattern + ("+snapshot" if compacted else "")
        dump_l = settled_dump(sl, gen)
        dump_f = settled_dump(sf, gen)
        viols = []
        d1 = noderig.diff_dumps(dump_l, dump_f)
        if d1:
            viols.append(("leader-vs-follower", d1))
        seq_f = sf.call("history_seq_probe").get("start")
        # R: restart the follower's directory: pure start-up replay
        sf.call("sleep", ms=120)
        # the replay stops at the last-applied index found in the index file: wait until the (asynchronously written) value
        # shows the last entry fed to the follower, however slow the machine is
        import time as _t
        t_w = _t.time()
        while noderig.applied_index_on_disk(df) != len(reqs) and _t.time() - t_w < 10:
            _t.sleep(0.05)
        if noderig.applied_index_on_disk(df) != len(reqs):
            res["inconclusive"] = "applied index on disk %s != %d after 10 s" % (noderig.applied_index_on_disk(df), len(reqs))
            return res
        sf.kill()
        sf = open_idle(df)
        dump_r = settled_dump(sf, gen)
        d2 = noderig.diff_dumps(dump_f, dump_r)
        if d2:
            viols.append(("follower-vs-replay", d2))
        if not d1 and not d2:
            d3 = noderig.diff_dumps(dump_l, dump_r)
            if d3:
                viols.append(("leader-vs-replay", d3))
        # the history-id sequence a node would continue with if it became leader now (probe consumes an id: after the dumps)
        seq_l = sl.call("history_seq_probe").get("start")
        seq_r = sf.call("history_seq_probe").get("start")
        if seq_f is not None and seq_l is not None and seq_f != seq_l:
            viols.append(("leader-vs-follower", [("/config_history_sequence/next_id", seq_l, seq_f)]))
        if seq_f is not None and seq_r is not None and seq_r < seq_f:
            viols.append(("follower-vs-replay", [("/config_history_sequence/next_id", seq_f, seq_r)]))
        # I: a node that never saw the log: the leader's snapshot is installed the way the raft core does it (create, write, finalize)
        if seed % 3 == 0:
            sl.call("actor_barrier", ms=30)
            cr = sl.call("compact")
            snaps = sorted(glob.glob(os.path.join(dl, "snapshot_*")), key=lambda p: int(os.path.basename(p).split("_")[1]) if os.path.basename(p).split("_")[1].isdigit() else -1)
            if cr.get("ok") and snaps:
                dump_l2 = settled_dump(sl, gen)
                di = os.path.join(wd, "I%d" % seed)
                si = noderig.NodeSession(di, snapshot_size=10000, auto_init=False)
                try:
                    si.call("preamble", term=1, voted_for=2, members=[1])      # its own membership differs from the snapshot's
                    a = si.call("install_snapshot", path=snaps[-1], index=cr["index"], term=cr["term"])
                    if not a.get("ok"):
                        viols.append(("installed-vs-leader", [("/install/error", "ok", json.dumps(a)[:200])]))
                    else:
                        res["snapshot_installed"] = True
                        time.sleep(0.2)
                        dump_i = settled_dump(si, gen)
                        d4 = noderig.diff_dumps(dump_l2, dump_i)
                        if d4:
                            viols.append(("installed-vs-leader", d4))
                        mi, ml = si.call("membership"), sl.call("membership")
                        if mi.get("ok") and ml.get("ok") and (mi.get("members"), mi.get("addrs")) != (ml.get("members"), ml.get("addrs")):
                            viols.append(("installed-vs-leader", [("/membership/members", [ml.get("members"), ml.get("addrs")], [mi.get("members"), mi.get("addrs")])]))
                        # and the installed node restarts
                        t_w = time.time()
                        while noderig.applied_index_on_disk(di) != cr["index"] and time.time() - t_w < 10:
                            time.sleep(0.05)
                        si.kill()
                        si = noderig.NodeSession(di, snapshot_size=10000, auto_init=False)
                        dump_ir = settled_dump(si, gen)
                        d5 = noderig.diff_dumps(dump_i, dump_ir)
                        if d5:
                            viols.append(("installed-vs-replay", d5))
                        mir = si.call("membership")
                        if mir.get("ok") and mi.get("ok") and (mir.get("members"), mir.get("addrs")) != (mi.get("members"), mi.get("addrs")):
                            viols.append(("installed-vs-replay", [("/membership/members", [mi.get("members"), mi.get("addrs")], [mir.get("members"), mir.get("addrs")])]))
                finally:
                    si.kill()
                    shutil.rmtree(di, ignore_errors=True)
        out = []
        if changed_by_encoding:
            out.append({"signature": "leader-applies-a-request-its-log-encoding-does-not-carry/%s" % changed_by_encoding["request_kind"].split(".")[0],
                        "witness": dict(changed_by_encoding, history_seed=seed, n=len(reqs),
                                        note="the leader path applies the in-memory request; replicate_to_* on followers and the start-up replay apply its serde_json form")})
        for pair, diffs in viols:
            meta = [x for x in diffs if x[0].startswith("/naming/") and "/metadata" in x[0]]
            rest = [x for x in diffs if x not in meta]
            for fam, ds in (("instance-metadata", meta), ("state", rest)):
                if not ds:
                    continue
                parts = ds[0][0].split("/")
                comp = parts[1] if len(parts) > 1 else "?"
                if fam == "instance-metadata":
                    what = "instance-metadata"
                elif comp == "namespaces":
                    what = {"[0]": "name", "[1]": "type"}.get(parts[-1][parts[-1].find("["):], "presence") if "[" in parts[-1] else "presence"
                elif comp in ("mcp", "tables") and len(parts) > 3:
                    what = parts[2] + "/" + "/".join(p.split("[")[0] for p in parts[4:5])
                elif comp == "configs":
                    what = "/".join(p.split("[")[0] for p in parts[3:4]) or "presence"
                else:
                    what = parts[-1].split("[")[0]
                sig = "%s/%s/%s" % (pair, comp, what)
                out.append({"signature": sig, "witness": {"pair": pair, "history_seed": seed, "n": len(reqs), "split_pattern": pattern, "splits_head": splits[:20],
                                                          "diffs": [[p, json.dumps(x)[:300], json.dumps(y)[:300]] for p, x, y in ds[:6]]}})
        if out:
            res["violations"] = out
        res["compared_items"] = sum(len(dump_l.get(k, {})) for k in ("configs", "tables", "mcp", "naming", "namespaces") if isinstance(dump_l.get(k), dict))
        return res
    except noderig.NodeDied as e:
        res["inconclusive"] = "node session died: %s" % e
        return res
    finally:
        for s in (sl, sf):
            if s:
                s.kill()
        shutil.rmtree(dl, ignore_errors=True)
        shutil.rmtree(df, ignore_errors=True)


def delayed_injection_part(out, wd, seed, rounds):
    """follower path on real processes while the node is still starting: the raft core runs before the bean factory has
    injected the apply actor (existing window, widened by the RNACOS_VERIF_DELAY_INJECT_MS hook), so the leader's
    AppendEntries reach a follower whose apply manager must queue the requests and apply them, in log order, once it is
    wired. Non-commuting writes (several publishes / removes of the same keys) are made while the follower is down and
    while it starts; afterwards its contents and change histories must equal the leader's."""
    import procrig
    import time
    common.build(need_bin=True)
    rnd = random.Random(seed * 7919 + 17)
    facts = {"rounds": 0, "writes_while_down": 0, "writes_while_starting": 0, "keys_compared": 0, }
    cl = procrig.Cluster(os.path.join(wd, "dly"), 3, env={"RUST_LOG": "warn"})
    GROUP = "c07dly"
    try:
        cl.start()
        serial = 0
        tok = {}

        def view(nd, keys):
            res = {}
            if nd.id not in tok:
                tok[nd.id] = nd.console_login("admin", "admin", wait=10)[0]
            for k in keys:
                r = nd.get("/nacos/v1/cs/configs", params={"dataId": k, "group": GROUP}, timeout=5)
                c = r.text() if r.status == 200 else None if r.status == 404 else "<error %s>" % r.status
                h = nd.console("GET", "/rnacos/api/console/config/history", tok[nd.id], params={"dataId": k, "group": GROUP, "pageNo": 1, "pageSize": 1000}, timeout=5)
                j = (h.json() or {}).get("list") if h.status == 200 else None
                res[k] = [c, [[it.get("id"), it.get("content")] for it in reversed(j)] if isinstance(j, list) else "<history %s>" % h.status]
            return res

        for rd in range(rounds):
            leader = cl.leader()
            if leader is None:
                raise common.Inconclusive("no leader before round %d" % rd)
            follower = rnd.choice([n for n in cl.nodes if n is not leader])
            other = [n for n in cl.nodes if n is not leader and n is not follower][0]
            keys = ["dly%d-%d" % (rd, i) for i in range(2)]
            log = []

            def write(via):
                nonlocal serial
                serial += 1
                k = rnd.choice(keys)
                if rnd.random() < 0.2 and any(x[0] == k and x[1] for x in log):
                    r = via.delete("/nacos/v1/cs/configs", params={"dataId": k, "group": GROUP}, timeout=5)
                    okw = r.status == 200
                    log.append((k, None, okw))
                else:
                    r = via.post("/nacos/v1/cs/configs", form={"dataId": k, "group": GROUP, "content": "r%d-s%d" % (rd, serial)}, timeout=5)
                    okw = r.status == 200 and r.text().strip() == "true"
                    log.append((k, "r%d-s%d" % (rd, serial), okw))
                return okw
            follower.kill()
            for _ in range(rnd.randrange(2, 7)):
                facts["writes_while_down"] += 1 if write(rnd.choice([leader, other])) else 0
            delay = rnd.choice([1500, 2500, 3500])
            follower.env_extra["RNACOS_VERIF_DELAY_INJECT_MS"] = str(delay)
            follower.start(wait=False)
            t_end = time.time() + delay / 1000.0 + 0.4
            while time.time() < t_end:
                try:
                    facts["writes_while_starting"] += 1 if write(rnd.choice([leader, leader, other])) else 0
                except OSError:
                    pass
                time.sleep(rnd.choice([0.05, 0.12, 0.25]))
            follower.wait_ready(40)
            follower.env_extra.pop("RNACOS_VERIF_DELAY_INJECT_MS", None)
            tok.pop(follower.id, None)
            # bounded convergence: the follower's answers equal the leader's for every key of the round
            deadline = time.time() + 20
            while True:
                try:
                    lv, fv = view(leader, keys), view(follower, keys)
                except OSError as e:
                    lv, fv = None, "<%r>" % e
                if lv is not None and lv == fv:
                    break
                if time.time() > deadline:
                    break
                time.sleep(0.5)
            facts["rounds"] += 1
            if lv is None:
                raise common.Inconclusive("leader / follower not readable after the delayed start: %s" % fv)
            facts["keys_compared"] += len(keys)
            if lv != fv:
                k = next(k for k in keys if lv[k] != fv[k])
                what = "content" if lv[k][0] != fv[k][0] else "history-order-or-ids"
                out.violation("follower-vs-leader/delayed-injection/%s" % what,
                              {"round": rd, "delay_ms": delay, "key": k, "leader": lv[k], "follower": fv[k], "writes_of_round": log[-30:], "leader_node": leader.id, "follower_node": follower.id})
                break
            out.shape("delayed-injection/delay%d/%s" % (delay, "with-remove" if any(x[1] is None for x in log) else "publishes"))
        return facts
    except common.Inconclusive as e:
        facts["inconclusive"] = str(e)[:300]
        return facts
    finally:
        cl.kill_all()


def run(tier, seed):
    common.build()
    wd = common.workdir("c07")
    out = Outcome("C07", tier, seed)
    out.rule = ("one seeded committed sequence over all state-machine ClientRequest kinds is fed to two raft-idle in-process nodes: L through "
                "append_entry_to_log + apply_entry_to_state_machine per entry, F through replicate_to_log + replicate_to_state_machine in random "
                "batch splits; F's directory is then restarted (pure start-up replay = R). Dumps through the public actor queries are compared "
                "L=F, F=R, L=R. non-trivial = sequence with >=8 request sub-kinds and >=1 compared item; distinct = (kind-set size, split pattern)")
    try:
        n_seq = 96 if tier == "quick" else 1600
        jobs = [(wd, seed * 100000 + i, [60, 150, 400][i % 3]) for i in range(n_seq)]
        with ThreadPoolExecutor(max_workers=common.NCPU // 2) as ex:
            results = list(ex.map(one_sequence, jobs))
        kinds = set()
        for r in results:
            out.evaluations += 1
            if "inconclusive" in r:
                out.extra.setdefault("inconclusive_subruns", []).append(r["inconclusive"][:300])
                continue
            kinds.update(r["kinds"])
            for v in r.get("violations", []):
                out.violation(v["signature"], v["witness"])
            if r.get("compared_items", 0) > 0 and r["subkinds"] >= 8 and not [v for v in r.get("violations", []) if not v["signature"].endswith("instance-metadata")]:
                out.shape("subkinds%d/%s/n%d" % (r["subkinds"] // 4 * 4, r.get("split_pattern"), r["n"] // 100))
                if r.get("snapshot_installed"):
                    out.shape("snapshot-installed-on-fresh-node/subkinds%d" % (r["subkinds"] // 4 * 4))
            if len(out.samples) < 3:
                out.samples.append({k: r[k] for k in ("seed", "n", "kinds", "subkinds", "split_pattern", "compared_items") if k in r})
        out.extra["kinds_seen"] = sorted(kinds)
        out.extra["delayed_injection"] = delayed_injection_part(out, wd, seed, 3 if tier == "quick" else 16)
        out.min_nontrivial = 4
        out.assumptions = ["NodeAddr / Members requests are left out (they rewrite raft membership files; C05)",
                           "instance timestamps and health are not part of the dump"]
        return out.finish()
    finally:
        shutil.rmtree(wd, ignore_errors=True)


def replay(path):
    w = json.load(open(path))
    common.build()
    wd = common.workdir("c07r")
    try:
        r = one_sequence((wd, w["witness"]["history_seed"], w["witness"].get("n", 150)))
        print(json.dumps(r, indent=1)[:3000])
        if r.get("violations"):
            print("VIOLATION property=C07 replay=%s" % path)
            return 1
        return 0
    finally:
        shutil.rmtree(wd, ignore_errors=True)
