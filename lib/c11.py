"""C11 — registry bookkeeping: counters, indexes and reverse maps always match the instances (rig: harness/src/c11.rs)."""
import json
import os
import shutil
import subprocess

import common
from common import Outcome

SHARDS = 16


def use_local_findings():
    """also honour <clone>/known_findings.local.json (proposed entries that are not yet in known_findings.json)"""
    base = common.load_findings
    if getattr(base, "_with_local", False):
        return

    def merged():
        f = dict(base())
        p = os.path.join(common.VERIF, "known_findings.local.json")
        if os.path.exists(p):
            f["known"] = list(f.get("known", [])) + json.load(open(p)).get("known", [])
        return f
    merged._with_local = True
    common.load_findings = merged


def run(tier, seed):
    use_local_findings()
    common.build()
    wd = common.workdir("c11")
    try:
        out = Outcome("C11", tier, seed)
        out.rule = (
            "stand-alone NamingActor (real code) driven by seeded histories over 2 namespaces x 2 groups x 3 services x 5 addresses x 4 client "
            "ids: Update from HTTP / gRPC / routed cluster writes, UpdateFromSync, UpdateBatch, Raft register/update/remove, every update-tag "
            "combination incl. heartbeats and console tags, health / enabled / weight changes, ephemeral<->persistent flips, Delete / DeleteBatch "
            "with matching / foreign / empty client id, RemoveClient(+FromCluster), ReceiveSnapshot, ClusterRefreshProcessRange, "
            "DiffGrpcDistroData, PerpetualHostSniffing, UpdateService, RemoveService, InitInstanceMeta, PeekListenerTimeout; 'timed' histories run "
            "on an actor injected with 3 s / 4 s time-outs and its own 2 s timer with real sleeps, 'long-timer' histories last 40 s so that the "
            "30 s empty-service clean-up runs. After EVERY operation: QueryServiceInfoPage counts vs QueryAllInstanceList, QueryServicePage "
            "lists every service with data exactly once and nothing non-existent, QueryClientInstanceCount vs instances carrying the client id; "
            "VerifNamingProbe: instance_size, healthy_instance_size, perpetual_host_set, client_instance_set (both directions), namespace_index "
            "and its service_size counter, no service vanishes while its last observation had instances; at the end of every history the "
            "service listing is walked page by page (page sizes 1-3, per namespace/group and across all namespaces) and must list every indexed "
            "service exactly once. evaluations = operations followed by a "
            "full observation; a shape = (operation kind incl. origin and tag class, prior state class of the target instance: absent or "
            "healthy/unhealthy x ephemeral/persistent x http/grpc/cluster-grpc/cluster-http) or, for multi-target operations, (kind, changed "
            "anything or not), plus one shape per InstanceUpdateTag combination (32) x target present/absent and per paged-walk class; every "
            "counted shape was executed against the real actor and fully observed")
        if tier == "quick":
            rounds = [dict(fast=20, ops=200, timed=16, long=2, timed_ms=13000)]
        else:
            rounds = [dict(fast=125, ops=200, timed=48, long=6, timed_ms=13000) for _ in range(5)]
        for ri, rd in enumerate(rounds):
            args = ["--fast", rd["fast"], "--ops", rd["ops"], "--timed", rd["timed"], "--long", rd["long"], "--timed-ms", rd["timed_ms"]]
            rwd = os.path.join(wd, "r%d" % ri)
            os.makedirs(rwd)
            try:
                reports = common.run_vh_shards("c11", SHARDS, args, rwd, 150, seed * 7 + ri)
            except common.Inconclusive:
                # one retry of a flaky sub-run
                shutil.rmtree(rwd, ignore_errors=True)
                os.makedirs(rwd)
                reports = common.run_vh_shards("c11", SHARDS, args, rwd, 150, seed * 7 + ri)
            out.absorb(common.merge_reports(reports))
        out.min_nontrivial = 150
        need = {"instance_removed_by_timeout": 5, "instance_marked_unhealthy_by_timeout": 5, "empty_service_dropped_by_timer": 3,
                "flip_ephemeral_to_persistent": 20, "flip_persistent_to_ephemeral": 20, "delete_refused_foreign_client": 20,
                "expiry_armed_key_removed_before_expiry": 3, "expiry_armed_key_replaced_by_non_expiring_instance": 3}
        short = {k: out.extra.get(k, 0) for k, v in need.items() if out.extra.get(k, 0) < v}
        out.assumptions = [
            "the actor is single-threaded; every query is a message, so each observation sees a quiescent state between two operations",
            "time-out paths use the configured 3 s / 4 s limits (defaults are 18 s / 33 s, same code); the 30 s empty-service limit is the hard-coded one",
            "cluster / Raft origins are injected as the messages those layers send (UpdateFromSync, UpdateBatch, NamingRaftReq, ...), not through a real cluster",
        ]
        if short and not out.violations:
            raise common.Inconclusive("mechanisms not exercised often enough: %s" % short)
        return out.finish()
    finally:
        shutil.rmtree(wd, ignore_errors=True)


def replay(path):
    common.build()
    p = subprocess.run([common.VH, "c11", "--replay", path], stdout=subprocess.PIPE, stderr=subprocess.STDOUT, text=True, timeout=600,
                       env=dict(os.environ, RUST_LOG="off"))
    print(p.stdout[-6000:])
    w = json.load(open(path))
    print("recorded signature:", w.get("signature"))
    return 1 if "REPLAY reproduced" in p.stdout else 0
