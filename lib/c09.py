"""C09 — config store: last write wins, md5 matches content, listings match store.

Layer 1 (`vh c09`, harness/src/c09.rs): stand-alone ConfigActor + reference model, many seeded histories per process.
Layer 2 (here): the same kind of history, thinner, through the real binary's HTTP APIs (OpenAPI publish/get/delete,
accurate + blur search, console v2 add/remove/info/list/history) with a python reference model, so that the endpoint
level parameter mapping (pageNo/pageSize -> offset/limit, tenant aliases, exact vs. like) is covered as well."""
import hashlib
import json
import random
import shutil
import time

import common
import procrig
from common import Outcome

V2 = "/rnacos/api/console/v2"
H_TENANTS = ["", "dev", "t-租户:1"]
H_GROUPS = ["DEFAULT_GROUP", "GRP.测试"]
H_DATA = ["app.yaml", "app-dev.yaml", "App.YAML", "路由:rules.json"]
LIKE_G = ["GR", "测", "_", "nomatch"]
LIKE_D = ["app", "yaml", ".", "YAML", "rules", "zzz"]
PAGE_SIZES = [1, 2, 7, 100]
TYPE_NORM = {"json": "json", "xml": "xml", "yml": "yaml", "yaml": "yaml", "html": "html", "toml": "toml", "properties": "properties"}


def md5(s):
    return hashlib.md5(s.encode("utf-8")).hexdigest()


def norm_type(t):
    return TYPE_NORM.get((t or "").lower(), "text")


class Violation(Exception):
    def __init__(self, sig, detail):
        Exception.__init__(self, sig)
        self.sig, self.detail = sig, detail


class HttpLayer:
    def __init__(self, node, rnd, out, token):
        self.n, self.r, self.out, self.tok = node, rnd, out, token
        self.model = {}      # key -> {content, types:set, descs:set, hist:[oldest..newest], lineage}
        self.removed = set()
        self.trace = []      # compact op log for the witness
        self.counter = 0
        self.last = {}

    # ---- requests
    def tparam(self, t, alias):
        if t == "":
            return {"tenant": "public"} if alias else {}
        return {"tenant": t}

    def publish(self, key, content, ctype, desc, via):
        t, g, d = key
        alias = self.r.random() < 0.3
        if via == "openapi":
            form = dict({"dataId": d, "group": g, "content": content}, **self.tparam(t, alias))
            if ctype is not None:
                form["type"] = ctype
            if desc is not None:
                form["desc"] = desc
            r = self.n.post("/nacos/v1/cs/configs", form=form)
            ok = r.status == 200 and r.text() == "true"
        else:
            body = dict({"dataId": d, "group": g, "content": content}, **self.tparam(t, alias))
            if ctype is not None:
                body["configType"] = ctype
            if desc is not None:
                body["desc"] = desc
            r = self.n.console("POST", V2 + "/config/add", token=self.tok, body=body)
            ok = r.status == 200 and (r.json() or {}).get("success") is True
        if not ok:
            raise common.Inconclusive("publish via %s refused: %s %s" % (via, r.status, r.text()[:200]))

    def remove(self, key, via):
        t, g, d = key
        if via == "openapi":
            r = self.n.delete("/nacos/v1/cs/configs", params=dict({"dataId": d, "group": g}, **self.tparam(t, False)))
            ok = r.status == 200 and r.text() == "true"
        else:
            r = self.n.console("POST", V2 + "/config/remove", token=self.tok, body=dict({"dataId": d, "group": g}, **self.tparam(t, False)))
            ok = r.status == 200 and (r.json() or {}).get("success") is True
        if not ok:
            raise common.Inconclusive("remove via %s refused: %s %s" % (via, r.status, r.text()[:200]))

    # ---- model
    def apply_publish(self, key, content, ctype, desc, via):
        m = self.model.get(key)
        if m is None:
            # openapi maps an empty type/desc to "not given"; console passes it on as given
            self.model[key] = {"content": content, "types": {norm_type(ctype)}, "descs": {desc or ""}, "hist": [content],
                               "lineage": "recreated-after-remove" if key in self.removed else "created-by-publish"}
            return "add-first"
        given_t = ctype is not None and not (via == "openapi" and ctype == "")
        given_d = desc is not None and not (via == "openapi" and desc == "")
        m["types"] = {norm_type(ctype)} if given_t else (m["types"] | {"text"})
        m["descs"] = {desc} if given_d else (m["descs"] | {""})
        if m["content"] != content:
            m["hist"].append(content)
            m["hist"] = m["hist"][-100:]
            m["content"] = content
            return "add-new"
        return "add-same"

    # ---- checks
    def check_key(self, key, cls):
        t, g, d = key
        self.out.evaluations += 2
        r = self.n.get("/nacos/v1/cs/configs", params=dict({"dataId": d, "group": g}, **self.tparam(t, self.r.random() < 0.3)))
        m = self.model.get(key)
        if m is None:
            if r.status != 404:
                raise Violation("http/get/data-served-after-remove/after-" + cls, {"key": key, "status": r.status, "body": r.text()[:100]})
            self.out.shape("http/get/not-found-after-remove")
        else:
            if r.status != 200:
                raise Violation("http/get/not-found-although-published/after-" + cls, {"key": key, "status": r.status, "body": r.text()[:100]})
            body = r.text()
            if body != m["content"]:
                raise Violation("http/get/content-is-not-the-last-published/after-" + cls, {"key": key, "served": body[:80], "expected": m["content"][:80]})
            hdr = {k.lower(): v for k, v in r.headers.items()}.get("content-md5")
            if hdr != md5(body):
                raise Violation("http/get/md5-does-not-match-content/after-" + cls, {"key": key, "content-md5": hdr, "md5_of_body": md5(body)})
        # console info: type, desc, md5 again
        r = self.n.console("GET", V2 + "/config/info", token=self.tok, params=dict({"dataId": d, "group": g}, **self.tparam(t, False)))
        j = r.json() or {}
        if m is None:
            if j.get("success") and (j.get("data") or {}).get("value") is not None:
                raise Violation("http/console-info/data-served-after-remove/after-" + cls, {"key": key, "answer": j})
            return
        data = j.get("data") or {}
        if not j.get("success") or data.get("value") != m["content"] or data.get("md5") != md5(m["content"]):
            raise Violation("http/console-info/content-or-md5-wrong/after-" + cls, {"key": key, "answer": str(j)[:300], "expected_md5": md5(m["content"])})
        at = norm_type(data.get("configType"))
        if at not in m["types"]:
            raise Violation("http/console-info/type-is-not-the-last-published/after-" + cls, {"key": key, "served": data.get("configType"), "acceptable": sorted(m["types"])})
        m["types"] = {at}
        ad = data.get("desc") or ""
        if ad not in m["descs"]:
            raise Violation("http/console-info/desc-is-not-the-last-published/after-" + cls, {"key": key, "served": ad, "acceptable": sorted(m["descs"])})
        m["descs"] = {ad}
        # history, one big page
        tot, lst = self.history(key, 1, 1000)
        want = list(reversed(m["hist"]))
        if [x.get("content") for x in lst] != want or tot != len(want):
            got = [x.get("content") for x in lst]
            if len(got) == len(want) + 1 and got[1:] == want:
                sym = "extra-entry/after-" + cls
            elif len(got) + 1 == len(want) and got == want[1:]:
                sym = "missing-newest-entry/after-" + cls
            elif len(got) > 100:
                sym = "more-than-100-entries"
            else:
                sym = "entries-differ/after-" + cls
            raise Violation("http/history/" + sym, {"key": key, "total": tot, "served": [c[:40] for c in got[:5]], "expected": [c[:40] for c in want[:5]],
                                                    "served_len": len(got), "expected_len": len(want)})
        if cls == "add-same":
            self.out.shape("http/history/unchanged-content-adds-no-entry")
        if len(want) == 100:
            self.out.shape("http/history/bounded-to-100")

    def history(self, key, page_no, page_size):
        t, g, d = key
        self.out.evaluations += 1
        r = self.n.console("GET", V2 + "/config/history", token=self.tok,
                           params=dict({"dataId": d, "group": g, "pageNo": page_no, "pageSize": page_size}, **self.tparam(t, False)))
        j = r.json() or {}
        if not j.get("success"):
            raise common.Inconclusive("history query refused: %s %s" % (r.status, r.text()[:200]))
        data = j.get("data") or {}
        return data.get("totalCount"), data.get("list") or []

    def matches(self, key, t, fam, gp, dp):
        kt, g, d = key
        if kt != t:
            return False
        if fam == "accurate":
            return (gp in (None, "") or gp == g) and (dp in (None, "") or dp == d)
        return (gp in (None, "") or gp in g) and (dp in (None, "") or dp in d)

    def page(self, fam, t, gp, dp, page_no, page_size, alias):
        self.out.evaluations += 1
        if fam == "console":
            p = dict({"pageNo": page_no, "pageSize": page_size}, **self.tparam(t, alias))
            if gp is not None:
                p["groupParam"] = gp
            if dp is not None:
                p["dataParam"] = dp
            r = self.n.console("GET", V2 + "/config/list", token=self.tok, params=p)
            j = r.json() or {}
            if not j.get("success"):
                raise common.Inconclusive("console list refused: %s %s" % (r.status, r.text()[:200]))
            data = j.get("data") or {}
            return data.get("totalCount"), data.get("list") or [], None
        p = dict({"search": "accurate" if fam == "accurate" else "blur", "pageNo": page_no, "pageSize": page_size}, **self.tparam(t, alias))
        if gp is not None:
            p["group"] = gp
        if dp is not None:
            p["dataId"] = dp
        r = self.n.get("/nacos/v1/cs/configs", params=p)
        j = r.json()
        if r.status != 200 or not isinstance(j, dict) or "totalCount" not in j:
            raise common.Inconclusive("search refused: %s %s" % (r.status, r.text()[:200]))
        return j.get("totalCount"), j.get("pageItems") or [], j.get("pagesAvailable")

    def check_listing(self, fam, t, gp, dp, size):
        must = {k for k in self.model if self.matches(k, t, fam, gp, dp)}
        f = {"endpoint": fam, "tenant": t, "group": gp, "dataId": dp, "pageSize": size}
        seen, totals, lens = set(), [], []
        page_no = 1
        alias = self.r.random() < 0.3
        while True:
            tot, items, avail = self.page(fam, t, gp, dp, page_no, size, alias)
            totals.append(tot)
            lens.append(len(items))
            if avail is not None and avail != -(-tot // size):
                raise Violation("http/%s/pages-available-wrong" % fam, {"filter": f, "pagesAvailable": avail, "total": tot})
            for it in items:
                k = (it.get("tenant"), it.get("group"), it.get("dataId"))
                if k not in self.model:
                    sym = "removed-key-listed" if k in self.removed else "unknown-key-listed"
                    raise Violation("http/%s/%s" % (fam, sym), {"filter": f, "item": k, "page": page_no})
                if k not in must:
                    raise Violation("http/%s/key-outside-filter-listed" % fam, {"filter": f, "item": k})
                if k in seen:
                    raise Violation("http/%s/key-listed-twice" % fam, {"filter": f, "item": k, "page": page_no})
                seen.add(k)
                if fam != "console":
                    if it.get("content") != self.model[k]["content"] or it.get("md5") != md5(self.model[k]["content"]):
                        raise Violation("http/%s/listed-content-or-md5-wrong" % fam, {"filter": f, "item": k, "md5": it.get("md5")})
            if (page_no - 1) * size >= max(tot, len(must)) or page_no > 300:
                break
            page_no += 1
        miss = sorted(must - seen)
        if miss:
            raise Violation("http/%s/stored-key-missing/%s" % (fam, self.model[miss[0]]["lineage"]), {"filter": f, "missing": miss[:3], "totals": totals, "page_lengths": lens})
        if any(x != len(must) for x in totals):
            raise Violation("http/%s/total-differs-from-matches" % fam, {"filter": f, "totals": totals, "stored_matching": len(must)})
        for i, ln in enumerate(lens):
            want = min(size, max(0, len(must) - i * size))
            if ln != want:
                raise Violation("http/%s/page-length-wrong" % fam, {"filter": f, "page": i + 1, "length": ln, "expected": want})
        if self.model:
            gc = "none" if gp is None else ("empty" if gp == "" else "set")
            dc = "none" if dp is None else ("empty" if dp == "" else "set")
            self.out.shape("http/list/%s/g=%s/d=%s/size%d/%s" % (fam, gc, dc, size, "empty" if not must else ("single-page" if len(must) <= size else "multi-page")))

    def sweep(self, n_filters):
        for t in H_TENANTS:
            cands = []
            for fam in ("accurate", "blur", "console"):
                gs = [None, ""] + (H_GROUPS + ["nosuch"] if fam == "accurate" else LIKE_G)
                ds = [None, ""] + (H_DATA + ["nosuch"] if fam == "accurate" else LIKE_D)
                cands += [(fam, g, d) for g in gs for d in ds]
            chosen = [("accurate", None, None), ("blur", None, None), ("console", None, None)] + self.r.sample(cands, n_filters)
            for fam, g, d in chosen:
                for size in PAGE_SIZES:
                    self.check_listing(fam, t, g, d, size)
        for key, m in list(self.model.items()):
            want = list(reversed(m["hist"]))
            for size in ([1, 2, 7, 100] if len(want) > 7 else [self.r.choice(PAGE_SIZES)]):
                got, p = [], 1
                while True:
                    tot, lst = self.history(key, p, size)
                    if tot != len(want):
                        raise Violation("http/history/page-total-wrong", {"key": key, "pageSize": size, "page": p, "total": tot, "expected": len(want)})
                    got += [x.get("content") for x in lst]
                    if p * size >= len(want) + size or p > 200:
                        break
                    p += 1
                if got != want:
                    raise Violation("http/history/pages-do-not-concatenate-to-the-history", {"key": key, "pageSize": size, "got_len": len(got), "want_len": len(want)})
                if len(want) > size:
                    self.out.shape("http/history-paging/size%d/multi-page" % size)

    def content(self, key):
        self.counter += 1
        c = self.r.random()
        if c < 0.22 and key in self.last:
            return self.last[key]
        if c < 0.27:
            return ("line-%d;\n" % self.counter) * self.r.randint(2000, 6000)
        if c < 0.45:
            return "配置-%d\n键=值 ünïcödé 🚀 %d" % (self.counter, self.r.randint(0, 9999))
        return "v%d: %d\nk=v & more = <x> \"q\" \t end" % (self.counter, self.r.randint(0, 1 << 30))

    def history_run(self, nops, sweep_every, n_filters):
        keys = [(t, g, d) for t in H_TENANTS for g in H_GROUPS for d in H_DATA]
        hot = self.r.choice(keys)
        prev_cls = {}
        for i in range(nops):
            key = hot if self.r.random() < 0.45 else self.r.choice(keys)
            via = "openapi" if self.r.random() < 0.6 else "console"
            if self.r.random() < 0.1:
                self.remove(key, via)
                cls = "remove" if key in self.model else "remove-absent"
                self.model.pop(key, None)
                self.removed.add(key)
                self.last.pop(key, None)
                self.trace.append(["remove", via, list(key)])
            else:
                content = self.content(key)
                ctype = self.r.choice([None, None, None, "yaml", "json", "YAML", "yml", "properties", "toml", "unknown-x", ""])
                desc = self.r.choice([None, None, None, "desc %d" % i, "说明 %d" % i, ""])
                self.publish(key, content, ctype, desc, via)
                cls = self.apply_publish(key, content, ctype, desc, via)
                self.last[key] = content
                self.trace.append(["publish", via, list(key), md5(content)[:8], len(content), ctype, desc])
            self.out.shape("http/op/%s>%s/%s" % (prev_cls.get(key, "none"), cls, via))
            prev_cls[key] = cls
            self.check_key(key, cls)
            if (i + 1) % sweep_every == 0 or i == nops - 1:
                self.sweep(n_filters)


def http_layer(out, wd, tier, seed):
    rnd = random.Random(seed * 7919 + 13)
    node = procrig.Node(wd, 1)
    try:
        node.start()
        tok, r = node.console_login()
        if not tok:
            raise common.Inconclusive("console login failed: %s" % (r.text()[:200] if r else None))
        layer = HttpLayer(node, rnd, out, tok)
        # positive control of the rig: an empty tenant lists nothing
        t0 = time.time()
        nops, every, nf = (320, 40, 6) if tier == "quick" else (1600, 80, 10)
        try:
            layer.history_run(nops, every, nf)
        except Violation as v:
            out.violation(v.sig, {"layer": "real binary over HTTP", "detail": v.detail, "last_ops": layer.trace[-25:], "ops_so_far": len(layer.trace)})
        out.extra["http_layer"] = {"ops": len(layer.trace), "wall_s": round(time.time() - t0, 1), "keys_stored_at_end": len(layer.model)}
        # observations outside the property's quantifier (page number / size 0 are not pages): recorded, never a verdict
        obs = {}
        for name, q in (("pageNo=0", {"pageNo": 0, "pageSize": 2}), ("pageSize=0", {"pageNo": 1, "pageSize": 0})):
            try:
                r = node.get("/nacos/v1/cs/configs", params=dict({"search": "accurate", "dataId": "", "group": ""}, **q), timeout=5)
                obs[name] = "%d %s" % (r.status, r.text()[:120])
            except Exception as e:     # noqa: a dropped connection is the observation
                obs[name] = "no response: %r" % (e,)
        obs["node_alive_afterwards"] = node.alive()
        out.extra["http_edge_observations_not_verdicts"] = obs
        if len(out.samples) < 10:
            out.samples.append({"layer": "http", "ops": len(layer.trace), "first_ops": layer.trace[:5]})
    finally:
        node.kill()


def run(tier, seed):
    common.build(need_bin=True)
    wd = common.workdir("c09")
    try:
        out = Outcome("C09", tier, seed)
        out.rule = ("layer 1: seeded histories of the messages the config state machine receives (ConfigRaftCmd::ConfigAdd/ConfigRemove/SetFullValue, "
                    "ConfigCmd::SetTmpValue/SetFullValue) over 3 tenants x 3 groups x 6 dataIds on a stand-alone ConfigActor (NamespaceActor injected); after "
                    "every operation GET + full history of the touched key, every ~20 operations a sweep paging through QueryPageInfo for the filter shapes "
                    "the OpenAPI accurate/blur search and the console list produce (page sizes 1,2,7,100, every page, one page beyond the end, one free "
                    "offset) and QueryHistoryPageInfo for every key; oracle = independent reference model (lenient on type/desc of a publish that carries "
                    "none, on history across a remove and on a publish that restores the pre-temporary content). layer 2: a thinner history through the "
                    "real binary's HTTP APIs. evaluations = operations + queries; distinct = (previous op class > op class per key), content classes, "
                    "(filter family, group/dataId filter kind, page size, empty/single/multi page) and history paging classes actually exercised")
        out.assumptions = ["keys follow the documented grammar (no \\x02 inside a part)",
                           "fuzzy (like/blur) filters mean substring containment, an empty filter means no filter",
                           "a temporary (routed-write) value may or may not be shown by reads and listings until its publish is applied; md5 must match whatever content is shown",
                           "imports carry at most 100 history entries (what a snapshot / backup of this system can contain)"]
        shards = 16
        per = 100 if tier == "quick" else 2200
        reports = common.run_vh_shards("c09", shards, ["--histories", per, "--ops", 150], wd, 140 if tier == "quick" else 800, seed)
        merged = common.merge_reports(reports)
        notes = {}
        for n in merged.get("notes", []):
            notes.setdefault(n.split(" e.g. ")[0], n)
        merged["notes"] = sorted(notes.values())
        out.absorb(merged)
        out.min_nontrivial = 60
        http_layer(out, wd, tier, seed)
        return out.finish()
    finally:
        shutil.rmtree(wd, ignore_errors=True)


def replay(path):
    w = json.load(open(path))
    print(json.dumps(w, indent=1, ensure_ascii=False)[:6000])
    return run(w.get("tier", "quick"), int(w.get("seed", 1)))
