"""Rig A store layer: drive `vh store-session` child processes with seeded histories, keep a reference
model of the Raft log, compare after every step / reopen, shrink failing histories by re-running the real code."""
import json
import os
import random
import shutil
import signal
import subprocess
import time

import common

BLANK = 4294967295  # len sentinel understood by vh: a Blank entry


class SessionDied(Exception):
    pass


class Session:
    def __init__(self, d, marker=None, preload=None, env=None):
        self.dir = d
        cmd = [common.VH, "store-session", "--dir", d]
        if marker:
            cmd += ["--marker", marker]
        e = dict(os.environ)
        e.setdefault("RUST_LOG", "off")
        if env:
            e.update(env)
        if preload:
            e["LD_PRELOAD"] = preload
        self.p = subprocess.Popen(cmd, stdin=subprocess.PIPE, stdout=subprocess.PIPE, stderr=subprocess.DEVNULL, env=e)
        line = self.p.stdout.readline()
        if not line:
            raise SessionDied("no ready line")
        self.ready = json.loads(line)
        self.base = self.ready.get("base_json_len", 0)
        self.n = 0

    def call(self, op, **kw):
        m = dict(kw)
        m["op"] = op
        extra = getattr(self, "extra", None)
        if extra:
            m.update(extra)
            self.extra = None
        if "mid" not in m:
            self.n += 1
            m["mid"] = self.n
        try:
            self.p.stdin.write((json.dumps(m) + "\n").encode())
            self.p.stdin.flush()
            line = self.p.stdout.readline()
        except (BrokenPipeError, OSError):
            raise SessionDied(op)
        if not line:
            raise SessionDied(op)
        return json.loads(line)

    def kill(self):
        try:
            self.p.send_signal(signal.SIGKILL)
        except Exception:
            pass
        self.p.wait()
        for f in (self.p.stdin, self.p.stdout):
            try:
                f.close()
            except Exception:
                pass

    def stop_quiescent(self):
        """stop point at which every acknowledged write has reached the OS"""
        self.call("sync", ms=80)
        self.kill()


def vlen(n):
    k = 1
    while n > 0x7F:
        n >>= 7
        k += 1
    return k


def rec_size(base, index, term, ln):
    """encoded LogRecord size (prefix included) of an entry"""
    v = 7 if ln == BLANK else base + ln  # "Blank" json = 7 bytes incl. quotes
    body = 0
    if index:
        body += 1 + vlen(index)
    if term:
        body += 1 + vlen(term)
    body += 1 + vlen(v) + v
    return vlen(body) + body


class Model:
    """reference log: index -> (term, kind, uid, len); updated only by acknowledged operations"""

    def __init__(self):
        self.e = {}
        self.max_ptr = 0       # highest pointer / split-off index ever submitted: at or below it entries may legitimately be gone
        self.ptrs = {}         # index -> (term, snap_id) submitted pointers
        self.hard = None

    def last(self):
        return max(self.e) if self.e else 0

    def first(self):
        return min(self.e) if self.e else 0


def expect_entry(m, i):
    t, kind, uid, ln = m.e[i]
    if kind == "blank":
        return [i, t, "blank", 0, 0, True]
    return [i, t, "normal", uid, ln, True]


def compare_read(model, lo, hi, got, strict_below=False):
    """returns None or (symptom, detail). Entries <= model.max_ptr may be absent / replaced by a submitted pointer."""
    prev = None
    seen = set()
    for g in got:
        i = g[0]
        if prev is not None and i <= prev:
            return ("order", {"at": i, "prev": prev})
        prev = i
        seen.add(i)
        if i < lo or i >= hi:
            return ("out-of-range-entry", {"index": i, "lo": lo, "hi": hi})
        if g[2] == "pointer":
            p = model.ptrs.get(i)
            if p is None or p[0] != g[1] or str(p[1]) != str(g[3]):
                return ("phantom", {"entry": g, "why": "pointer never submitted for this index"})
            continue
        if i not in model.e:
            return ("phantom", {"entry": g[:5], "model_last": model.last()})
        if g != expect_entry(model, i):
            return ("mismatch", {"got": g, "want": expect_entry(model, i)})
    for i in range(max(lo, model.max_ptr + 1), min(hi, model.last() + 1)):
        if i in model.e and i not in seen:
            return ("lost", {"index": i, "returned": len(got), "model_last": model.last(), "first_missing": i})
    return None


class History:
    """executes an op list against real sessions, checking after each step; returns a violation dict or None"""

    def __init__(self, wd, ops, check_every=True, preload=None):
        self.wd, self.ops, self.check_every, self.preload = wd, ops, check_every, preload
        self.model = Model()
        self.stats = {"reopens": 0, "compared_entries": 0, "cuts_effective": 0, "files_max": 1, "ptr_files": 0, "rejected": 0}
        self.trace = []

    def run(self):
        d = os.path.join(self.wd, "data")
        shutil.rmtree(d, ignore_errors=True)
        os.makedirs(d)
        s = Session(d, preload=self.preload)
        # what a node does at start-up before it ever appends: persist term/vote, membership and its own address
        s.call("save_hard_state", term=1, voted_for=1)
        s.call("save_member", members=[1], addrs={"1": "127.0.0.1:9848"})
        try:
            return self._run(s, d)
        finally:
            try:
                s_alive = self.sess
            except AttributeError:
                s_alive = s
            s_alive.kill()
            shutil.rmtree(d, ignore_errors=True)

    def _full_check(self, s, where):
        m = self.model
        r = s.call("read", lo=0, hi=m.last() + 5)
        if not r.get("ok"):
            return {"symptom": "read-error", "where": where, "detail": r}
        got = r["entries"]
        self.stats["compared_entries"] += len(got)
        bad = compare_read(m, 0, m.last() + 5, got)
        if bad:
            return {"symptom": bad[0], "where": where, "detail": bad[1]}
        st = s.call("initial_state")
        if not st.get("ok"):
            return {"symptom": "initial-state-error", "where": where, "detail": st}
        if m.e:
            lt = m.e[m.last()][0]
            # the property speaks about the last index/term a *reopened* store reports; inside one process the store
            # only refreshes its cached last term on the next append, which nothing in the system observes
            term_ok = st["last_log_term"] == lt or (where.startswith("after-delete_from") or where.startswith("after-pointer"))
            if st["last_log_index"] != m.last() or not term_ok:
                # a pointer entry may be the last one
                if not (m.last() <= m.max_ptr):
                    return {"symptom": "wrong-last-index", "where": where,
                            "detail": {"got": [st["last_log_index"], st["last_log_term"]], "want": [m.last(), lt]}}
        return None

    def _run(self, s, d):
        m = self.model
        self.sess = s
        for k, op in enumerate(self.ops):
            name = op["op"]
            # placeholders resolved against the running store / model (roll-over histories)
            if isinstance(op.get("k"), str) and op["k"].startswith("@rollover"):
                info = s.call("index_info")
                logs = info.get("logs", [])
                if len(logs) < 2:
                    return {"symptom": "no-rollover-happened", "where": "op@%d" % k, "detail": info}
                op = dict(op)
                op["k"] = logs[-1]["start"] + int(op["k"][len("@rollover"):] or 0)
                self.stats["files_max"] = max(self.stats["files_max"], len(logs))
            if op.get("from") == "@next":
                op = dict(op)
                op["from"] = m.last() + 1
            if name == "reopen":
                s.stop_quiescent()
                s = Session(d, preload=self.preload)
                self.sess = s
                self.stats["reopens"] += 1
                if not s.ready.get("ready"):
                    return {"symptom": "reopen-failed", "where": "reopen@%d" % k, "detail": s.ready}
                v = self._full_check(s, "after-reopen@%d" % k)
                if v:
                    v["after_reopen"] = True
                    return v
                continue
            if "apply_storm" in op:
                s.extra = {"apply_storm": op["apply_storm"], "apply_k": op.get("apply_k", 0)}
            if name == "append":
                r = s.call("append" if op["len"] != BLANK else "blank", index=op["index"], term=op["term"], uid=op.get("uid", 0), len=op["len"])
                if r.get("ok"):
                    if op["index"] != m.last() + 1 and m.e:
                        return {"symptom": "append-accepted-at-wrong-index", "where": "op@%d" % k, "detail": {"index": op["index"], "model_last": m.last()}}
                    m.e[op["index"]] = (op["term"], "blank" if op["len"] == BLANK else "normal", op.get("uid", 0), 0 if op["len"] == BLANK else op["len"])
                else:
                    self.stats["rejected"] += 1
                    if op["index"] == m.last() + 1 and m.e:
                        return {"symptom": "append-rejected", "where": "op@%d" % k, "detail": {"index": op["index"], "resp": r, "after": self.ops[k - 1]["op"] if k else None}}
            elif name == "batch":
                r = s.call("batch", entries=op["entries"])
                first = op["entries"][0][0] if op["entries"] else None
                if r.get("ok"):
                    if first is not None and first != m.last() + 1 and m.e:
                        return {"symptom": "append-accepted-at-wrong-index", "where": "op@%d" % k, "detail": {"index": first, "model_last": m.last()}}
                    for (i, t, uid, ln) in op["entries"]:
                        m.e[i] = (t, "blank" if ln == BLANK else "normal", uid, 0 if ln == BLANK else ln)
                else:
                    self.stats["rejected"] += 1
                    if first == m.last() + 1 and m.e:
                        return {"symptom": "append-rejected", "where": "op@%d" % k, "detail": {"index": first, "resp": r, "after": self.ops[k - 1]["op"] if k else None}}
            elif name == "append_many":
                r = s.call("append_many", timeout_s=900, **{x: op[x] for x in ("from", "n", "term", "uid0", "lens", "batch")})
                done = r.get("done", 0)
                for j in range(done):
                    ln = op["lens"][j % len(op["lens"])]
                    m.e[op["from"] + j] = (op["term"], "blank" if ln == BLANK else "normal", op["uid0"] + j, 0 if ln == BLANK else ln)
                if done < op["n"] and op["from"] == (m.last() - done) + 1:
                    return {"symptom": "append-rejected", "where": "op@%d" % k, "detail": {"resp": r, "bulk": True}}
            elif name == "delete_from":
                kcut = op["k"]
                r = s.call("delete_from", k=kcut)
                if not r.get("ok"):
                    return {"symptom": "delete-error", "where": "op@%d" % k, "detail": r}
                removed = [i for i in m.e if i >= kcut]
                if removed:
                    self.stats["cuts_effective"] += 1
                for i in removed:
                    del m.e[i]
                # right after the cut nothing at or above k may be readable (not probed in sparsely observed histories)
                rr = s.call("read", lo=kcut, hi=kcut + 1000000) if self.check_every else {}
                if rr.get("ok") and rr["entries"]:
                    return {"symptom": "suffix-still-readable", "where": "op@%d" % k, "detail": {"k": kcut, "returned": len(rr["entries"]), "first": rr["entries"][0][:5]}}
            elif name in ("pointer_build", "pointer_install"):
                r = s.call(name, index=op["index"], term=op["term"], snap_id=op["snap_id"], members=[1])
                if not r.get("ok"):
                    return {"symptom": "pointer-error", "where": "op@%d" % k, "detail": r}
                m.ptrs[op["index"]] = (op["term"], op["snap_id"])
                m.max_ptr = max(m.max_ptr, op["index"])
            elif name == "split_off":
                r = s.call("split_off", k=op["k"])
                m.max_ptr = max(m.max_ptr, op["k"] - 1)
            elif name == "read":
                r = s.call("read", lo=op["lo"], hi=op["hi"])
                if not r.get("ok"):
                    return {"symptom": "read-error", "where": "op@%d" % k, "detail": r}
                self.stats["compared_entries"] += len(r["entries"])
                bad = compare_read(m, op["lo"], op["hi"], r["entries"])
                if bad:
                    return {"symptom": bad[0], "where": "read@%d" % k, "detail": bad[1]}
                continue
            elif name == "sleep":
                s.call("sleep", ms=op["ms"])
                continue
            if self.check_every:
                v = self._full_check(s, "after-%s@%d" % (name, k))
                if v:
                    return v
        # final: observe the catalogue for coverage accounting
        info = s.call("index_info")
        if info.get("ok"):
            logs = info.get("logs", [])
            self.stats["files_max"] = max(self.stats["files_max"], len(logs))
            self.stats["ptr_files"] = sum(1 for l in logs if l["close"] and l["count"] == 1)
        return None


# ------------------------------------------------------------------ history generation

class Gen:
    def __init__(self, rnd, base, bias="mixed"):
        self.r, self.base, self.bias = rnd, base, bias
        self.ops = []
        self.last = 0
        self.term = 1
        self.uid = rnd.randrange(1, 10**6) * 1000
        self.sizes = {}     # index -> record size (for alignment arithmetic)
        self.lens = {}
        self.file_start = 1  # first index of the open file (tracking is approximate after pointers)
        self.max_ptr = 0
        self.snap = 0
        self.features = set()

    def _uid(self):
        self.uid += 1
        return self.uid

    def tail_pos(self):
        """bytes written in the open file since the last index entry (scan start)"""
        n = self.last - self.file_start + 1
        full = (n // 128) * 128
        return sum(self.sizes.get(i, 0) for i in range(self.file_start + full, self.last + 1))

    def pick_len(self):
        r = self.r
        c = r.random()
        idx, term = self.last + 1, self.term
        if c < 0.22:
            # land the record end on / next to a 1024-byte scan boundary
            pos = self.tail_pos()
            delta = r.choice([0, 0, 0, -1, 1])
            mult = r.choice([1, 1, 2])
            target = ((pos // 1024) + mult) * 1024 + delta - pos
            ln = target - rec_size(self.base, idx, term, 0)
            for adj in (0, -1, 1, -2, 2):
                if ln + adj >= 0 and rec_size(self.base, idx, term, ln + adj) == target:
                    self.features.add("aligned%+d" % delta)
                    return ln + adj
            return max(0, ln)
        if c < 0.45:
            return BLANK
        if c < 0.55:
            return r.choice([0, 1, 2])
        if c < 0.62:
            return r.randrange(800, 1300)
        if c < 0.66:
            return r.randrange(3000, 9000)
        if c < 0.665:
            return 1024 * 1024 + r.randrange(0, 5000)
        return r.randrange(0, 400)

    def add_entry(self, ln):
        self.last += 1
        self.sizes[self.last] = rec_size(self.base, self.last, self.term, ln)
        self.lens[self.last] = ln
        return [self.last, self.term, 0 if ln == BLANK else self._uid(), ln]

    def op_append(self):
        e = self.add_entry(self.pick_len())
        self.ops.append({"op": "append", "index": e[0], "term": e[1], "uid": e[2], "len": e[3]})

    def op_batch(self, n=None):
        r = self.r
        n = n or r.choice([1, 2, 3, 10, 50, 127, 128, 129, 200, 300])
        mode = r.random()
        es = []
        for _ in range(n):
            if mode < 0.4:
                ln = BLANK
            elif mode < 0.7:
                ln = r.randrange(0, 60)
            else:
                ln = self.pick_len()
                if ln != BLANK and ln > 100000:
                    ln = 500
            es.append(self.add_entry(ln))
        self.ops.append({"op": "batch", "entries": es})

    def op_delete(self):
        r = self.r
        lo = max(self.max_ptr + 1, self.file_start if r.random() < 0.8 else 1, 1)
        if self.last < lo:
            return
        n_in_file = self.last - self.file_start + 1
        cands = []
        cls = r.choice(["last", "last-1", "inside", "on128", "on128+1", "on128-1", "file-first", "beyond"])
        if cls == "last":
            k = self.last
        elif cls == "last-1":
            k = self.last - 1
        elif cls == "inside":
            k = r.randrange(lo, self.last + 1)
        elif cls.startswith("on128"):
            js = [self.file_start + 128 * j for j in range(0, n_in_file // 128 + 1)]
            k = r.choice(js) + {"on128": 0, "on128+1": 1, "on128-1": -1}[cls]
        elif cls == "file-first":
            k = self.file_start
        else:
            k = self.last + r.choice([1, 2, 50])
        k = max(lo, k)
        self.features.add("cut:" + cls)
        # does the cut cross an index entry?
        if k <= self.last:
            j_k = (k - self.file_start) // 128
            j_l = (self.last + 1 - self.file_start) // 128
            if j_l > j_k:
                w = sum(self.sizes.get(i, 0) for i in range(self.file_start + (j_l - 1) * 128, self.file_start + j_l * 128))
                self.features.add("cut-crosses-index-entry/delta%d" % vlen(w))
            for i in range(k, self.last + 1):
                self.sizes.pop(i, None)
                self.lens.pop(i, None)
            self.last = k - 1
            if r.random() < 0.5:
                self.term += 1
        self.ops.append({"op": "delete_from", "k": k})
        if self.r.random() < 0.3:
            # a busy node applies entries while the conflict is resolved (the apply position is below every cut)
            self.ops[-1].update({"apply_storm": self.r.choice([10, 60]), "apply_k": 0})

    def op_pointer(self):
        if self.last < 3 or self.max_ptr + 1 >= self.last:
            return
        idx = self.r.randrange(max(self.max_ptr + 1, 1), self.last)  # strictly below last: entries after it stay
        if idx <= self.max_ptr:
            return
        self.snap += 1
        self.max_ptr = idx
        self.ops.append({"op": "pointer_build", "index": idx, "term": self.term, "snap_id": self.snap})
        if self.r.random() < 0.3:
            self.ops[-1].update({"apply_storm": self.r.choice([10, 60]), "apply_k": 0})
        self.features.add("pointer")

    def op_read(self):
        # half of the reads are those of a replication stream: each starts where the previous one ended (also when a truncation
        # and re-appends of other sizes happened in between)
        cur = getattr(self, "cursor", None)
        if cur is not None and self.r.random() < 0.5:
            lo = cur
            self.features.add("sequential-read")
        else:
            lo = self.r.randrange(0, self.last + 2)
        hi = lo + self.r.choice([1, 2, 5, 130, 1000])
        self.cursor = min(hi, self.last + 1)
        self.ops.append({"op": "read", "lo": lo, "hi": hi})

    def generate(self, n_ops, reopen_p=0.04):
        r = self.r
        self.op_append()
        for _ in range(n_ops):
            c = r.random()
            if self.bias == "truncate":
                table = [(0.30, self.op_append), (0.50, self.op_batch), (0.78, self.op_delete), (0.83, self.op_pointer), (0.93, self.op_read)]
            else:
                table = [(0.45, self.op_append), (0.65, self.op_batch), (0.73, self.op_delete), (0.78, self.op_pointer), (0.93, self.op_read)]
            for p, f in table:
                if c < p:
                    f()
                    break
            else:
                if r.random() < 0.5 or reopen_p <= 0:
                    self.op_append()
                else:
                    self.ops.append({"op": "reopen"})
            if r.random() < reopen_p:
                self.ops.append({"op": "reopen"})
        self.ops.append({"op": "reopen"})
        return self.ops


def classify(ops, viol):
    """signature of a (shrunk) failing history"""
    kinds = [o["op"] for o in ops]
    feats = []
    dels = [o for o in ops if o["op"] == "delete_from"]
    if dels:
        feats.append("cut")
    if "pointer_build" in kinds or "pointer_install" in kinds or "split_off" in kinds:
        feats.append("ptr")
    if "reopen" in kinds[:-1] or viol.get("after_reopen"):
        feats.append("reopen")
    n_entries = sum(1 if o["op"] == "append" else len(o.get("entries", [])) if o["op"] == "batch" else o.get("n", 0) if o["op"] == "append_many" else 0 for o in ops)
    feats.append("n>=128" if n_entries >= 128 else "n<128")
    return "%s/%s" % (viol["symptom"], "+".join(feats))


def shrink(wd, ops, viol, budget_s=60, preload=None, check_every=True):
    """ddmin on the op list, re-running the real code; keeps the symptom fixed"""
    t0 = time.time()
    sym = viol["symptom"]
    cur, curv = list(ops), viol
    n = 2
    runs = 0
    while len(cur) >= 2 and time.time() - t0 < budget_s:
        chunk = max(1, len(cur) // n)
        reduced = False
        for i in range(0, len(cur), chunk):
            cand = cur[:i] + cur[i + chunk:]
            if not cand:
                continue
            if cand[-1]["op"] != "reopen" and curv.get("after_reopen"):
                cand = cand + [{"op": "reopen"}]
            try:
                v = History(wd, cand, check_every=check_every).run()
            except SessionDied:
                v = None
            runs += 1
            if v and v["symptom"] == sym:
                cur, curv = cand, v
                n = max(n - 1, 2)
                reduced = True
                break
            if time.time() - t0 > budget_s:
                break
        if not reduced:
            if chunk == 1:
                break
            n = min(len(cur), n * 2)
    return cur, curv, runs
