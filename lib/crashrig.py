"""Rig C: run a store-session history under the write-journal shim, then materialise the directory image after every
journal prefix and start the real recovery code on it (C04 crash consistency, C05 durability of raft metadata)."""
import json
import os
import random
import shutil
import subprocess
import time

import common
import storerig
from storerig import BLANK, Session, SessionDied

SHIM_SRC = os.path.join(common.VERIF, "shim", "journal.c")
SHIM_SO = os.path.join(common.CACHE, "journal.so")


def build_shim():
    os.makedirs(common.CACHE, exist_ok=True)
    if not os.path.exists(SHIM_SO) or os.path.getmtime(SHIM_SO) < os.path.getmtime(SHIM_SRC):
        p = subprocess.run(["gcc", "-O2", "-shared", "-fPIC", "-o", SHIM_SO + ".tmp", SHIM_SRC, "-ldl", "-lpthread"],
                           stdout=subprocess.PIPE, stderr=subprocess.STDOUT, text=True)
        if p.returncode != 0:
            raise common.Inconclusive("shim build failed: " + p.stdout[-2000:])
        os.replace(SHIM_SO + ".tmp", SHIM_SO)
    return SHIM_SO


def parse_journal(path, root):
    """-> list of records: ('W', rel, off, bytes) ('T', rel, len) ('U', rel) ('R', a, b) ('C', rel) ('M', text)"""
    data = open(path, "rb").read()
    out = []
    i = 0
    n = len(data)
    rootb = root.rstrip("/").encode() + b"/"

    def rel(p):
        return p[len(rootb):].decode() if p.startswith(rootb) else None

    while i < n:
        j = data.index(b"\n", i)
        line = data[i:j]
        i = j + 1
        kind = line[:1]
        if kind == b"W":
            _, seq, off, ln, p = line.split(b" ", 4)
            ln = int(ln)
            payload = data[i:i + ln]
            i += ln + 1
            r = rel(p)
            if r is not None:
                out.append(("W", r, int(off), payload))
        elif kind == b"T":
            _, seq, ln, p = line.split(b" ", 3)
            r = rel(p)
            if r is not None:
                out.append(("T", r, int(ln)))
        elif kind == b"U":
            _, seq, p = line.split(b" ", 2)
            r = rel(p)
            if r is not None:
                out.append(("U", r))
        elif kind == b"C":
            _, seq, p = line.split(b" ", 2)
            r = rel(p)
            if r is not None:
                out.append(("C", r))
        elif kind == b"R":
            _, seq, rest = line.split(b" ", 2)
            a, b = rest.split(b"\t")
            out.append(("R", rel(a), rel(b)))
        elif kind == b"M":
            _, seq, text = line.split(b" ", 2)
            t = text.decode().strip()
            if not t.endswith(" 0"):     # id 0 = the harness's own sync barriers
                out.append(("M", t))
    return out


class Image:
    """directory content after a journal prefix, kept in memory"""

    def __init__(self):
        self.files = {}

    def apply(self, rec):
        k = rec[0]
        if k == "W":
            _, p, off, b = rec
            f = self.files.setdefault(p, bytearray())
            if len(f) < off:
                f.extend(b"\0" * (off - len(f)))
            f[off:off + len(b)] = b
        elif k == "T":
            _, p, ln = rec
            f = self.files.setdefault(p, bytearray())
            if len(f) > ln:
                del f[ln:]
            else:
                f.extend(b"\0" * (ln - len(f)))
        elif k == "U":
            self.files.pop(rec[1], None)
        elif k == "C":
            self.files[rec[1]] = bytearray()
        elif k == "R":
            if rec[1] in self.files:
                self.files[rec[2]] = self.files.pop(rec[1])

    def materialise(self, d):
        shutil.rmtree(d, ignore_errors=True)
        os.makedirs(d)
        for p, b in self.files.items():
            if p.endswith(".marker") or p == "db_lock":
                continue
            fp = os.path.join(d, p)
            os.makedirs(os.path.dirname(fp), exist_ok=True)
            with open(fp, "wb") as f:
                f.write(b)

    def digest(self):
        import hashlib
        h = hashlib.md5()
        for p in sorted(self.files):
            if p.endswith(".marker") or p == "db_lock":
                continue
            h.update(p.encode())
            h.update(bytes(self.files[p]))
        return h.hexdigest()


def recover(d, timeout=30, tail=None):
    """start the real recovery code on an image; returns the observable state or an error marker.
    tail=N: for very long logs only the last N entries are returned verbatim, the rest as a verified summary"""
    try:
        s = Session(d)
    except SessionDied:
        return {"recovered": False, "why": "session died at start-up"}
    try:
        if not s.ready.get("ready"):
            return {"recovered": False, "why": "initial state failed", "detail": s.ready}
        out = {"recovered": True, "state": s.ready.get("state")}
        lo = 0
        if tail:
            h = s.call("read", lo=0, hi=10**9, compact=True)
            if not h.get("ok"):
                return {"recovered": False, "why": "read failed", "detail": h}
            out["head"] = h
            if h.get("last"):
                lo = max(0, h["last"][0] - tail)
        r = s.call("read", lo=lo, hi=10**9)
        if not r.get("ok"):
            return {"recovered": False, "why": "read failed", "detail": r}
        out["entries"] = r["entries"]
        out["membership"] = s.call("membership")
        out["index_info"] = s.call("index_info")
        out["snapshot"] = s.call("current_snapshot")
        out["addr1"] = s.call("get_addr", id=1).get("addr")
        out["addr2"] = s.call("get_addr", id=2).get("addr")
        return out
    except SessionDied as e:
        return {"recovered": False, "why": "session died during %s" % e}
    finally:
        s.kill()


# ------------------------------------------------------------------ history with metadata ops

class MetaGen:
    """short store-layer histories that contain every multi-step mutation of the raft files"""

    def __init__(self, rnd, base, profile="mixed"):
        self.r, self.base, self.profile = rnd, base, profile
        self.ops = []
        self.last = 0
        self.term = 1
        self.uid = rnd.randrange(1, 10**6) * 1000
        self.applied = 0
        self.max_ptr = 0
        self.snap = 0
        self.vote = 1
        self.features = set()

    def entry(self, ln):
        self.last += 1
        self.uid += 1
        return [self.last, self.term, 0 if ln == BLANK else self.uid, ln]

    def pick_len(self):
        r = self.r
        return r.choice([BLANK, BLANK, 0, 5, 40, 300, 900, 1017, 2500])

    def step(self):
        r = self.r
        c = r.random()
        meta_bias = 0.45 if self.profile == "meta" else 0.18
        if self.profile == "cutidx" and c < 0.5:
            # truncations that cross one or more 128-record index entries of the open file
            if self.last - max(self.max_ptr, self.applied) < 140:
                n = r.choice([129, 200, 300])
                self.ops.append({"op": "batch", "entries": [self.entry(r.choice([BLANK, 3, 60, 200])) for _ in range(n)]})
                self.features.add("batch")
            else:
                lo = max(self.max_ptr, self.applied) + 1
                k = r.randrange(lo, max(lo + 1, self.last - 128))
                self.ops.append({"op": "delete_from", "k": k})
                self.last = k - 1
                self.term += 1
                self.features.add("truncate-across-index-entry")
                e = self.entry(self.pick_len())
                self.ops.append({"op": "append", "index": e[0], "term": e[1], "uid": e[2], "len": e[3]})
            return
        if self.profile == "meta" and c > 0.97:
            self.ops.append({"op": "sleep", "ms": 260})      # lets delayed / debounced writers fire inside the history
            return
        if self.profile == "snap" and c < 0.35:
            # apply-then-compact cycles: CompleteSnapshot unlinks the oldest snapshot from the third one on
            if self.last > self.applied:
                self.applied = self.last
                self.ops.append({"op": "save_applied", "k": self.applied})
            if self.applied > self.max_ptr + 1:
                idx = self.applied
                self.snap += 1
                self.max_ptr = idx
                self.ops.append({"op": "snapshot_build", "last_index": idx, "last_term": self.term, "records": r.choice([1, 5, 30]), "rec_len": r.choice([10, 500])})
                self.ops.append({"op": "pointer_build", "index": idx, "term": self.term, "snap_id": self.snap})
                self.features.add("snapshot+pointer")
                return
        if c < meta_bias:
            k = r.random()
            if k < 0.4:
                if r.random() < 0.6:
                    self.term += r.choice([1, 1, 2])
                self.vote = r.choice([None, 1, 2, 3])
                self.ops.append({"op": "save_hard_state", "term": self.term, "voted_for": self.vote})
                self.features.add("hard_state")
            elif k < 0.65:
                members = r.choice([[1], [1, 2], [1, 2, 3]])
                after = r.choice([None, None, [1, 2, 3]])
                addrs = r.choice([None, {str(i): "10.0.0.%d:%d" % (i, r.choice([98, 9848, 19848])) for i in members}])
                op = {"op": "save_member", "members": members}
                if after:
                    op["after"] = after
                if addrs:
                    op["addrs"] = addrs
                self.ops.append(op)
                self.features.add("member")
            elif k < 0.85:
                self.ops.append({"op": "add_addr", "id": r.choice([1, 2, 3]), "addr": "h%d.example%s:%d" % (r.randrange(99), "x" * r.choice([0, 3, 40]), 9848)})
                self.features.add("addr")
            else:
                if self.last > self.applied:
                    self.applied = r.randrange(self.applied + 1, self.last + 1)
                    self.ops.append({"op": "save_applied", "k": self.applied})
                    self.features.add("applied")
            return
        if c < 0.55:
            e = self.entry(self.pick_len())
            self.ops.append({"op": "append", "index": e[0], "term": e[1], "uid": e[2], "len": e[3]})
        elif c < 0.75:
            n = r.choice([2, 3, 8, 30, 129])
            self.ops.append({"op": "batch", "entries": [self.entry(r.choice([BLANK, 3, 60])) for _ in range(n)]})
            self.features.add("batch")
        elif c < 0.83:
            lo = max(self.max_ptr, self.applied) + 1
            if self.last >= lo:
                k = r.randrange(lo, self.last + 1)
                self.ops.append({"op": "delete_from", "k": k})
                self.last = k - 1
                self.term += 1
                self.features.add("truncate")
        elif c < 0.90:
            if self.applied > self.max_ptr + 1:
                idx = r.randrange(self.max_ptr + 1, self.applied + 1)
                self.snap += 1
                self.max_ptr = idx
                self.ops.append({"op": "snapshot_build", "last_index": idx, "last_term": self.term, "records": r.choice([0, 3, 40]), "rec_len": r.choice([10, 1000])})
                self.ops.append({"op": "pointer_build", "index": idx, "term": self.term, "snap_id": self.snap})
                self.features.add("snapshot+pointer")
        elif c < 0.93:
            self.ops.append({"op": "reopen"})
            self.features.add("reopen")
        else:
            self.ops.append({"op": "read", "lo": 0, "hi": self.last + 2})

    def generate(self, n):
        self.ops.append({"op": "save_hard_state", "term": 1, "voted_for": 1})
        self.ops.append({"op": "save_member", "members": [1], "addrs": {"1": "127.0.0.1:9848"}})
        for _ in range(n):
            before = len(self.ops)
            self.step()
            # the apply stream of a busy node runs next to whatever the store is doing: some operations get a burst of
            # fire-and-forget last-applied writes (value = what was applied so far) issued while they run
            if len(self.ops) > before and self.r.random() < 0.2:
                op = self.ops[-1]
                if op["op"] in ("save_hard_state", "save_member", "add_addr", "delete_from", "pointer_build", "batch", "append"):
                    op["apply_storm"] = self.r.choice([4, 12])
                    op["apply_k"] = self.applied
                    self.features.add("apply-stream")
        return self.ops


def run_journaled(wd, ops):
    """execute ops sequentially under the shim; returns (journal records, op table by id)"""
    so = build_shim()
    d = os.path.join(wd, "live")
    shutil.rmtree(d, ignore_errors=True)
    os.makedirs(d)
    jpath = os.path.join(wd, "journal")
    if os.path.exists(jpath):
        os.remove(jpath)
    env = {"VERIF_JOURNAL": jpath, "VERIF_JOURNAL_DIR": d}
    marker = os.path.join(d, "ops.marker")
    table = {}
    opid = 0
    s = Session(d, marker=marker, preload=so, env=env)
    try:
        for op in ops:
            if op["op"] == "reopen":
                s.call("sync", ms=60, mid=0)
                s.kill()
                s = Session(d, marker=marker, preload=so, env=env)
                s.n = opid
                if not s.ready.get("ready"):
                    raise common.Inconclusive("live reopen failed: %s" % s.ready)
                continue
            opid += 1
            s.n = opid - 1
            kw = {k: v for k, v in op.items() if k != "op"}
            r = s.call(op["op"], **kw)
            table[opid] = (op, r)
        s.call("sync", ms=80, mid=0)
    finally:
        s.kill()
    recs = parse_journal(jpath, d)
    shutil.rmtree(d, ignore_errors=True)
    os.remove(jpath)
    return recs, table


class PrefixModel:
    """what the markers of a journal prefix allow"""

    def __init__(self, table):
        self.table = table

    def evaluate(self, markers):
        """markers: list of 'S n' / 'A n' / 'E n' strings in order. Returns dict with the acknowledged model + in-flight op"""
        submitted, acked = [], set()
        for m in markers:
            kind, n = m.split()
            n = int(n)
            if kind == "S":
                submitted.append(n)
            elif kind == "A":
                acked.add(n)
            elif kind == "E":
                acked.add(-n)
        return submitted, acked


def entries_of(op):
    if op["op"] == "append":
        return [[op["index"], op["term"], op.get("uid", 0), op["len"]]]
    if op["op"] == "batch":
        return op["entries"]
    return []


_ROWS = {}


def rows_of(op):
    """JSON rows of the entries an op submits (memoised on the op)"""
    # the op object itself is kept in the memo: as long as it is referenced its id cannot be handed to another object
    # (histories run concurrently in one process and free their ops when they end; a bare id() key was reused by later ops)
    ent = _ROWS.get(id(op))
    if ent is None or ent[0] is not op:
        ent = (op, frozenset(json.dumps(expect_row(e)) for e in entries_of(op)))
        _ROWS[id(op)] = ent
    return ent[1]


def expect_row(e):
    i, t, uid, ln = e
    return [i, t, "blank", 0, 0, True] if ln == BLANK else [i, t, "normal", uid, ln, True]


def check_image(table, markers, rec):
    """oracle for one crash image. Returns list of (clause, detail)."""
    out = []
    if not rec.get("recovered"):
        return [("recovery-failed", {"why": rec.get("why"), "detail": json.dumps(rec.get("detail"))[:300]})]
    submitted, acked = [], set()
    for m in markers:
        kind, n = m.split()
        if kind == "S":
            submitted.append(int(n))
        elif kind == "A":
            acked.add(int(n))
    inflight = [n for n in submitted if n not in acked and ("E %d" % n) not in markers]
    # ---- log model from acknowledged operations, in order
    log = {}
    all_submitted_rows = set()
    max_ptr = 0
    pending_cut = None       # an acknowledged truncation is performed by the log actor later (fire-and-forget); it is only
    last_applied_ok = 0      # guaranteed once a later log write has been acknowledged
    hard = [None]
    members = [None]
    addrs = {}
    addr_hist = {}
    snaps = []
    for n in submitted:
        op, resp = table[n]
        name = op["op"]
        all_submitted_rows |= rows_of(op)
        is_ack = n in acked
        if name in ("append", "batch"):
            if is_ack:
                if pending_cut is not None:
                    for i in [i for i in log if i >= pending_cut]:
                        del log[i]
                    pending_cut = None
                for e in entries_of(op):
                    log[e[0]] = e
        elif name == "delete_from":
            # acknowledged or still in flight: from here on the suffix may be gone at any moment
            if pending_cut is not None:
                for i in [i for i in log if i >= pending_cut]:
                    del log[i]
            pending_cut = op["k"]
        elif name in ("pointer_build", "pointer_install"):
            max_ptr = max(max_ptr, op["index"])
        elif name == "split_off":
            max_ptr = max(max_ptr, op["k"] - 1)
    # required entries: acknowledged, not behind an acknowledged cut, above every submitted pointer
    got = rec["entries"]
    prev = None
    seen = {}
    head = rec.get("head")
    first_verbatim = got[0][0] if got else 0
    if head:
        # long log: everything below the verbatim tail was checked inside the session (contiguous, payloads regenerate)
        if not head.get("contiguous") or not head.get("all_ok"):
            out.append(("log-not-contiguous" if not head.get("contiguous") else "entry-never-submitted", {"summary": {k: head.get(k) for k in ("count", "first", "last", "bad")}}))
        if head.get("first") and head.get("last") and head["count"] != head["last"][0] - head["first"][0] + 1:
            out.append(("log-not-contiguous", {"summary_count": head["count"], "first": head["first"][0], "last": head["last"][0]}))
    for g in got:
        if prev is not None and g[0] != prev + 1:
            out.append(("log-not-contiguous", {"at": g[0], "prev": prev}))
            break
        prev = g[0]
        seen[g[0]] = g
        if g[2] == "pointer":
            continue
        if json.dumps(g) not in all_submitted_rows:
            out.append(("entry-never-submitted", {"entry": g[:5]}))
            break
    # the reported end of the log is the last readable entry (otherwise the next append leaves a hole / overwrites)
    st = rec.get("state") or {}
    if got and st.get("last_log_index") is not None and st["last_log_index"] != got[-1][0]:
        out.append(("reported-last-index-differs-from-last-readable-entry", {"reported": [st.get("last_log_index"), st.get("last_log_term")], "last_readable": got[-1][:3]}))
    for i, e in sorted(log.items()):
        if i <= max_ptr:
            continue
        if pending_cut is not None and i >= pending_cut:
            continue      # may or may not be gone yet
        if head and i < first_verbatim:
            if head.get("first") and head["first"][0] <= i:
                continue          # covered by the verified summary
        if i not in seen:
            out.append(("acknowledged-entry-missing", {"index": i, "returned": len(got), "last_returned": got[-1][0] if got else None}))
            break
        if seen[i] != expect_row(e) and json.dumps(seen[i]) in all_submitted_rows:
            # another submitted entry with this index (e.g. the pre-truncation one): only wrong if the acknowledged one is newer
            out.append(("acknowledged-entry-replaced-by-older", {"index": i, "got": seen[i][:5], "want": expect_row(e)[:5]}))
            break
    return out


def check_meta(table, markers, rec):
    """C05 clauses: acknowledged term/vote, membership and addresses are what a recovered store reports.
    term/vote: strict (save_hard_state is what raft waits for before it answers a vote).
    membership / addresses: RaftIndexRequest::{SaveMember, AddNodeAddr} are answered when the write has been scheduled; the
    index actor serialises its writes, so the value is on disk once any later request to that actor has been acknowledged:
    the last acknowledged value may lag by exactly that one write."""
    out = []
    if not rec.get("recovered"):
        # term, vote, membership and addresses cannot be read at all
        return [("metadata-unreadable-after-crash", {"why": rec.get("why"), "detail": json.dumps(rec.get("detail"))[:300]})]
    submitted, acked = [], set()
    for m in markers:
        kind, n = m.split()
        if kind == "S":
            submitted.append(int(n))
        elif kind == "A":
            acked.add(int(n))
    index_ops = ("save_hard_state", "save_member", "add_addr", "save_applied", "index_info", "membership", "initial_state", "get_addr")
    last_index_ack = max([n for n in acked if table[n][0]["op"] in index_ops] or [0])
    hard_allowed = [(0, None)]      # a store that never acknowledged a save reports the initial state
    member = {"vals": [None], "ack": 0, "inflight": []}
    after = {"vals": [None], "ack": 0, "inflight": []}
    addr = {}

    def put(slot, n, v):
        if n in acked:
            slot["vals"].append(v)
            slot["ack"] = n
        else:
            slot["inflight"].append(v)

    for n in submitted:
        op, _ = table[n]
        name = op["op"]
        if name == "save_hard_state":
            v = (op["term"], op.get("voted_for"))
            if n in acked:
                hard_allowed = [v]
            else:
                hard_allowed.append(v)
        elif name == "save_member":
            put(member, n, tuple(op["members"]))
            if op.get("after"):           # None = "leave the joint part unchanged" in the store's own API
                put(after, n, tuple(op["after"]))
            if op.get("addrs"):
                ks = {int(k): a for k, a in op["addrs"].items()}
                for k in set(list(addr) + list(ks)):
                    put(addr.setdefault(k, {"vals": [None], "ack": 0, "inflight": []}), n, ks.get(k))
        elif name == "add_addr":
            put(addr.setdefault(op["id"], {"vals": [None], "ack": 0, "inflight": []}), n, op["addr"])

    def allowed(slot):
        vals = [slot["vals"][-1]] + slot["inflight"]
        if slot["ack"] >= last_index_ack and len(slot["vals"]) > 1:
            vals.append(slot["vals"][-2])    # its write may still be the one in flight
        return vals

    st = rec["state"] or {}
    if hard_allowed:
        gotv = (st.get("term"), st.get("voted_for"))
        if gotv not in hard_allowed:
            out.append(("hard-state-not-the-acknowledged-one", {"got": gotv, "allowed": hard_allowed}))
    m = rec.get("membership") or {}
    gotm = tuple(m.get("members") or []) or None
    if gotm not in [x or None for x in allowed(member)]:
        out.append(("membership-not-the-acknowledged-one", {"got": gotm, "allowed": allowed(member)}))
    gota = tuple(m["after"]) if m.get("after") else None
    if gota not in allowed(after):
        out.append(("membership-not-the-acknowledged-one", {"joint_part": True, "got": gota, "allowed": allowed(after)}))
    for k, slot in addr.items():
        if k in (1, 2):
            g = rec.get("addr%d" % k)
            if g not in allowed(slot):
                out.append(("node-address-not-the-acknowledged-one", {"id": k, "got": g, "allowed": allowed(slot)}))
    return out


def check_snapshot(table, markers, rec):
    """C04: the snapshot the recovered catalogue points at can be opened and read by the real reader"""
    if not rec.get("recovered"):
        return []
    info = rec.get("index_info") or {}
    snaps = info.get("snapshots") or []
    if not snaps:
        return []
    cur = rec.get("snapshot") or {}
    if not cur.get("ok", True) or cur.get("none") or cur.get("err"):
        return [("catalogued-snapshot-unreadable", {"catalogue": snaps, "current_snapshot": {k: cur.get(k) for k in ("ok", "err", "none")}})]
    if cur.get("ok") is True and cur.get("records") is not None and cur.get("index") != snaps[-1]["end"]:
        return [("catalogued-snapshot-unreadable", {"catalogue": snaps, "snapshot_index": cur.get("index")})]
    return []


def check_applied(table, markers, rec):
    """C04 clause 5: the reported last-applied index never points past what snapshot + log can reproduce"""
    if not rec.get("recovered"):
        return []
    st = rec["state"] or {}
    la = st.get("last_applied", 0)
    got = rec["entries"]
    top = got[-1][0] if got else 0
    snap = rec.get("snapshot") or {}
    top = max(top, snap.get("index", 0) or 0)
    if la > top:
        return [("last-applied-beyond-log-and-snapshot", {"last_applied": la, "reproducible_up_to": top})]
    return []


def continue_after_recovery(d, n=140):
    """the recovered store must stay a store: n further appends (more than one index interval of 128) are acknowledged, and after a
    quiescent reopen the log is contiguous and ends exactly n entries later. Returns None or (clause, detail)."""
    try:
        s = Session(d)
    except SessionDied:
        return None         # recovery failures are check_image's business
    try:
        h = s.call("read", lo=0, hi=10**9, compact=True)
        if not h.get("ok"):
            return None
        last = h.get("last")
        lo = last[0] if last else 0
        term = max(last[1] if last else 1, (s.ready.get("state") or {}).get("hard_state", {}).get("current_term", 1) if isinstance(s.ready.get("state"), dict) else 1)
        uid = 990000
        for j in range(lo + 1, lo + 1 + n):
            uid += 1
            a = s.call("append", index=j, term=term, uid=uid, len=12)
            if not a.get("ok"):
                return ("continuation-after-recovery/append-refused", {"recovered_last": last, "append_index": j, "answer": a})
        s.call("sync")
        time.sleep(0.1)
        s.kill()
        s = Session(d)
        h2 = s.call("read", lo=0, hi=10**9, compact=True)
        if not h2.get("ok"):
            return ("continuation-after-recovery/unreadable-after-reopen", {"recovered_last": last, "answer": h2})
        l2 = h2.get("last")
        if not l2 or l2[0] != lo + n or not h2.get("contiguous", True) or (l2[3] != uid):
            return ("continuation-after-recovery/entries-lost-or-misnumbered", {"recovered_last": last, "appended": n, "expected_last_index": lo + n, "expected_last_uid": uid,
                                                                                 "after_reopen_last": l2, "count_after_reopen": h2.get("count"), "contiguous": h2.get("contiguous")})
        return None
    except SessionDied as e:
        return ("continuation-after-recovery/session-died", {"during": str(e)})
    finally:
        s.kill()


def windows(recs):
    """classify each journal position: which multi-step mutation is in progress (for stratified sampling / signatures)"""
    kinds = []
    for r in recs:
        if r[0] == "W" and r[1] == "index":
            kinds.append("index-header" if r[2] == 0 else "index-record")
        elif r[0] == "W" and r[1].startswith("log_"):
            kinds.append("log-index-area" if r[2] < 4096 else "log-data")
        elif r[0] == "W" and r[1].startswith("snapshot_"):
            kinds.append("snapshot-data")
        elif r[0] == "T":
            kinds.append("set-len")
        elif r[0] == "C":
            kinds.append("create:" + r[1].split("_")[0])
        elif r[0] == "U":
            kinds.append("unlink:" + r[1].split("_")[0])
        elif r[0] == "M":
            kinds.append("marker")
        else:
            kinds.append(r[0])
    return kinds
