"""C14 — distro ownership: each service has exactly one owner and routing agrees (all (n<=5, D, local) views, real liveness timer)."""
import json
import shutil

import common
from common import Outcome

BASE_GROUPS = 52   # (n, D) with D non-empty, n = 2..5


def _once(tier, seed, wd):
    args = ["--recover"] if tier == "thorough" else []
    return common.run_vh_shards("c14", 1, args, wd, 120 if tier == "quick" else 240, seed)


def late_member_part(out, wd, seed):
    """real processes: the naming layer learns the membership from the raft index actor. A member that joins long after the others
    started (the start-up re-announcements at 0/10/30/60 s are over) must still appear in every node's naming view, and writes
    routed by one node must be visible on the other"""
    import os
    import time
    import procrig
    common.build(need_bin=True)
    info = {}
    n1 = procrig.Node(os.path.join(wd, "late"), 1, auto_init=True, name="late1")
    n2 = procrig.Node(os.path.join(wd, "late"), 2, join=n1.grpc_addr, auto_init=False, name="late2")
    try:
        n1.start()
        t0 = time.time()
        time.sleep(64.0)
        n2.start()
        t_join = time.time()
        while time.time() - t_join < 30:
            m = n2.metrics()
            if m and len((m.get("membership_config") or {}).get("members") or []) == 2 and m.get("current_leader"):
                break
            time.sleep(0.3)
        else:
            raise common.Inconclusive("late member did not join the raft membership within 30 s")
        info["joined_after_s"] = round(t_join - t0, 1)

        def view(nd):
            tok, _ = nd.console_login("admin", "admin", wait=15)
            r = nd.console("GET", "/rnacos/api/console/cluster/cluster_node_list", tok, timeout=5)
            j = r.json()
            items = j if isinstance(j, list) else ((j or {}).get("data") or [])
            return sorted({it.get("node_id", it.get("nodeId")) for it in items if isinstance(it, dict)})
        deadline = time.time() + 12
        while True:
            v1, v2 = view(n1), view(n2)
            if (v1 == [1, 2] and v2 == [1, 2]) or time.time() > deadline:
                break
            time.sleep(1.0)
        info["naming_view_node1"], info["naming_view_node2"] = v1, v2
        out.evaluations += 2
        # writes through the old node for services spread over both owners, read on the new node (and the reverse)
        seen = {1: 0, 2: 0}
        N = 8
        for i in range(N):
            n1.post("/nacos/v1/ns/instance", form={"serviceName": "c14late-%d-%d" % (seed, i), "ip": "10.14.1.%d" % i, "port": "80", "ephemeral": "true"}, timeout=5)
            n2.post("/nacos/v1/ns/instance", form={"serviceName": "c14late-%d-%d" % (seed, i), "ip": "10.14.2.%d" % i, "port": "80", "ephemeral": "true"}, timeout=5)
        time.sleep(3.0)
        for i in range(N):
            r2 = n2.get("/nacos/v1/ns/instance/list", params={"serviceName": "c14late-%d-%d" % (seed, i)}, timeout=5).text()
            r1 = n1.get("/nacos/v1/ns/instance/list", params={"serviceName": "c14late-%d-%d" % (seed, i)}, timeout=5).text()
            seen[2] += 1 if "10.14.1.%d" % i in r2 else 0
            seen[1] += 1 if "10.14.2.%d" % i in r1 else 0
            out.evaluations += 2
        info["written_at_node1_seen_at_node2"], info["written_at_node2_seen_at_node1"] = seen[2], seen[1]
        if v1 != [1, 2] or v2 != [1, 2]:
            out.violation("real-cluster/naming-view-lacks-a-raft-member/joined-after-start-up-announcements",
                          {"raft_members": [1, 2], "naming_view_node1": v1, "naming_view_node2": v2, "member_2_started_s_after_member_1": info["joined_after_s"], "instances": info})
        elif seen[1] < N or seen[2] < N:
            out.violation("real-cluster/write-not-visible-on-the-other-node/joined-after-start-up-announcements", dict(info))
        else:
            out.shape("real-cluster/member-joined-after-64s/views-agree")
            # ---- a long outage of the FIRST member (it has no join address: nothing re-announces it when it comes back) in a cluster in
            # which every node is past its start-up announcements: after its return both nodes must take each other for alive again
            # (the liveness pings have to be taken up again), and writes through either node must reach the other one
            time.sleep(max(0.0, t_join + 66.0 - time.time()))
            n1.kill()
            t_down = time.time()
            time.sleep(36.0)
            n1.start()
            info["first_member_down_s"] = round(time.time() - t_down, 1)
            t_back = time.time()
            while time.time() - t_back < 30:
                m = n1.metrics()
                if m and m.get("current_leader"):
                    break
                time.sleep(0.5)
            else:
                raise common.Inconclusive("no raft leader within 30 s after the first member came back")
            time.sleep(20.0)          # 15 s liveness rule + 3 s status tick + slack, counted from the return
            seen = {1: 0, 2: 0}
            for i in range(N):
                n1.post("/nacos/v1/ns/instance", form={"serviceName": "c14back-%d-%d" % (seed, i), "ip": "10.15.1.%d" % i, "port": "80", "ephemeral": "true"}, timeout=5)
                n2.post("/nacos/v1/ns/instance", form={"serviceName": "c14back-%d-%d" % (seed, i), "ip": "10.15.2.%d" % i, "port": "80", "ephemeral": "true"}, timeout=5)
            time.sleep(3.0)
            for i in range(N):
                r2 = n2.get("/nacos/v1/ns/instance/list", params={"serviceName": "c14back-%d-%d" % (seed, i)}, timeout=5).text()
                r1 = n1.get("/nacos/v1/ns/instance/list", params={"serviceName": "c14back-%d-%d" % (seed, i)}, timeout=5).text()
                seen[2] += 1 if "10.15.1.%d" % i in r2 else 0
                seen[1] += 1 if "10.15.2.%d" % i in r1 else 0
                out.evaluations += 2
            info["after_outage_written_at_node1_seen_at_node2"], info["after_outage_written_at_node2_seen_at_node1"] = seen[2], seen[1]
            if seen[1] < N or seen[2] < N:
                out.violation("real-cluster/write-not-visible-on-the-other-node/first-member-back-after-36s-outage-in-an-aged-cluster", dict(info))
            else:
                out.shape("real-cluster/first-member-back-after-36s-outage/writes-reach-both-nodes")
    except common.Inconclusive as e:
        info["inconclusive"] = str(e)[:300]
    except OSError as e:
        info["inconclusive"] = repr(e)[:300]
    finally:
        n1.kill()
        n2.kill()
    out.extra["late_member"] = info


def dead_owner_window_part(out, wd, seed):
    """real processes: a node dies; for ~15 s the others still count it as a live owner. HTTP writes for ITS services sent through
    the other nodes in that window cannot reach the owner: they must not be acknowledged unless they take effect on every live
    node (a write handled by a node that is not the owner is exactly what single ownership excludes). The same writes before the
    kill are the positive control. Cluster older than 47 s (the start-up snapshot exchanges would otherwise repair stray copies)."""
    import os
    import random
    import threading
    import time
    import procrig
    import c15
    common.build(need_bin=True)
    info = {"window_ops": {"acknowledged": 0, "refused": 0, "no_answer": 0}, "control_ops_acknowledged": 0}
    rnd = random.Random(seed * 977 + 5)
    env = {"RNACOS_NAMING_HEALTH_TIMEOUT_SECOND": "900", "RNACOS_NAMING_INSTANCE_TIMEOUT_SECOND": "1000"}
    cl = procrig.Cluster(os.path.join(wd, "dow"), 3, env=env)
    P = "/nacos/v1/ns/instance"
    try:
        cl.start()
        t_formed = time.time()
        n1, n2, n3 = cl.nodes
        # services owned by node 3 while all are alive (hash % 3 == 2), half of them moving to node 1, half to node 2 afterwards
        svcs = {2: [], 5: []}
        i = 0
        while min(len(v) for v in svcs.values()) < 4 and i < 100000:
            i += 1
            name = "c14dow-%d-%d" % (seed, i)
            r6 = c15.service_hash("public", "DEFAULT_GROUP", name) % 6
            if r6 in svcs and len(svcs[r6]) < 4:
                svcs[r6].append(name)
        names = svcs[2] + svcs[5]
        time.sleep(max(0.0, 47.0 - (time.time() - t_formed)))

        def listed(nd, svc):
            r = nd.get(P + "/list", params={"serviceName": svc, "healthyOnly": "false"}, timeout=5)
            j = r.json() if r.status == 200 else None
            return None if j is None else sorted("%s:%s" % (h.get("ip"), h.get("port")) for h in j.get("hosts") or [])

        # control: the same kind of writes while the owner is alive are acknowledged and visible everywhere
        for k, svc in enumerate(names):
            via = [n1, n2][k % 2]
            r = via.post(P, form={"serviceName": svc, "ip": "10.14.3.%d" % k, "port": "80", "ephemeral": "true"}, timeout=8)
            if r.status == 200:
                info["control_ops_acknowledged"] += 1
        time.sleep(2.5)
        ctl_ok = all(listed(nd, svc) == ["10.14.3.%d:80" % k] for k, svc in enumerate(names) for nd in (n1, n2, n3))
        info["control_visible_on_all_nodes"] = ctl_ok
        if not ctl_ok or info["control_ops_acknowledged"] < len(names):
            raise common.Inconclusive("control writes before the kill were not acknowledged / visible on all nodes")
        n3.kill()
        t_k = time.time()
        time.sleep(rnd.uniform(1.0, 2.0))
        acked = []
        for k, svc in enumerate(names):
            via = [n1, n2][(k + (seed % 2)) % 2] if k % 4 < 2 else [n2, n1][(k + (seed % 2)) % 2]
            try:
                if k % 2 == 0:
                    op = "deregister"
                    r = via.delete(P, params={"serviceName": svc, "ip": "10.14.3.%d" % k, "port": "80", "ephemeral": "true"}, timeout=8)
                else:
                    op = "register"
                    r = via.post(P, form={"serviceName": svc, "ip": "10.14.4.%d" % k, "port": "80", "ephemeral": "true"}, timeout=8)
            except OSError:
                info["window_ops"]["no_answer"] += 1
                continue
            out.evaluations += 1
            if r.status == 200 and r.text().strip() == "ok":
                info["window_ops"]["acknowledged"] += 1
                acked.append((k, svc, op, via.id, round(time.time() - t_k, 2)))
            else:
                info["window_ops"]["refused"] += 1
            if time.time() - t_k > 11.0:
                break
        info["window_closed_s_after_kill"] = round(time.time() - t_k, 1)
        # after the failure is detected (15 s + 3 s tick) and the survivors have synced
        time.sleep(max(0.0, 30.0 - (time.time() - t_k)))
        bad = None
        deadline = time.time() + 20
        while True:
            bad = None
            for k, svc, op, via_id, dt in acked:
                want_present = op == "register"
                addr = ("10.14.4.%d:80" if op == "register" else "10.14.3.%d:80") % k
                views = {nd.id: listed(nd, svc) for nd in (n1, n2)}
                if any(v is None for v in views.values()):
                    bad = ("unreadable", svc, op, via_id, dt, views)
                    continue
                if any((addr in v) != want_present for v in views.values()):
                    bad = ("not-effective", svc, op, via_id, dt, views)
                    break
            if bad is None or bad[0] == "not-effective" and time.time() > deadline or time.time() > deadline:
                break
            time.sleep(2.0)
        info["acknowledged_in_window"] = [list(a) for a in acked][:8]
        if bad and bad[0] == "not-effective":
            _w, svc, op, via_id, dt, views = bad
            out.violation("real-cluster/write-acknowledged-while-owner-unreachable/%s-not-reflected-on-every-live-node" % op,
                          {"service": svc, "hash_mod_6": c15.service_hash("public", "DEFAULT_GROUP", svc) % 6, "owner_before": 3, "killed": 3, "operation": op, "sent_through_node": via_id,
                           "seconds_after_kill": dt, "answer": "200 ok", "views_50s_after_kill": {str(a): b for a, b in views.items()}, "counts": info["window_ops"]})
        elif bad:
            info["inconclusive"] = "a survivor did not answer the final reads"
        else:
            out.shape("real-cluster/dead-owner-window/%s" % ("acknowledged-writes-effective" if acked else "writes-refused"))
    except common.Inconclusive as e:
        info["inconclusive"] = str(e)[:300]
    except OSError as e:
        info["inconclusive"] = repr(e)[:300]
    finally:
        cl.kill_all()
    out.extra["dead_owner_window"] = info


def run(tier, seed):
    common.build()
    wd = common.workdir("c14")
    try:
        out = Outcome("C14", tier, seed)
        out.rule = ("one real InnerNodeManage (+ NodeManage wrapper, real RaftClusterRequestSender with unreachable peers, real NamingActor "
                    "receiving the range refreshes) per (n, D, local) view, for every cluster size n=1..5, every dead set D with |D|<=n-1 and "
                    "every alive local id (129 views) in two id families (1..n and sparse ids); alive peers kept alive by ActiveNode every "
                    "second, members of D starved until the genuine 15 s rule on the actor's 3 s tick marks them invalid; then for service "
                    "keys covering every residue of get_hash_value mod 60: QueryOwnerRange[0].is_range(hash) = owns, NodeManage::route_addr = "
                    "route target. Oracle per (n, D, key): exactly one alive view owns it and every alive view routes to that owner. "
                    "evaluations = (view, key) observations judged; distinct_nontrivial = distinct (n, D) with D non-empty (id family 1..n) whose "
                    "views all reached the liveness pattern and were judged; thorough adds recoveries (smallest dead node revived, then "
                    "another live peer starved) and compares every recovered view with the fresh view of the same liveness pattern")
        import threading
        side = threading.Thread(target=dead_owner_window_part, args=(out, wd, seed), daemon=True)
        side.start()
        try:
            reports = _once(tier, seed, wd)
        except common.Inconclusive as e:
            common.log("C14 first attempt inconclusive (%s); retrying once" % str(e)[:200])
            reports = _once(tier, seed, wd)
        m = common.merge_reports(reports)
        shapes = m.pop("shapes")
        m["shapes"] = {}
        other = {}
        for k, v in shapes.items():
            if k.startswith("fresh ids-1..n "):
                m["shapes"][k[len("fresh ids-1..n "):]] = v
            else:
                fam = " ".join(k.split(" ")[:2])
                other[fam] = other.get(fam, 0) + 1
        out.absorb(m)
        out.extra["other_liveness_patterns_judged"] = other
        c = m.get("counters", {})
        complete = (c.get("residues_mod_60_covered") == 60 and c.get("fresh_views_observed") == 258
                    and c.get("fresh_groups_judged") == 114 and not m.get("inconclusive"))
        out.exhaustive = bool(complete)
        out.extra["exhaustive_space"] = "n<=5 x D (|D|<=n-1) x alive local x hash residue mod lcm(1..5)=60; 129 views per id family"
        out.min_nontrivial = BASE_GROUPS
        out.assumptions = ["a liveness view is judged only after GetAllNodes on that view reports exactly D as invalid (settled); transient "
                           "windows between a status change and the next 3 s tick are not judged",
                           "keep-alive is injected as ActiveNode(id), which is what a peer's Ping/sync traffic does on the receiving node",
                           "history ranges returned by QueryOwnerRange are ignored (first element = current range)"]
        if m.get("inconclusive") and not m["violations"]:
            raise common.Inconclusive("; ".join(m["inconclusive"][:3]))
        if tier == "thorough":
            late_member_part(out, wd, seed)
        side.join(240)
        return out.finish()
    finally:
        shutil.rmtree(wd, ignore_errors=True)


def replay(path):
    w = json.load(open(path))
    print(json.dumps(w, indent=1))
    return run(w.get("tier", "quick"), int(w.get("seed", 1)))
