"""C14 — distro ownership: each service has exactly one owner and routing agrees (all (n<=5, D, local) views, real liveness timer)."""
import json
import shutil

import common
from common import Outcome

BASE_GROUPS = 52   # (n, D) with D non-empty, n = 2..5


def _once(tier, seed, wd):
    args = ["--recover"] if tier == "thorough" else []
    return common.run_vh_shards("c14", 1, args, wd, 120 if tier == "quick" else 240, seed)


def run(tier, seed):
    common.build()
    wd = common.workdir("c14")
    try:
        out = Outcome("C14", tier, seed)
        out.rule = ("one real InnerNodeManage (+ NodeManage wrapper, real RaftClusterRequestSender with unreachable peers, real NamingActor "
                    "receiving the range refreshes) per (n, D, local) view, for every cluster size n=1..5, every dead set D with |D|<=n-1 and "
                    "every alive local id (129 views) in two id families (1..n and sparse ids); alive peers kept alive by ActiveNode every "
                    "second, members of D starved until the genuine 15 s rule on the actor's 3 s tick marks them invalid; then for service "
                    "keys covering every residue of get_hash_value mod 60: QueryOwnerRange[0].is_range(hash) = owns, NodeManage::route_addr = "
                    "route target. Oracle per (n, D, key): exactly one alive view owns it and every alive view routes to that owner. "
                    "evaluations = (view, key) observations judged; distinct_nontrivial = distinct (n, D) with D non-empty (id family 1..n) whose "
                    "views all reached the liveness pattern and were judged; thorough adds recoveries (smallest dead node revived, then "
                    "another live peer starved) and compares every recovered view with the fresh view of the same liveness pattern")
        try:
            reports = _once(tier, seed, wd)
        except common.Inconclusive as e:
            common.log("C14 first attempt inconclusive (%s); retrying once" % str(e)[:200])
            reports = _once(tier, seed, wd)
        m = common.merge_reports(reports)
        shapes = m.pop("shapes")
        m["shapes"] = {}
        other = {}
        for k, v in shapes.items():
            if k.startswith("fresh ids-1..n "):
                m["shapes"][k[len("fresh ids-1..n "):]] = v
            else:
                fam = " ".join(k.split(" ")[:2])
                other[fam] = other.get(fam, 0) + 1
        out.absorb(m)
        out.extra["other_liveness_patterns_judged"] = other
        c = m.get("counters", {})
        complete = (c.get("residues_mod_60_covered") == 60 and c.get("fresh_views_observed") == 258
                    and c.get("fresh_groups_judged") == 114 and not m.get("inconclusive"))
        out.exhaustive = bool(complete)
        out.extra["exhaustive_space"] = "n<=5 x D (|D|<=n-1) x alive local x hash residue mod lcm(1..5)=60; 129 views per id family"
        out.min_nontrivial = BASE_GROUPS
        out.assumptions = ["a liveness view is judged only after GetAllNodes on that view reports exactly D as invalid (settled); transient "
                           "windows between a status change and the next 3 s tick are not judged",
                           "keep-alive is injected as ActiveNode(id), which is what a peer's Ping/sync traffic does on the receiving node",
                           "history ranges returned by QueryOwnerRange are ignored (first element = current range)"]
        if m.get("inconclusive") and not m["violations"]:
            raise common.Inconclusive("; ".join(m["inconclusive"][:3]))
        return out.finish()
    finally:
        shutil.rmtree(wd, ignore_errors=True)


def replay(path):
    w = json.load(open(path))
    print(json.dumps(w, indent=1))
    return run(w.get("tier", "quick"), int(w.get("seed", 1)))
