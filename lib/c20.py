"""C20 — length-prefixed record streams decode identically under every chunking."""
import json
import shutil
import common
from common import Outcome


def run(tier, seed):
    common.build()
    wd = common.workdir("c20")
    try:
        out = Outcome("C20", tier, seed)
        out.rule = ("seeded streams of varint-length-prefixed records with boundary-biased body lengths, decoded by the "
                    "repository's MessageBufReader (scan loop, EOF loop, new_with_data), FileMessageReader, SnapshotReader and "
                    "LogInnerManager::init under fixed-1024, 1-byte, random, record-end-aligned and exhaustive 2/3-chunk partitions, "
                    "compared with an independent reference decoder; a case is non-trivial when the stream had >=1 record and the "
                    "decode agreed; distinct = distinct (api, chunk family, record-end alignment vs 1024, buffer growth, tail class) tuples")
        shards = 16
        scale = 1 if tier == "quick" else 12
        args = ["--scale", scale]
        args.append("--big")       # one record above tokio's 2 MiB file buffer per shard, in both tiers
        reports = common.run_vh_shards("c20", shards, args, wd, 600 if tier == "quick" else 3000, seed)
        out.absorb(common.merge_reports(reports))
        out.min_nontrivial = 20
        out.assumptions = ["record bodies look like protobuf messages (non-zero first byte); a zero length terminates a stream",
                           "Miri lane (thorough) interprets the same reader on small streams; see coverage.miri"]
        from concurrent.futures import ThreadPoolExecutor
        with ThreadPoolExecutor(max_workers=2) as ex:
            fx = ex.submit(export_part, out, wd, seed, tier)
            out.extra["miri"] = miri_lane(seed, 4 if tier == "quick" else 16, 2 if tier == "quick" else 8, out)
            fx.result()
        return out.finish()
    finally:
        shutil.rmtree(wd, ignore_errors=True)


def export_part(out, wd, seed, tier):
    """the transfer file as clients get it: a real node with several MB of configs hands out its export over HTTP (console transfer export and
    /rnacos/backup), a fresh node imports it; every config must arrive, unchanged. Sizes around tokio's 2 MiB file-read limit."""
    import hashlib
    import os
    import random
    import time
    import procrig
    from c18 import multipart
    common.build(need_bin=True)
    V1 = "/rnacos/api/console"
    rnd = random.Random(seed * 31 + 7)
    info = {}
    a = b = None
    try:
        a = procrig.Node(os.path.join(wd, "exp"), 1, name="exp-a")
        b = procrig.Node(os.path.join(wd, "exp"), 1, name="exp-b")
        a.start()
        b.start()
        sizes = [300, 70_000, 700_000, 1_300_000, 900_000, 5_000, 2_200_000, 64, 450_000] + ([3_000_000, 1_048_576] if tier != "quick" else [])
        want = {}
        for i, n in enumerate(sizes):
            content = ("%d:" % i) + "".join(rnd.choice("abcdefghijklmnopqrstuvwxyz0123456789") for _ in range(64)) * (n // 64 + 1)
            content = content[:max(n, 8)]
            r = a.post("/nacos/v1/cs/configs", form={"dataId": "exp%d" % i, "group": "c20exp", "content": content}, timeout=30)
            if r.status != 200:
                raise common.Inconclusive("publish of %d bytes on node A refused: %s" % (n, r.status))
            want["exp%d" % i] = (len(content), hashlib.md5(content.encode()).hexdigest())
        ta, _ = a.console_login("admin", "admin", wait=15)
        tb, _ = b.console_login("admin", "admin", wait=15)
        if not ta or not tb:
            raise common.Inconclusive("console login failed")
        blob = a.console("GET", V1 + "/transfer/export", ta, timeout=60).body
        info["export_bytes"] = len(blob)
        if len(blob) < sum(sizes):
            out.violation("transfer-export/file-shorter-than-its-contents", {"export_bytes": len(blob), "config_bytes": sum(sizes)})
            return
        body, ct = multipart({}, "all.data", bytes(blob))
        r = b.console("POST", V1 + "/transfer/import", tb, body=body, headers={"Content-Type": ct, "import-config": "1", "import-cache": "0", "import-mcp": "0", "import-naming": "0", "import-user": "0"}, timeout=120)
        if r.status != 200:
            raise common.Inconclusive("transfer import refused: %s %s" % (r.status, r.body[:120]))
        t0 = time.time()
        got = {}
        while time.time() - t0 < 30:
            got = {}
            for k in want:
                g = b.get("/nacos/v1/cs/configs", params={"dataId": k, "group": "c20exp"}, timeout=20)
                got[k] = (len(g.body), hashlib.md5(g.body).hexdigest()) if g.status == 200 else ("status %s" % g.status,)
            if got == want:
                break
            time.sleep(1.0)
        out.evaluations += len(want)
        bad = {k: [want[k], got.get(k)] for k in want if got.get(k) != want[k]}
        if bad:
            first = sorted(bad, key=lambda k: int(k[3:]))[0]
            out.violation("transfer-export-import/configs-lost-or-changed/export-%s-2MiB" % ("above" if len(blob) > 2 * 1024 * 1024 else "below"),
                          {"export_bytes": len(blob), "configs": len(want), "lost_or_changed": len(bad), "first": [first] + bad[first], "sizes_in_order": sizes})
        else:
            out.shape("transfer-export-import/%dMiB-export/all-configs-arrive" % (len(blob) // (1024 * 1024)))
            info["status"] = "held"
    except common.Inconclusive as e:
        info["status"] = "inconclusive: %s" % str(e)[:300]
    except OSError as e:
        info["status"] = "inconclusive: %r" % e
    finally:
        for n in (a, b):
            if n is not None:
                n.kill()
        out.extra["export_part"] = info


def miri_lane(seed, n_seeds, n_streams, out):
    """interpret the repository's codec (included by path from /repo) under Miri on small seeded streams"""
    import os
    import subprocess
    import time
    crate = os.path.join(common.VERIF, "miri")
    env = dict(os.environ)
    env.update({"CARGO_NET_OFFLINE": "true", "CARGO_TARGET_DIR": os.path.join(common.CACHE, "miri-target")})
    t0 = time.time()
    b = subprocess.run(["cargo", "+nightly", "miri", "run", "--offline", "--manifest-path", os.path.join(crate, "Cargo.toml"), "--", "0", "0"],
                       env=env, stdout=subprocess.PIPE, stderr=subprocess.STDOUT, text=True, timeout=900)
    if "MIRI-OK" not in b.stdout:
        return {"status": "inconclusive", "why": "miri lane did not build/run: " + b.stdout[-400:]}
    procs = [subprocess.Popen(["cargo", "+nightly", "miri", "run", "--offline", "--manifest-path", os.path.join(crate, "Cargo.toml"), "--",
                               str(seed * 1000 + i + 1), str(n_streams)], env=env, stdout=subprocess.PIPE, stderr=subprocess.STDOUT, text=True)
             for i in range(n_seeds)]
    cases = 0
    ok = 0
    for i, p in enumerate(procs):
        try:
            o, _ = p.communicate(timeout=1500)
        except subprocess.TimeoutExpired:
            p.kill()
            continue
        if "MIRI-OK" in o:
            ok += 1
            cases += int(o.split("cases=")[-1].split()[0])
            out.shape("miri/seed-class%d" % (i % 4))
        elif "MISMATCH" in o:
            out.violation("miri/decode-mismatch", {"output": o[-600:]})
        else:
            out.violation("miri/undefined-behaviour-or-panic", {"output": o[-1500:]})
    out.evaluations += cases
    return {"status": "ran", "processes_ok": ok, "of": n_seeds, "cases_interpreted": cases, "wall_s": round(time.time() - t0, 1)}


def replay(path):
    w = json.load(open(path))
    print(json.dumps(w, indent=1))
    return run(w.get("tier", "quick"), int(w.get("seed", 1)))
