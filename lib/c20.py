"""C20 — length-prefixed record streams decode identically under every chunking."""
import json
import shutil
import common
from common import Outcome


def run(tier, seed):
    common.build()
    wd = common.workdir("c20")
    try:
        out = Outcome("C20", tier, seed)
        out.rule = ("seeded streams of varint-length-prefixed records with boundary-biased body lengths, decoded by the "
                    "repository's MessageBufReader (scan loop, EOF loop, new_with_data), FileMessageReader, SnapshotReader and "
                    "LogInnerManager::init under fixed-1024, 1-byte, random, record-end-aligned and exhaustive 2/3-chunk partitions, "
                    "compared with an independent reference decoder; a case is non-trivial when the stream had >=1 record and the "
                    "decode agreed; distinct = distinct (api, chunk family, record-end alignment vs 1024, buffer growth, tail class) tuples")
        shards = 16
        scale = 1 if tier == "quick" else 12
        args = ["--scale", scale]
        if tier == "thorough":
            args.append("--big")
        reports = common.run_vh_shards("c20", shards, args, wd, 600 if tier == "quick" else 3000, seed)
        out.absorb(common.merge_reports(reports))
        out.min_nontrivial = 20
        out.assumptions = ["record bodies look like protobuf messages (non-zero first byte); a zero length terminates a stream",
                           "Miri lane (thorough) interprets the same reader on small streams; see coverage.miri"]
        if tier == "thorough":
            out.extra["miri"] = miri_lane(seed)
        return out.finish()
    finally:
        shutil.rmtree(wd, ignore_errors=True)


def miri_lane(seed):
    return {"status": "not-run"}


def replay(path):
    w = json.load(open(path))
    print(json.dumps(w, indent=1))
    return run(w.get("tier", "quick"), int(w.get("seed", 1)))
