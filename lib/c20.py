"""C20 — length-prefixed record streams decode identically under every chunking."""
import json
import shutil
import common
from common import Outcome


def run(tier, seed):
    common.build()
    wd = common.workdir("c20")
    try:
        out = Outcome("C20", tier, seed)
        out.rule = ("seeded streams of varint-length-prefixed records with boundary-biased body lengths, decoded by the "
                    "repository's MessageBufReader (scan loop, EOF loop, new_with_data), FileMessageReader, SnapshotReader and "
                    "LogInnerManager::init under fixed-1024, 1-byte, random, record-end-aligned and exhaustive 2/3-chunk partitions, "
                    "compared with an independent reference decoder; a case is non-trivial when the stream had >=1 record and the "
                    "decode agreed; distinct = distinct (api, chunk family, record-end alignment vs 1024, buffer growth, tail class) tuples")
        shards = 16
        scale = 1 if tier == "quick" else 12
        args = ["--scale", scale]
        args.append("--big")       # one record above tokio's 2 MiB file buffer per shard, in both tiers
        reports = common.run_vh_shards("c20", shards, args, wd, 600 if tier == "quick" else 3000, seed)
        out.absorb(common.merge_reports(reports))
        out.min_nontrivial = 20
        out.assumptions = ["record bodies look like protobuf messages (non-zero first byte); a zero length terminates a stream",
                           "Miri lane (thorough) interprets the same reader on small streams; see coverage.miri"]
        out.extra["miri"] = miri_lane(seed, 4 if tier == "quick" else 16, 2 if tier == "quick" else 8, out)
        return out.finish()
    finally:
        shutil.rmtree(wd, ignore_errors=True)


def miri_lane(seed, n_seeds, n_streams, out):
    """interpret the repository's codec (included by path from /repo) under Miri on small seeded streams"""
    import os
    import subprocess
    import time
    crate = os.path.join(common.VERIF, "miri")
    env = dict(os.environ)
    env.update({"CARGO_NET_OFFLINE": "true", "CARGO_TARGET_DIR": os.path.join(common.CACHE, "miri-target")})
    t0 = time.time()
    b = subprocess.run(["cargo", "+nightly", "miri", "run", "--offline", "--manifest-path", os.path.join(crate, "Cargo.toml"), "--", "0", "0"],
                       env=env, stdout=subprocess.PIPE, stderr=subprocess.STDOUT, text=True, timeout=900)
    if "MIRI-OK" not in b.stdout:
        return {"status": "inconclusive", "why": "miri lane did not build/run: " + b.stdout[-400:]}
    procs = [subprocess.Popen(["cargo", "+nightly", "miri", "run", "--offline", "--manifest-path", os.path.join(crate, "Cargo.toml"), "--",
                               str(seed * 1000 + i + 1), str(n_streams)], env=env, stdout=subprocess.PIPE, stderr=subprocess.STDOUT, text=True)
             for i in range(n_seeds)]
    cases = 0
    ok = 0
    for i, p in enumerate(procs):
        try:
            o, _ = p.communicate(timeout=1500)
        except subprocess.TimeoutExpired:
            p.kill()
            continue
        if "MIRI-OK" in o:
            ok += 1
            cases += int(o.split("cases=")[-1].split()[0])
            out.shape("miri/seed-class%d" % (i % 4))
        elif "MISMATCH" in o:
            out.violation("miri/decode-mismatch", {"output": o[-600:]})
        else:
            out.violation("miri/undefined-behaviour-or-panic", {"output": o[-1500:]})
    out.evaluations += cases
    return {"status": "ran", "processes_ok": ok, "of": n_seeds, "cases_interpreted": cases, "wall_s": round(time.time() - t0, 1)}


def replay(path):
    w = json.load(open(path))
    print(json.dumps(w, indent=1))
    return run(w.get("tier", "quick"), int(w.get("seed", 1)))
