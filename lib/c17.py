"""C17 — console: every API needs a login session; roles cannot exceed their grants.

Server level (Rig B, real binary, console port) + function level (vh c17-func, the repository's own
UserRole::match_url_by_roles and the middleware's path predicates).  See DESIGN.md section C17.

Oracle clauses (each has its own signature family):
  (a) no valid session (none / garbage / logged-out / expired) -> never a handler of a non-exempt API route
      exempt, by the property statement: login, captcha, login configuration, OAuth2 callback
  (b) a logged-in user passes the middleware only where the function-level table grants one of the user's roles
  (c) STATE-BASED: visitor requests never change configs / services / namespaces / users / MCP data, developer
      requests never change users and are never served transfer export/import; verified by admin-read
      fingerprints before/after each block; every template has an admin positive control that must change state
  (d) monotonicity visitor <= developer <= manager on registered routes, multi-role = union, unknown role = nothing
      (function level exhaustively, server level by observation)

Signatures (route = "<METHOD> <canonical path>", family = v1-<first segment> | v2-<first segment> | page; where a clause hits more
than 3 routes of one family the per-route signatures collapse into "<prefix>/<family>/*"):
  no-session-handler/<route>                      non-exempt API handler reached without any session (e.g. ignore-list entry)
  no-session-handler/spelling/<spelling family>   same through a path spelling (e.g. static-file pattern)
  no-session-page/<route>                         page served without session although the middleware predicates say redirect
  invalid-session-accepted/<state>/<carrier>      garbage | logged-out | expired session reaches a handler (state changes that follow are folded in)
  over-grant/<role>/<route>                       middleware lets a user through although no role of theirs lists the route
  over-grant/<role>/spelling/<spelling family>
  state-changed/<actor>/<template id>             admin-read fingerprint changed after a request of visitor / developer(users, transfer) /
                                                  unknown-role / no-session ...; actor and template name the role and the mutating route
  transfer-export-served/<actor>/GET <path>       full-data export served below manager
  monotonicity/function/<lower>-granted-<higher>-refused/<route>, monotonicity/server/<lower>-served-<higher>-refused/<route>
  function/multi-role-not-union, multi-role-not-union/server/<user label>/<route>
  function/unknown-role-granted/role=<r>, function/empty-role-set-granted, unknown-role-served/roles=<r>
"""
import base64
import glob
import io
import json
import os
import random
import re
import shutil
import subprocess
import threading
import time
import uuid
import zipfile
from concurrent.futures import ThreadPoolExecutor

import common
import procrig
from common import Outcome

A = "/rnacos/api/console"
B = "/rnacos/api/console/v2"
METHODS = ["GET", "POST", "PUT", "DELETE", "PATCH", "HEAD", "OPTIONS"]
ROLE_STRINGS = ["0", "1", "2", "", "9", "admin", "00", "+1", " 2"]       # the last three: strings that only LOOK like a role
# exempt from clause (a) by the property statement (NOT read from the repository's ignore list)
EXEMPT_API = {A + "/login/login", A + "/login/captcha", B + "/login/login", B + "/login/captcha",
              B + "/login/config", B + "/login/oauth2/login"}
LOGOUT_PATHS = {A + "/login/logout", B + "/login/logout"}
# test users: name -> role string given to the console API
USERS = [("c17_vis", "2"), ("c17_dev", "1"), ("c17_mgr", "0"), ("c17_vd", "2,1"), ("c17_unk", "9"), ("c17_z0", "00")]
USERS_THOROUGH = [("c17_unk2", "admin"), ("c17_mv", "0,2"), ("c17_ud", "9,1")]
USER_LABEL = {"c17_vis": "visitor", "c17_dev": "developer", "c17_mgr": "manager", "c17_vd": "visitor+developer",
              "c17_unk": "unknown-role", "c17_unk2": "unknown-role", "c17_z0": "unknown-role", "c17_mv": "manager+visitor", "c17_ud": "unknown+developer"}
SINGLE_ROLE_USER = {"0": "c17_mgr", "1": "c17_dev", "2": "c17_vis", "9": "c17_unk", "admin": "c17_unk2", "00": "c17_z0"}
UNKNOWN_USERS = ("c17_unk", "c17_unk2", "c17_z0")
WORKERS = 8


def pw(name):
    return "pw_" + name


# --------------------------------------------------------------------------------------------- http helpers

def is_api(path):
    return path.lower().startswith("/rnacos/api/") or "/api/" in path.lower()


def family(path):
    """resource family of a canonical console path, used to group signatures: v2-config, v1-ns, v2-mcp, page ..."""
    for pre, ver in ((B + "/", "v2"), (A + "/", "v1")):
        if path.startswith(pre):
            return "%s-%s" % (ver, path[len(pre):].split("/")[0] or "root")
    return "page"


def send(node, req, token=None, carrier="cookie", timeout=15):
    """one request on a fresh connection; never raises: a transport failure is Resp(-1)"""
    h = dict(req.get("headers") or {})
    if token is not None:
        if carrier == "cookie":
            h["Cookie"] = "token=%s" % token
        else:
            h["Token"] = token
    for attempt in (0, 1):
        try:
            return procrig.http(node.console_port, req["method"], req["path"], params=req.get("params"), form=req.get("form"),
                                body=req.get("body"), headers=h, timeout=timeout)
        except Exception as e:  # noqa: BLE001 - any transport problem is "no answer", decided by the caller
            err = e
            time.sleep(0.05)
    return procrig.Resp(-1, repr(err).encode(), {})


def classify(r):
    """what the middleware / router did with the request, read off the response"""
    if r.status == -1:
        return "error"
    h = {k.lower(): v for k, v in r.headers.items()}
    if h.get("no-login") == "1":
        return "nologin"
    if h.get("no-permission") == "1":
        return "noperm"
    if r.status == 302:
        loc = h.get("location", "")
        if loc.startswith("/rnacos/nopermission"):
            return "noperm"
        if loc.startswith("/rnacos/p/login") or loc.startswith("/p/login"):
            return "nologin"
    if r.status in (404, 405) and len(r.body) == 0:
        return "unrouted"      # passed the middleware, no resource / no route for the method
    return "handler"


def passed(cls):
    return cls in ("handler", "unrouted")


def brief(r, n=160):
    h = {k: v for k, v in r.headers.items() if k.lower() in ("no-login", "no-permission", "location", "content-disposition")}
    return {"status": r.status, "headers": h, "body": r.body[:n].decode("utf-8", "replace")}


def pmap(fn, items, workers=WORKERS):
    items = list(items)
    if not items:
        return []
    with ThreadPoolExecutor(max_workers=workers) as ex:
        return list(ex.map(fn, items))


def multipart(fields, files):
    bnd = "----c17" + uuid.uuid4().hex
    out = io.BytesIO()
    for k, v in fields.items():
        out.write(("--%s\r\nContent-Disposition: form-data; name=\"%s\"\r\n\r\n%s\r\n" % (bnd, k, v)).encode())
    for name, filename, data in files:
        out.write(("--%s\r\nContent-Disposition: form-data; name=\"%s\"; filename=\"%s\"\r\n"
                   "Content-Type: application/octet-stream\r\n\r\n" % (bnd, name, filename)).encode())
        out.write(data)
        out.write(b"\r\n")
    out.write(("--%s--\r\n" % bnd).encode())
    return out.getvalue(), "multipart/form-data; boundary=%s" % bnd


def zip_bytes(entries):
    b = io.BytesIO()
    with zipfile.ZipFile(b, "w", zipfile.ZIP_STORED) as z:
        for name, content in entries:
            z.writestr(name, content)
    return b.getvalue()


# --------------------------------------------------------------------------------------------- candidates

def harvest_candidates():
    """INPUT GENERATION ONLY: string literals beginning with '/' in the console route configuration and permission
    sources, combined scope x resource (over-approximation, no parsing of nesting)."""
    files = [os.path.join(common.REPO, "src", "web_config.rs"), os.path.join(common.REPO, "src", "user", "permission.rs")]
    files += sorted(glob.glob(os.path.join(common.REPO, "src", "console", "**", "*.rs"), recursive=True))
    lits, scopes = set(), set()
    for f in files:
        try:
            t = open(f, encoding="utf-8", errors="replace").read()
        except OSError:
            continue
        for m in re.finditer(r'"(/[^"\s\\]*)"', t):
            lits.add(m.group(1))
        for m in re.finditer(r'web::scope\(\s*"(/[^"]*)"', t):
            scopes.add(m.group(1))
    scopes |= {A, B}
    scopes = {s for s in scopes if s.startswith("/rnacos")}
    paths = set()
    tails = ["x", "login", "user", "x.js", "a/b.css"]
    for lit in lits:
        if len(lit) > 120:
            continue
        variants = [lit]
        if "{" in lit:
            variants = [re.sub(r"\{[^}]*\}", t, lit) for t in tails]
        for v in variants:
            paths.add(v)
            if not v.startswith("/rnacos") and not v.startswith("/nacos"):
                for s in scopes:
                    paths.add(s + v)
    paths |= scopes
    return sorted(p for p in paths if re.match(r"^/[A-Za-z0-9_./@%;=,+~-]*$", p) or p == "/")


def spellings(path, tier):
    """spelling variants of one registered path: (family, raw path)"""
    out = []
    segs = path.split("/")
    last = segs[-1]
    out.append(("trailing-slash", path + "/"))
    out.append(("double-slash", path.replace("/", "//", 2).replace("//", "/", 1) if path.count("/") > 1 else "/" + path))
    out.append(("leading-double-slash", "/" + path))
    out.append(("dot-segment", "/".join(segs[:-1]) + "/./" + last))
    out.append(("upper-case", path.upper()))
    if last:
        out.append(("pct-encoded-letter", "/".join(segs[:-1]) + "/" + "%%%02X" % ord(last[0]) + last[1:]))
    if len(segs) > 2 and segs[1]:
        out.append(("pct-encoded-prefix", "/" + "%%%02x" % ord(segs[1][0]) + segs[1][1:] + "/" + "/".join(segs[2:])))
    out.append(("pct-encoded-slash", "/".join(segs[:-1]) + "%2F" + last))
    out.append(("path-param", path + ";x=y"))
    # families that make the middleware's static-file pattern match the raw path
    st = [("static-suffix", path + ".js"), ("static-subpath", path + "/x.css"), ("static-path-param", path + ";a.png"),
          ("static-pct-slash", path + "%2Fx.js"), ("static-dot-segment", "/x.js/.." + path),
          ("static-pct-query", path + "%3Fx.svg"), ("static-pct-fragment", path + "%23.jpg"), ("static-upper", path + ".JS")]
    if tier != "quick":
        st += [("static-suffix", path + ".jpeg"), ("static-suffix", path + ".bmp"), ("static-inner", "/".join(segs[:-1]) + "/a.css/../" + last),
               ("static-pct-null", path + "%00.js"), ("static-backslash", path + "\\.js"), ("static-path-param", path + ";.css")]
    if tier != "quick":
        st += [(fam + "+static-suffix", p + ".js") for fam, p in out]      # two mutations: any family combined with a static suffix
    out += st
    seen, res = set(), []
    for fam, p in out:
        if p != path and p not in seen and p.startswith("/") and re.match(r"^[\x21-\x7e]+$", p):
            seen.add(p)
            res.append((fam, p))
    return res


def role_sets():
    sets = [[]]
    for a in ROLE_STRINGS:
        sets.append([a])
    for a in ROLE_STRINGS:
        for b in ROLE_STRINGS:
            sets.append([a, b])
    for a in ROLE_STRINGS:
        for b in ROLE_STRINGS:
            for c in ROLE_STRINGS:
                sets.append([a, b, c])
    return sets


def vh_func(wd, name, pairs, sets):
    inp = os.path.join(wd, name + ".in.json")
    outp = os.path.join(wd, name + ".out.json")
    json.dump({"pairs": pairs, "role_sets": sets}, open(inp, "w"))
    p = subprocess.run([common.VH, "c17-func", "--in", inp, "--out", outp], stdout=subprocess.PIPE, stderr=subprocess.STDOUT, timeout=300)
    if p.returncode != 0 or not os.path.exists(outp):
        raise common.Inconclusive("vh c17-func failed (exit %s): %s" % (p.returncode, p.stdout[-1500:].decode("utf-8", "replace")))
    return json.load(open(outp))


class Table:
    """function-level decision table: (path, method) -> row; allow(role list) through the role-set index"""

    def __init__(self, res):
        self.sets = res["role_sets"]
        self.idx = {tuple(s): i for i, s in enumerate(self.sets)}
        self.rows = {(r["path"], r["method"]): r for r in res["rows"]}
        self.meta = {k: res[k] for k in ("ignore_list", "static_regex", "api_regex")}

    def allow(self, path, method, roles):
        return self.rows[(path, method)]["allow"][self.idx[tuple(roles)]] == "1"

    def expected(self, path, method, roles, valid):
        """middleware decision the repository's own predicates + table imply"""
        row = self.rows[(path, method)]
        if row["ignore"] or row["static"]:
            return "pass"
        if not valid:
            return "nologin"
        return "pass" if self.allow(path, method, roles) else "noperm"


# --------------------------------------------------------------------------------------------- the rig

class Rig:
    def __init__(self, wd, name, env, out, lock):
        self.node = procrig.Node(wd, 1, env=env, name=name)
        self.out = out
        self.lock = lock
        self.admin = None
        self.requests = 0
        self.relogins = 0

    def start(self):
        self.node.start()
        self.admin_login()

    def count(self, n=1):
        with self.lock:
            self.requests += n

    def admin_login(self):
        tok, r = self.node.console_login("admin", "admin", wait=10)
        self.count()
        if not tok:
            raise common.Inconclusive("admin console login failed: %s" % r.text()[:300])
        self.admin = tok
        return tok

    def login(self, user):
        r = procrig.http(self.node.console_port, "POST", B + "/login/login",
                         form={"username": user, "password": base64.b64encode(pw(user).encode()).decode()})
        self.count()
        j = r.json() or {}
        if not j.get("success"):
            raise common.Inconclusive("login of %s failed: %s" % (user, r.text()[:300]))
        return j["data"]["token"]

    def adm(self, req):
        """admin request; re-login once if the admin session is gone (short TTL node)"""
        r = send(self.node, req, self.admin)
        self.count()
        if classify(r) == "nologin":
            self.relogins += 1
            self.admin_login()
            r = send(self.node, req, self.admin)
            self.count()
        return r

    def create_users(self, users):
        for name, roles in users:
            r = self.adm({"method": "POST", "path": B + "/user/add",
                          "body": {"username": name, "nickname": name, "password": pw(name), "roles": roles}})
            if not (r.json() or {}).get("success"):
                raise common.Inconclusive("creating user %s failed: %s" % (name, r.text()[:300]))
        r = self.adm({"method": "GET", "path": B + "/user/list", "params": {"pageNo": 1, "pageSize": 1000}})
        have = {u["username"]: u.get("roles") for u in ((r.json() or {}).get("data") or {}).get("list", [])}
        for name, roles in users:
            if have.get(name) != roles.split(","):
                raise common.Inconclusive("user %s was stored with roles %s, wanted %s" % (name, have.get(name), roles))
        return have


# --------------------------------------------------------------------------------------------- fingerprints (admin reads)

SEED_NS = "c17seedns"
FP_NAMESPACES = ["", SEED_NS]


def _data(r):
    j = r.json()
    if not isinstance(j, dict):
        return None
    return j.get("data")


def fp_config(rig, prefixes):
    fp = {}
    for ns in FP_NAMESPACES:
        d = _data(rig.adm({"method": "GET", "path": B + "/config/list", "params": {"tenant": ns, "pageNo": 1, "pageSize": 100000}}))
        if d is None:
            raise common.Inconclusive("admin config list unreadable")
        for it in d.get("list", []):
            fp["config|%s|%s|%s" % (ns, it["group"], it["dataId"])] = {"desc": it.get("desc")}
        r = rig.adm({"method": "GET", "path": B + "/config/download", "params": {"tenant": ns}})
        try:
            z = zipfile.ZipFile(io.BytesIO(r.body))
            for n in z.namelist():
                if n.endswith("/") or n == ".ignore":
                    continue
                g, d_id = n.split("/", 1)
                fp.setdefault("config|%s|%s|%s" % (ns, g, d_id), {})["content"] = z.read(n).decode("utf-8", "replace")
        except Exception:
            raise common.Inconclusive("admin config download unreadable: %s" % brief(r))
    return fp


def fp_naming(rig, prefixes):
    fp = {}
    for ns in FP_NAMESPACES:
        d = _data(rig.adm({"method": "GET", "path": B + "/service/list", "params": {"namespaceId": ns, "pageNo": 1, "pageSize": 100000}}))
        if d is None:
            raise common.Inconclusive("admin service list unreadable")
        for it in d.get("list", []):
            key = "service|%s|%s|%s" % (ns, it.get("groupName"), it.get("name"))
            fp[key] = {k: it.get(k) for k in ("ipCount", "metadata", "protectThreshold")}
            if any(str(it.get("name", "")).startswith(p) for p in prefixes):
                di = _data(rig.adm({"method": "GET", "path": B + "/instance/list",
                                    "params": {"namespaceId": ns, "serviceName": it.get("name"), "groupName": it.get("groupName")}}))
                for ins in (di or {}).get("list", []):
                    fp["%s|instance|%s:%s" % (key, ins.get("ip"), ins.get("port"))] = {
                        k: ins.get(k) for k in ("weight", "enabled", "ephemeral", "clusterName", "metadata")}
    return fp


def fp_namespace(rig, prefixes):
    d = _data(rig.adm({"method": "GET", "path": B + "/namespaces/list"}))
    if d is None:
        raise common.Inconclusive("admin namespace list unreadable")
    return {"namespace|%s" % it.get("namespaceId"): {"name": it.get("namespaceName"), "type": it.get("type")} for it in d}


def fp_users(rig, prefixes):
    d = _data(rig.adm({"method": "GET", "path": B + "/user/list", "params": {"pageNo": 1, "pageSize": 100000}}))
    if d is None:
        raise common.Inconclusive("admin user list unreadable")
    return {"user|%s" % u.get("username"): {k: u.get(k) for k in ("nickname", "passwordHash", "password", "enable", "roles", "gmtModified",
                                                                   "namespacePrivilege", "extendInfo")} for u in d.get("list", [])}


def fp_mcp(rig, prefixes):
    fp = {}
    for ns in FP_NAMESPACES:
        nsq = ns
        page = 1
        while True:
            d = _data(rig.adm({"method": "GET", "path": B + "/mcp/toolspec/list", "params": {"namespaceId": nsq, "pageNo": page, "pageSize": 1000}}))
            if d is None:
                raise common.Inconclusive("admin toolspec list unreadable")
            for it in d.get("list", []):
                fp["toolspec|%s|%s|%s" % (ns, it.get("group"), it.get("toolName"))] = {k: it.get(k) for k in ("version", "description", "function", "lastModifiedMillis")}
            if len(d.get("list", [])) < 1000:
                break
            page += 1
        page = 1
        while True:
            d = _data(rig.adm({"method": "GET", "path": B + "/mcp/server/list", "params": {"namespaceId": nsq, "pageNo": page, "pageSize": 1000}}))
            if d is None:
                raise common.Inconclusive("admin mcp server list unreadable")
            for it in d.get("list", []):
                fp["mcpserver|%s|%s" % (ns, it.get("name"))] = {k: v for k, v in it.items() if k not in ("name",)}
            if len(d.get("list", [])) < 1000:
                break
            page += 1
    return fp


FP = {"config": fp_config, "naming": fp_naming, "namespace": fp_namespace, "users": fp_users, "mcp": fp_mcp}
CLASSES = ["config", "naming", "namespace", "users", "mcp"]


UNREADABLE = {}   # class -> reason, filled when the admin cannot read a data class (itself a symptom, reported by the other clauses)


def fingerprint(rig, classes, prefixes):
    fp = {}
    for c in classes:
        try:
            fp.update(FP[c](rig, prefixes))
        except common.Inconclusive as e:
            UNREADABLE[c] = str(e)[:200]
            fp["%s|UNREADABLE" % c] = True
    if len([c for c in classes if "%s|UNREADABLE" % c in fp]) == len(classes):
        raise common.Inconclusive("no data class readable with the admin session: %s" % UNREADABLE)
    return fp


def fp_one(rig, cls, prefixes):
    try:
        return FP[cls](rig, prefixes)
    except common.Inconclusive as e:
        UNREADABLE[cls] = str(e)[:200]
        return {"%s|UNREADABLE" % cls: True}


def fp_diff(f0, f1):
    ch = []
    for k in sorted(set(f0) | set(f1)):
        if f0.get(k) != f1.get(k):
            ch.append({"key": k, "before": f0.get(k, "<absent>"), "after": f1.get(k, "<absent>")})
    return ch


# --------------------------------------------------------------------------------------------- request templates

G = "C17G"
SCHEMA = {"type": "object"}


def _cfg_create(rig, tag):
    return rig.adm({"method": "POST", "path": B + "/config/add", "body": {"dataId": tag, "group": G, "tenant": "", "content": "seed-" + tag}})


def _svc_create(rig, tag):
    return rig.adm({"method": "POST", "path": B + "/service/add",
                    "body": {"serviceName": tag, "groupName": G, "namespaceId": "", "protectThreshold": 0.1, "metadata": "{\"seed\":\"1\"}"}})


def _ins_create(rig, tag):
    return rig.adm({"method": "POST", "path": B + "/instance/add",
                    "body": {"serviceName": tag, "groupName": G, "namespaceId": "", "ip": "10.17.0.1", "port": 1700, "ephemeral": "false", "weight": 1.0}})


def _ns_create(rig, tag):
    return rig.adm({"method": "POST", "path": B + "/namespaces/add", "body": {"namespaceId": tag, "namespaceName": "seed-" + tag}})


def _user_create(rig, tag):
    return rig.adm({"method": "POST", "path": B + "/user/add", "body": {"username": tag, "nickname": "seed", "password": "seedpw", "roles": "2"}})


def _tool_body(tag, desc):
    return {"namespace": "", "group": G, "toolName": tag, "function": {"name": tag, "description": desc, "inputSchema": SCHEMA}}


def _tool_create(rig, tag):
    return rig.adm({"method": "POST", "path": B + "/mcp/toolspec/add", "body": _tool_body(tag, "seed")})


def _srv_create(rig, tag):
    r = rig.adm({"method": "POST", "path": B + "/mcp/server/add",
                 "body": {"namespace": "", "name": tag, "description": "seed", "authKeys": ["k-" + tag], "tools": []}})
    d = _data(r)
    return d if isinstance(d, int) else None


def _srv_history(rig, tag):
    sid = _srv_create(rig, tag)
    if not sid:
        return None
    rig.adm({"method": "POST", "path": B + "/mcp/server/update", "body": {"id": sid, "description": "second"}})
    rig.adm({"method": "POST", "path": B + "/mcp/server/publish", "body": {"id": sid}})
    d = _data(rig.adm({"method": "GET", "path": B + "/mcp/server/history", "params": {"id": sid, "pageNo": 1, "pageSize": 50}}))
    hist = sorted(h.get("id") for h in (d or {}).get("list", []))
    return {"id": sid, "hist": hist[0] if hist else None}


def _mp(fields, files, headers=None):
    body, ct = multipart(fields, files)
    h = {"Content-Type": ct}
    h.update(headers or {})
    return {"body": body, "headers": h}


def _transfer_setup(rig, tag):
    """marker config in the backup, then removed: an import that is served brings it back"""
    _cfg_create(rig, tag)
    r = rig.adm({"method": "GET", "path": A + "/transfer/export"})
    rig.adm({"method": "POST", "path": B + "/config/remove", "body": {"dataId": tag, "group": G, "tenant": ""}})
    if classify(r) != "handler" or r.status != 200 or len(r.body) < 16:
        return None
    return r.body


TRANSFER_HEADERS = {"import-config": "1", "import-user": "0", "import-cache": "0"}


def templates():
    """(id, class, method, path, setup(rig, tag) -> ctx | None, build(tag, ctx) -> request parts).  Every template is EFFECTIVE
    with an admin session (checked at run time: the class fingerprint must change)."""
    t = []

    def add(tid, cls, method, path, setup, build):
        t.append({"id": tid, "class": cls, "group": "transfer" if "transfer" in tid else cls, "method": method, "path": path,
                  "setup": setup, "build": build})

    cform = lambda tag, c: {"form": {"dataId": tag, "group": G, "tenant": "", "content": "new-" + tag}}  # noqa: E731
    cjson = lambda tag, c: {"body": {"dataId": tag, "group": G, "tenant": "", "content": "new-" + tag, "desc": "d"}}  # noqa: E731
    add("v1-config-add", "config", "POST", A + "/cs/configs", None, cform)
    add("v1-config-update", "config", "PUT", A + "/cs/configs", _cfg_create, cform)
    add("v1-config-remove", "config", "DELETE", A + "/cs/configs", _cfg_create, lambda tag, c: {"params": {"dataId": tag, "group": G, "tenant": ""}})
    add("v1-config-import", "config", "POST", A + "/config/import", None,
        lambda tag, c: _mp({}, [("file", "c.zip", zip_bytes([("%s/%s" % (G, tag), "imported-" + tag)]))], {"tenant": ""}))
    add("v2-config-add", "config", "POST", B + "/config/add", None, cjson)
    add("v2-config-update", "config", "POST", B + "/config/update", _cfg_create, cjson)
    add("v2-config-remove", "config", "POST", B + "/config/remove", _cfg_create, lambda tag, c: {"body": {"dataId": tag, "group": G, "tenant": ""}})
    add("v2-config-import", "config", "POST", B + "/config/import", None,
        lambda tag, c: _mp({}, [("file", "c.zip", zip_bytes([("%s/%s" % (G, tag), "imported-" + tag)]))], {"tenant": ""}))

    sform = lambda tag, c: {"form": {"serviceName": tag, "groupName": G, "namespaceId": "", "protectThreshold": "0.7", "metadata": "{\"new\":\"1\"}"}}  # noqa: E731
    sjson = lambda tag, c: {"body": {"serviceName": tag, "groupName": G, "namespaceId": "", "protectThreshold": 0.7, "metadata": "{\"new\":\"1\"}"}}  # noqa: E731
    iform = lambda tag, c: {"form": {"serviceName": tag, "groupName": G, "namespaceId": "", "ip": "10.17.0.1", "port": "1700", "ephemeral": "false", "weight": "7"}}  # noqa: E731
    ijson = lambda tag, c: {"body": {"serviceName": tag, "groupName": G, "namespaceId": "", "ip": "10.17.0.1", "port": 1700, "ephemeral": "false", "weight": 7.0}}  # noqa: E731
    add("v1-service-add", "naming", "POST", A + "/ns/service", None, sform)
    add("v1-service-update", "naming", "PUT", A + "/ns/service", _svc_create, sform)
    add("v1-service-remove", "naming", "DELETE", A + "/ns/service", _svc_create, lambda tag, c: {"params": {"serviceName": tag, "groupName": G, "namespaceId": ""}})
    add("v1-instance-add", "naming", "POST", A + "/ns/instance", None, iform)
    add("v1-instance-update", "naming", "PUT", A + "/ns/instance", _ins_create, iform)
    add("v1-instance-remove", "naming", "DELETE", A + "/ns/instance", _ins_create,
        lambda tag, c: {"params": {"serviceName": tag, "groupName": G, "namespaceId": "", "ip": "10.17.0.1", "port": "1700", "ephemeral": "false"}})
    add("v2-service-add", "naming", "POST", B + "/service/add", None, sjson)
    add("v2-service-update", "naming", "POST", B + "/service/update", _svc_create, sjson)
    add("v2-service-remove", "naming", "POST", B + "/service/remove", _svc_create, lambda tag, c: {"body": {"serviceName": tag, "groupName": G, "namespaceId": ""}})
    add("v2-instance-add", "naming", "POST", B + "/instance/add", None, ijson)
    add("v2-instance-update", "naming", "POST", B + "/instance/update", _ins_create, ijson)
    add("v2-instance-remove", "naming", "POST", B + "/instance/remove", _ins_create, ijson)

    nform = lambda tag, c: {"form": {"namespaceId": tag, "namespaceName": "new-" + tag}}  # noqa: E731
    njson = lambda tag, c: {"body": {"namespaceId": tag, "namespaceName": "new-" + tag}}  # noqa: E731
    add("v1-namespace-add", "namespace", "POST", A + "/namespaces", None, nform)
    add("v1-namespace-update", "namespace", "PUT", A + "/namespaces", _ns_create, nform)
    add("v1-namespace-remove", "namespace", "DELETE", A + "/namespaces", _ns_create, nform)
    add("v2-namespace-add", "namespace", "POST", B + "/namespaces/add", None, njson)
    add("v2-namespace-update", "namespace", "POST", B + "/namespaces/update", _ns_create, njson)
    add("v2-namespace-remove", "namespace", "POST", B + "/namespaces/remove", _ns_create, njson)

    uadd = {"nickname": "new", "password": "newpw", "roles": "0"}
    add("v1-user-add", "users", "POST", A + "/user/add", None, lambda tag, c: {"form": dict(uadd, username=tag)})
    add("v1-user-update", "users", "POST", A + "/user/update", _user_create, lambda tag, c: {"form": {"username": tag, "nickname": "changed", "roles": "0"}})
    add("v1-user-remove", "users", "POST", A + "/user/remove", _user_create, lambda tag, c: {"form": {"username": tag}})
    add("v2-user-add", "users", "POST", B + "/user/add", None, lambda tag, c: {"body": dict(uadd, username=tag)})
    add("v2-user-update", "users", "POST", B + "/user/update", _user_create, lambda tag, c: {"body": {"username": tag, "nickname": "changed", "roles": "0"}})
    add("v2-user-remove", "users", "POST", B + "/user/remove", _user_create, lambda tag, c: {"body": {"username": tag}})

    add("mcp-toolspec-add", "mcp", "POST", B + "/mcp/toolspec/add", None, lambda tag, c: {"body": _tool_body(tag, "new")})
    add("mcp-toolspec-update", "mcp", "POST", B + "/mcp/toolspec/update", _tool_create, lambda tag, c: {"body": _tool_body(tag, "changed")})
    add("mcp-toolspec-remove", "mcp", "POST", B + "/mcp/toolspec/remove", _tool_create, lambda tag, c: {"body": {"namespace": "", "group": G, "toolName": tag}})
    add("mcp-toolspec-batch-update", "mcp", "POST", B + "/mcp/toolspec/batch_update", None, lambda tag, c: {"body": [_tool_body(tag, "batch")]})
    tool_yaml = lambda tag: "group: %s\nname: %s\ndescription: imported\ninputSchema:\n  type: object\n" % (G, tag)  # noqa: E731
    add("mcp-toolspec-import", "mcp", "POST", B + "/mcp/toolspec/import", None,
        lambda tag, c: _mp({"namespace": ""}, [("file", "t.zip", zip_bytes([("%s_%s.yaml" % (G, tag), tool_yaml(tag))]))]))
    add("mcp-server-add", "mcp", "POST", B + "/mcp/server/add", None,
        lambda tag, c: {"body": {"namespace": "", "name": tag, "description": "new", "authKeys": ["k"], "tools": []}})
    add("mcp-server-update", "mcp", "POST", B + "/mcp/server/update", _srv_create, lambda tag, c: {"body": {"id": c, "description": "changed"}})
    add("mcp-server-remove", "mcp", "POST", B + "/mcp/server/remove", _srv_create, lambda tag, c: {"body": {"id": c}})
    add("mcp-server-publish", "mcp", "POST", B + "/mcp/server/publish", _srv_create, lambda tag, c: {"body": {"id": c}})
    add("mcp-server-publish-history", "mcp", "POST", B + "/mcp/server/publish/history", _srv_history,
        lambda tag, c: {"body": {"id": c["id"], "historyValueId": c["hist"]}})
    srv_yaml = lambda tag: "uniqueKey: key-%s\nname: %s\ndescription: imported\nauthKeys:\n  - k\ntools: []\n" % (tag, tag)  # noqa: E731
    add("mcp-server-import", "mcp", "POST", B + "/mcp/server/import", None,
        lambda tag, c: _mp({"namespace": ""}, [("file", "s.zip", zip_bytes([("%s.yaml" % tag, srv_yaml(tag))]))]))

    add("v1-transfer-import", "config", "POST", A + "/transfer/import", _transfer_setup,
        lambda tag, c: _mp({}, [("file", "t.data", c)], TRANSFER_HEADERS))
    add("v2-transfer-import", "config", "POST", B + "/transfer/import", _transfer_setup,
        lambda tag, c: _mp({}, [("file", "t.data", c)], TRANSFER_HEADERS))
    return t


def prepare(tp, rig, tag):
    """admin-side precondition of a template: (ok, ctx handed to build)"""
    if tp["setup"] is None:
        return True, None
    c = tp["setup"](rig, tag)
    if isinstance(c, procrig.Resp):
        return classify(c) == "handler" and c.status == 200, None
    return c is not None and c != {} and not (isinstance(c, dict) and c.get("hist") is None), c


def build_request(tp, raw, tag, ctx):
    req = {"method": tp["method"], "path": raw}
    req.update(tp["build"](tag, ctx))
    return req


GENERIC_PARAMS = {"pageNo": "1", "pageSize": "10", "tenant": "", "namespaceId": "", "dataId": "c17-none", "group": G, "groupName": G,
                  "serviceName": "c17-none", "ip": "10.17.0.9", "port": "1", "id": "999999", "toolName": "c17-none", "username": "c17-none"}


def sweep_request(method, path, route_path, tpl_by_route, tag):
    """request used for middleware-decision sweeps: template parameters (non-existing target, harmless for permitted roles) where
    a template exists, otherwise generic parameters that satisfy the extractors of the read handlers"""
    req = {"method": method, "path": path}
    tp = tpl_by_route.get((route_path, method))
    if tp is not None:
        if tp["id"].endswith("transfer-import"):
            req.update(_mp({}, []))          # no file part: nothing to import even where the route is granted
            return req
        ctx = {"id": 999999, "hist": 999999} if tp["id"] == "mcp-server-publish-history" else 999999
        req.update(tp["build"](tag, ctx))
        return req
    if route_path.endswith("/login/login"):
        req["form"] = {"username": "c17-none", "password": base64.b64encode(b"x").decode()}
    elif route_path.endswith("/login/oauth2/login"):
        req["body"] = {"code": "x"}
    elif route_path.endswith("/user/reset_password"):
        if route_path.startswith(B):
            req["body"] = {"oldPassword": "definitely-wrong", "newPassword": "irrelevant"}
        else:
            req["form"] = {"oldPassword": "definitely-wrong", "newPassword": "irrelevant"}
    elif route_path.endswith("/metrics/timeline"):
        req["params"] = {"timelineGroupName": "LEAST", "stringKey": "sys_total_memory"}
        if method not in ("GET", "HEAD"):
            req["body"] = {"timelineGroupName": "LEAST", "stringKey": "sys_total_memory"}
    elif route_path.endswith("/config/download") and method == "POST":
        req["body"] = [{"dataId": "c17-none", "group": G, "tenant": ""}]
    else:
        req["params"] = dict(GENERIC_PARAMS)
        if method in ("POST", "PUT", "PATCH", "DELETE") and is_api(route_path):
            req["body"] = {}
    return req


# --------------------------------------------------------------------------------------------- the check

class Check:
    thread_error = None

    def __init__(self, tier, seed, wd, out):
        self.tier, self.seed, self.wd, self.out = tier, seed, wd, out
        self.rnd = random.Random(seed)
        self.lock = threading.Lock()
        self.notes = {}
        self.func_evals = 0
        self.tpls = templates()
        self.tpl_by_route = {}
        for tp in self.tpls:
            self.tpl_by_route.setdefault((tp["path"], tp["method"]), tp)
        self.uid = "%05x" % self.rnd.randrange(16 ** 5)
        self.kept = []
        self.none_served = set()      # (raw, method) served by a handler with NO session on node a
        self.invalid_hits = []        # deferred: handler reached with a garbage / logged-out / expired session
        self.deferred = {}
        self.func_mono_broken = set()
        self.server_dec = {}

    def note(self, k, v=1):
        with self.lock:
            self.notes[k] = self.notes.get(k, 0) + v

    def violation(self, sig, witness, n=1):
        with self.lock:
            e = self.out.violations.setdefault(sig, {"count": 0, "witness": witness})
            e["count"] += n

    def defer(self, prefix, fam, route, witness):
        """violations whose signature granularity depends on how many routes of one resource family are affected:
        <= 3 routes -> one signature per route (a wrong table / ignore-list entry), more -> one signature <prefix>/<family>/*"""
        with self.lock:
            e = self.deferred.setdefault((prefix, fam), {}).setdefault(route, [0, witness])
            e[0] += 1

    def flush_deferred(self):
        with self.lock:
            items, self.deferred = sorted(self.deferred.items()), {}
        for (prefix, fam), routes in items:
            if len(routes) <= 3:
                for route, (n, wit) in sorted(routes.items()):
                    self.violation("%s/%s" % (prefix, route), wit, n)
            else:
                first = sorted(routes)[0]
                wit = dict(routes[first][1])
                wit["affected_routes"] = sorted(routes)[:80]
                wit["n_affected_routes"] = len(routes)
                self.violation("%s/%s/*" % (prefix, fam), wit, sum(n for n, _ in routes.values()))

    # ---- function level
    def function_level(self, pairs_full, pairs_small):
        res = vh_func(self.wd, "full", pairs_full, role_sets())
        self.func_evals += res["evaluations"]
        self.table = Table(res)
        user_sets = [[], ["0"], ["1"], ["2"], ["9"], ["admin"], [""]]
        for rs in self.roles.values():
            if rs not in user_sets:
                user_sets.append(rs)
        res2 = vh_func(self.wd, "spell", pairs_small, user_sets)
        self.func_evals += res2["evaluations"]
        self.table2 = Table(res2)
        self.out.extra["middleware_predicates"] = self.table.meta

    def check_function_table(self, registered_pairs):
        """clause (d) at function level over every evaluated (path, method): union, unknown roles, monotonicity"""
        t = self.table
        known = {"0", "1", "2"}
        single = {r: t.idx[(r,)] for r in ROLE_STRINGS}
        n_union = n_unknown = n_mono = 0
        for (path, method), row in sorted(t.rows.items()):
            al = row["allow"]
            if al[t.idx[()]] == "1":
                self.violation("function/empty-role-set-granted", {"path": path, "method": method})
            for r in ROLE_STRINGS:
                if r not in known and al[single[r]] == "1":
                    n_unknown += 1
                    self.violation("function/unknown-role-granted/role=%r" % r, {"path": path, "method": method, "role": r})
            for i, s in enumerate(t.sets):
                want = any(al[single[r]] == "1" for r in s)
                if (al[i] == "1") != want:
                    n_union += 1
                    self.violation("function/multi-role-not-union",
                                   {"path": path, "method": method, "role_set": s, "granted": al[i] == "1", "singles": {r: al[single[r]] == "1" for r in s}})
                    break
            if (path, method) in registered_pairs:
                v, d, m = (al[single[r]] == "1" for r in ("2", "1", "0"))
                wit = {"path": path, "method": method, "visitor": v, "developer": d, "manager": m}
                route = "%s %s" % (method, path)
                # the chain visitor <= developer <= manager: visitor <= manager follows from the two links
                if v and not d:
                    n_mono += 1
                    self.func_mono_broken.add((path, method))
                    self.defer("monotonicity/function/visitor-granted-developer-refused", family(path), route, wit)
                if d and not m:
                    n_mono += 1
                    self.func_mono_broken.add((path, method))
                    self.defer("monotonicity/function/developer-granted-manager-refused", family(path), route, wit)
        self.out.extra["function_level"] = {"pairs": len(t.rows), "role_sets": len(t.sets), "evaluations": self.func_evals,
                                            "union_mismatches": n_union, "unknown_role_grants": n_unknown, "monotonicity_breaks": n_mono}

    # ---- server level
    def run(self):
        env = {"RNACOS_CONSOLE_LOGIN_ONE_HOUR_LIMIT": "1000000"}
        self.rig = Rig(self.wd, "a", dict(env), self.out, self.lock)
        self.rigb = Rig(self.wd, "b", dict(env, RNACOS_CONSOLE_LOGIN_TIMEOUT="2"), self.out, self.lock)
        try:
            self.rig.start()
            self.rigb.start()
            self.phase_prepare()
            tb = threading.Thread(target=self.guard(self.phase_expired), name="expired")
            tb.start()
            try:
                self.phase_sweep()
                self.phase_state()
                self.phase_selfservice()
            finally:
                tb.join(timeout=600)
            if tb.is_alive():
                raise common.Inconclusive("expired-session phase exceeded its watchdog")
            if self.thread_error:
                raise self.thread_error
            self.flush_invalid_hits()
            self.flush_deferred()
            for rg in (self.rig, self.rigb):
                if not rg.node.alive():
                    raise common.Inconclusive("node %s died during the run: %s" % (rg.node.name, rg.node.tail_log(600)))
        finally:
            self.rig.node.kill()
            self.rigb.node.kill()

    def guard(self, fn):
        def w():
            try:
                fn()
            except BaseException as e:  # noqa: BLE001 - re-raised in the main thread
                self.thread_error = e
        return w

    def fresh_if_consuming(self, rig, user, canon, method, tok):
        """logout removes the session it is called with: such requests get a throw-away session"""
        if tok and canon in LOGOUT_PATHS and method == "POST":
            if user == "admin":
                t, _ = rig.node.console_login("admin", "admin", wait=5)
                rig.count()
                return t
            return rig.login(user)
        return tok

    def phase_prepare(self):
        rig = self.rig
        t0 = time.time()
        users = list(USERS)
        if self.tier != "quick":
            users += USERS_THOROUGH
        self.users = users
        self.roles = {n: r.split(",") for n, r in users}
        self.roles["admin"] = ["0"]
        rig.create_users(users)
        _ns_create(rig, SEED_NS)
        # candidates and discovery with an admin session
        cands = harvest_candidates()
        self.cands = cands
        self.out.extra["candidate_paths"] = len(cands)
        probes = [(p, p, m) for p in cands for m in METHODS]
        rec = {}
        self.do_requests(rig, probes, rig.admin, "cookie", "admin", "discovery", ["0"], True, "disc", rec, judge=False)
        self.disc = rec
        self.admin_reached = sorted(pm for pm, c in rec.items() if c == "handler")
        # the middleware hides routes from an identity it refuses: what the admin is refused is probed with the developer's and the
        # visitor's session as well, so a route the manager lost is still part of the route table (and breaks monotonicity visibly)
        hidden = [(p, p, m) for (p, m), c in sorted(rec.items()) if c != "handler"]
        also = set()
        for name in ("c17_dev", "c17_vis"):
            rec2 = {}
            self.do_requests(rig, hidden, rig.login(name), "cookie", name, "discovery", self.roles[name], True, "disc", rec2, judge=False)
            also |= {pm for pm, c in rec2.items() if c == "handler"}
        self.registered = sorted(set(self.admin_reached) | also)
        self.out.extra["registered_but_refused_to_admin"] = ["%s %s" % (m, p) for p, m in sorted(also)]
        self.reg_paths = sorted({p for p, _ in self.registered})
        regset = set(self.reg_paths)
        self.denied_admin = sorted({p for (p, m), c in rec.items() if c == "noperm"} - regset)
        errs = [pm for pm, c in rec.items() if c == "error"]
        if errs:
            self.note("discovery-transport-errors", len(errs))
        if len(self.registered) < 40:
            raise common.Inconclusive("route discovery found only %d registered (path, method) pairs" % len(self.registered))
        for p, m in self.admin_reached:
            self.out.shape("%s %s" % (m, p))
        self.reg_methods = {}
        for p, m in self.registered:
            self.reg_methods.setdefault(p, []).append(m)
        # spellings of registered paths
        self.spell = {}   # raw path -> (family, canonical path)
        for p in self.reg_paths:
            for fam, raw in spellings(p, self.tier):
                if raw not in regset:
                    self.spell.setdefault(raw, (fam, p))
        # function level: full role-sequence cube for candidates x methods; the users' role sets for spellings
        self.function_level([[p, m] for p in cands for m in METHODS], [[raw, m] for raw in self.spell for m in METHODS])
        self.check_function_table(set(self.registered))
        # spelling probes: admin session and no session, on the methods the canonical route answers
        S = [(raw, canon, m) for raw, (fam, canon) in self.spell.items() for m in self.reg_methods[canon]]
        rec_admin, rec_none = {}, {}
        self.do_requests(rig, S, rig.admin, "cookie", "admin", "valid", ["0"], True, "spa", rec_admin)
        self.do_requests(rig, S, None, "cookie", "-", "none", [], False, "spn", rec_none)
        kept = sorted(k for k in set(rec_admin) | set(rec_none) if rec_admin.get(k) == "handler" or rec_none.get(k) == "handler")
        kept_all = [(raw, self.spell[raw][1], m) for raw, m in kept]
        fam_count, per_fam = {}, {}
        self.kept = []
        for raw, canon, m in kept_all:
            f = self.spell[raw][0]
            fam_count[f] = fam_count.get(f, 0) + 1
            # spellings of API routes are always swept in every session state; spellings of page/asset routes (free-tail SPA shell
            # routes) are sampled in the quick tier (2 per family) and swept completely in the thorough tier
            if is_api(canon) or self.tier != "quick" or per_fam.get(f, 0) < 2:
                self.kept.append((raw, canon, m))
                if not is_api(canon):
                    per_fam[f] = per_fam.get(f, 0) + 1
        self.out.extra["api_spellings_reaching_a_handler"] = [{"family": self.spell[raw][0], "request": "%s %s" % (m, raw), "admin": rec_admin.get((raw, m)),
                                                               "no_session": rec_none.get((raw, m))} for raw, canon, m in kept_all if is_api(canon)][:200]
        self.out.extra["discovery"] = {"registered_pairs": len(self.registered), "registered_paths": len(self.reg_paths),
                                       "paths_refused_to_admin_by_middleware": len(self.denied_admin), "spellings_generated": len(self.spell),
                                       "spelling_probes": 2 * len(S), "spellings_reaching_a_handler": len(kept_all), "spellings_swept_in_all_states": len(self.kept),
                                       "kept_spelling_families": fam_count, "seconds": round(time.time() - t0, 1)}
        self.out.extra["registered_route_table"] = ["%s %s" % (m, p) for p, m in self.registered]
        self.out.extra["refused_to_admin"] = self.denied_admin[:120]
        self.L = [(p, p, m) for p in self.reg_paths for m in METHODS]
        self.R = [(p, p, m) for p, m in self.registered]
        quick = self.tier == "quick"
        self.C = [(p, p, m) for p in cands if p not in regset for m in (["GET", "POST"] if quick else METHODS)]

    # expected decision for a raw path (canonical candidates live in table, spellings in table2)
    def expected(self, raw, method, roles, valid):
        t = self.table if (raw, method) in self.table.rows else self.table2
        return t.expected(raw, method, roles, valid)

    def judge(self, raw, canon, method, cls, r, who, state, carrier, roles, valid, req):
        """clauses (a) and (b) for one observed response"""
        exp = self.expected(raw, method, roles if valid else [], valid)
        fam = self.spell[raw][0] if raw in self.spell else "canonical"
        if cls == "error":
            self.note("transport-error/%s" % state)
            return
        api = is_api(canon)
        label = USER_LABEL.get(who, who)
        interesting = (not valid and cls == "handler") or (valid and passed(cls) != (exp == "pass"))
        if not interesting:
            return
        body = req.get("body")
        wit = {"request": {"method": method, "path": raw, "session": state, "user": who, "roles": roles, "carrier": carrier,
                           "params": req.get("params"), "form": req.get("form"),
                           "body": body if not isinstance(body, bytes) else "<multipart %d bytes>" % len(body)},
               "response": brief(r), "expected_by_function_table": exp, "observed": cls, "canonical_route": canon, "spelling_family": fam}
        if not valid:
            if api and canon not in EXEMPT_API:
                if state == "none":
                    with self.lock:
                        self.none_served.add((raw, method))
                    if fam == "canonical":
                        self.defer("no-session-handler", family(canon), "%s %s" % (method, canon), wit)
                    else:
                        self.violation("no-session-handler/spelling/%s" % fam, wit)
                else:
                    with self.lock:
                        self.invalid_hits.append((raw, method, state, carrier, wit))
            elif not api and exp != "pass":
                if state == "none":
                    with self.lock:
                        self.none_served.add((raw, method))
                    self.defer("no-session-page", "page", "%s %s" % (method, canon), wit)
                else:
                    with self.lock:
                        self.invalid_hits.append((raw, method, state, carrier, wit))
            elif not api and fam.startswith("static"):
                self.note("static-pattern-spelling-returns-page-shell-or-asset-without-session")
            return
        if passed(cls) and exp != "pass":
            if cls == "handler" and fam == "canonical":
                self.defer("over-grant/%s" % label, family(canon), "%s %s" % (method, canon), wit)
            elif cls == "handler":
                self.violation("over-grant/%s/spelling/%s" % (label, fam), wit)
            else:
                self.note("middleware-passed-unrouted-request-against-table")
        elif cls == "nologin":
            self.note("valid-session-answered-NO_LOGIN/%s" % label)
        else:
            self.note("under-grant/%s/%s %s" % (label, method, canon))

    def flush_invalid_hits(self):
        """a handler reached with a garbage / logged-out / expired session: one signature per (state, carrier) unless the same
        request is served without any session as well (then the per-route no-session signature already names the cause)"""
        for raw, method, state, carrier, wit in self.invalid_hits:
            if (raw, method) in self.none_served:
                continue
            self.violation("invalid-session-accepted/%s/%s" % (state, carrier), wit)
        self.invalid_hits = []

    def do_requests(self, rig, targets, token, carrier, who, state, roles, valid, tagp, record=None, judge=True):
        tag = "%s-%s" % (tagp, self.uid)

        def one(t):
            raw, canon, method = t
            req = sweep_request(method, raw, canon, self.tpl_by_route, tag)
            tok = self.fresh_if_consuming(rig, who, canon, method, token) if valid else token
            r = send(rig.node, req, tok, carrier)
            return t, req, r
        res = pmap(one, targets)
        rig.count(len(res))
        for (raw, canon, method), req, r in res:
            cls = classify(r)
            if record is not None:
                record[(raw, method)] = cls
            if judge:
                self.judge(raw, canon, method, cls, r, who, state, carrier, roles, valid, req)
        return res

    def phase_sweep(self):
        rig = self.rig
        t0 = time.time()
        L, C, K = self.L, self.C, self.kept
        # ---- no session, garbage
        self.do_requests(rig, L + C + K, None, "cookie", "-", "none", [], False, "none")
        adm2, _ = rig.node.console_login("admin", "admin", wait=5)
        garbage = [("x", "short"), ("%064x" % self.rnd.getrandbits(256), "right-shape-random"),
                   (adm2[:-1] + ("0" if adm2[-1] != "0" else "1"), "valid-token-last-char-changed")]
        if self.tier != "quick":
            garbage += [(adm2.upper(), "valid-token-upper-cased"), (adm2 + "0", "valid-token-plus-char"), (adm2[:32], "valid-token-first-half"),
                        ("null", "null")]
        quick = self.tier == "quick"
        first = True
        for tok, kind in garbage:
            for carrier in ("cookie", "header"):
                # quick tier: one complete route x method pass, the other garbage kinds / carriers on the registered pairs
                self.do_requests(rig, (L if first or not quick else self.R) + K, tok, carrier, "-", "garbage", [], False, "garb")
                first = False
        self.do_requests(rig, (self.R if quick else L) + K, "", "cookie", "-", "garbage", [], False, "garb")
        # ---- logged out (manager session, both logout routes, both carriers)
        n_lo = 0
        for lp in sorted(LOGOUT_PATHS):
            for carrier in ("cookie", "header"):
                tok = rig.login("c17_mgr")
                r0 = send(rig.node, {"method": "GET", "path": B + "/user/list", "params": {"pageNo": 1, "pageSize": 1}}, tok, carrier)
                r1 = send(rig.node, {"method": "POST", "path": lp}, tok, carrier)
                rig.count(2)
                if classify(r0) != "handler" or classify(r1) != "handler":
                    raise common.Inconclusive("logged-out session could not be produced (%s, %s)" % (brief(r0), brief(r1)))
                self.do_requests(rig, (L if n_lo == 0 or not quick else self.R) + K, tok, carrier, "c17_mgr", "logged-out", [], False, "lo")
                n_lo += 1
        # ---- valid sessions of every user, both carriers
        for name, _ in self.users:
            for carrier in ("cookie", "header"):
                tok = rig.login(name)
                rec = {}
                tagp = "sw%s%s" % (name[4:], carrier[0])
                self.do_requests(rig, L + K, tok, carrier, name, "valid", self.roles[name], True, tagp, rec)
                if carrier == "cookie":
                    self.do_requests(rig, C, tok, carrier, name, "valid", self.roles[name], True, tagp, rec)
                # the session must still be alive afterwards, otherwise the refusals above prove nothing
                chk = send(rig.node, {"method": "GET", "path": B + "/user/web_resources"}, tok, carrier)
                rig.count()
                # alive = the middleware still knows the session (whatever it then grants: that is judged above, not here)
                if classify(chk) not in ("handler", "noperm"):
                    raise common.Inconclusive("session of %s did not survive its sweep: %s" % (name, brief(chk)))
                self.server_dec[(name, carrier)] = rec
        self.check_server_relations()
        self.out.extra["sweep"] = {"route_x_method_pairs": len(L), "other_candidate_pairs": len(C), "kept_spellings": len(K),
                                   "garbage_token_kinds": [k for _, k in garbage] + ["empty"], "logged_out_sessions": n_lo,
                                   "users": {n: self.roles[n] for n, _ in self.users}, "seconds": round(time.time() - t0, 1)}

    def check_server_relations(self):
        """clause (d) on observed middleware decisions: monotonicity on registered routes, union, unknown role"""
        reg = set(self.registered)
        counts = {"monotonicity_pairs": 0, "union_pairs": 0, "unknown_role_pairs": 0}
        for carrier in ("cookie", "header"):
            dec = {n: self.server_dec.get((n, carrier), {}) for n, _ in self.users}
            for (raw, m) in sorted(dec["c17_mgr"]):
                cv, cd, cm = (dec[n].get((raw, m)) for n in ("c17_vis", "c17_dev", "c17_mgr"))
                if "error" in (cv, cd, cm) or None in (cv, cd, cm):
                    continue
                v, d, mg = passed(cv), passed(cd), passed(cm)
                canon = self.spell[raw][1] if raw in self.spell else raw
                wit = {"path": raw, "method": m, "carrier": carrier, "visitor": cv, "developer": cd, "manager": cm}
                if (raw, m) in reg:
                    counts["monotonicity_pairs"] += 1
                    route = "%s %s" % (m, raw)
                    # reported at server level only where the function-level table itself is monotone (otherwise the cause is named there)
                    if (raw, m) not in self.func_mono_broken:
                        if cv == "handler" and not d:
                            self.defer("monotonicity/server/visitor-served-developer-refused", family(raw), route, wit)
                        if cd == "handler" and not mg:
                            self.defer("monotonicity/server/developer-served-manager-refused", family(raw), route, wit)
                for name, _ in self.users:
                    rs = self.roles[name]
                    obs = dec[name].get((raw, m))
                    if len(rs) < 2 or obs in (None, "error"):
                        continue
                    singles = [dec.get(SINGLE_ROLE_USER.get(r), {}).get((raw, m)) for r in rs]
                    if None in singles or "error" in singles:
                        continue
                    counts["union_pairs"] += 1
                    if passed(obs) != any(passed(x) for x in singles):
                        self.defer("multi-role-not-union/server/%s" % USER_LABEL[name], family(canon), "%s %s" % (m, canon),
                                   dict(wit, user=name, roles=rs, observed=obs, single_role_decisions=dict(zip(rs, singles))))
                for un in UNKNOWN_USERS:
                    u = dec.get(un, {}).get((raw, m))
                    if u is None:
                        continue
                    counts["unknown_role_pairs"] += 1
                    if u == "handler" and is_api(canon) and canon not in EXEMPT_API and (raw, m) not in self.none_served:
                        self.violation("unknown-role-served/roles=%s" % ",".join(self.roles[un]), dict(wit, user=un, roles=self.roles[un], observed=u))
        self.out.extra["server_relations"] = counts

    # ---- expired sessions on the short-TTL node
    def phase_expired(self):
        rig = self.rigb
        t0 = time.time()
        rig.create_users(self.users)
        toks = {}
        for name, _ in self.users:
            tok = rig.login(name)
            t_login = time.time()
            r = send(rig.node, {"method": "GET", "path": B + "/user/web_resources"}, tok, "cookie")
            rig.count()
            if classify(r) not in ("handler", "noperm"):     # session known to the middleware (grants are judged elsewhere)
                raise common.Inconclusive("short-TTL node: fresh session of %s not accepted: %s" % (name, brief(r)))
            toks[name] = (tok, t_login)
        last = max(t for _, t in toks.values())
        time.sleep(max(0.0, last + 3.5 - time.time()))
        L = self.L + self.kept
        quick = self.tier == "quick"
        n = 0
        for name, _ in self.users:
            carriers = ("cookie", "header") if (not quick or name in ("c17_mgr", "c17_vis")) else ("cookie",)
            for carrier in carriers:
                full = not quick or (name == "c17_mgr" and carrier == "cookie")
                self.do_requests(rig, L if full else self.R + self.kept, toks[name][0], carrier, name, "expired", [], False, "exp")
                n += 1
        # state-based: the manager's expired session on the templates that need no preparation
        tpls = [tp for tp in self.tpls if tp["setup"] is None]
        pre = "xp%s-" % self.uid
        f0 = fingerprint(rig, CLASSES, [pre])
        for tp in tpls:
            for carrier in ("cookie", "header"):
                tag = "%s%s-%s" % (pre, tp["id"], carrier[0])
                req = build_request(tp, tp["path"], tag, None)
                r = send(rig.node, req, toks["c17_mgr"][0], carrier)
                rig.count()
                self.judge(tp["path"], tp["path"], tp["method"], classify(r), r, "c17_mgr", "expired", carrier, [], False, req)
        f1 = fingerprint(rig, CLASSES, [pre])
        accepted = any(st == "expired" for _, _, st, _, _ in self.invalid_hits)
        for ch in fp_diff(f0, f1):
            if accepted:
                # consequence of expired sessions being accepted, which is reported as invalid-session-accepted/expired/<carrier>
                self.note("state-changed-through-accepted-expired-session")
                continue
            tid = self.tpl_of_key(ch["key"], pre)
            self.defer("state-changed/expired-session", {tp["id"]: tp["group"] for tp in self.tpls}.get(tid, "other"), tid,
                       {"change": ch, "session": "expired manager session"})
        self.out.extra["expired"] = {"session_ttl_s": 2, "sessions_x_carriers": n, "pairs_per_session": len(L), "admin_relogins": rig.relogins,
                                     "state_templates": len(tpls), "seconds": round(time.time() - t0, 1)}

    def tpl_of_key(self, key, pre):
        m = re.search(re.escape(pre) + r"([a-z0-9-]+?)(-s\d+)?-[ch]($|[|_.])", key)
        if m:
            return m.group(1)
        return "unattributed:" + key.split("|")[0]

    # ---- state-based blocks
    def phase_state(self):
        rig = self.rig
        t0 = time.time()
        ineffective, effective, unprepared = [], [], []
        # admin positive control of every template: the class fingerprint must change
        pre = "pc%s-" % self.uid
        for tp in self.tpls:
            if tp["path"].startswith(B + "/transfer/"):
                continue    # listed for no role: refused to the admin as well, no positive control possible (still sent in every block)
            tag = "%s%s-c" % (pre, tp["id"])
            ok, ctx = prepare(tp, rig, tag)
            if not ok:
                unprepared.append(tp["id"])
                continue
            f0 = fp_one(rig, tp["class"], [pre])
            r = send(rig.node, build_request(tp, tp["path"], tag, ctx), rig.admin)
            rig.count()
            f1 = fp_one(rig, tp["class"], [pre])
            if tp["group"] == "transfer":
                for _ in range(40):
                    if fp_diff(f0, f1):
                        break
                    time.sleep(0.1)
                    f1 = fp_one(rig, tp["class"], [pre])
            if classify(r) == "handler" and fp_diff(f0, f1):
                effective.append(tp["id"])
            else:
                ineffective.append({"template": tp["id"], "response": brief(r), "class": classify(r)})
        self.effective = set(effective)
        # negative blocks
        ALL = CLASSES + ["transfer"]
        UT = ["users", "transfer"]
        actors = [("visitor", "c17_vis", rig.login("c17_vis"), "cookie", ALL, "valid"),
                  ("visitor", "c17_vis", rig.login("c17_vis"), "header", ALL, "valid"),
                  ("developer", "c17_dev", rig.login("c17_dev"), "cookie", UT, "valid"),
                  ("developer", "c17_dev", rig.login("c17_dev"), "header", UT, "valid"),
                  ("visitor+developer", "c17_vd", rig.login("c17_vd"), "cookie", UT, "valid"),
                  ("unknown-role", "c17_unk", rig.login("c17_unk"), "cookie", ALL, "valid"),
                  ("no-session", "-", None, "cookie", ALL, "none"),
                  ("garbage-session", "-", "%064x" % self.rnd.getrandbits(256), "header", ALL, "garbage")]
        if self.tier != "quick":
            actors += [("unknown-role", "c17_unk", rig.login("c17_unk"), "header", ALL, "valid"),
                       ("unknown-role", "c17_unk2", rig.login("c17_unk2"), "cookie", ALL, "valid"),
                       ("unknown+developer", "c17_ud", rig.login("c17_ud"), "cookie", UT, "valid"),
                       ("visitor+developer", "c17_vd", rig.login("c17_vd"), "header", UT, "valid"),
                       ("empty-token", "-", "", "cookie", ALL, "garbage")]
        lo = rig.login("c17_mgr")
        send(rig.node, {"method": "POST", "path": B + "/login/logout"}, lo, "cookie")
        rig.count()
        actors.append(("logged-out-session", "c17_mgr", lo, "cookie", ALL, "logged-out"))
        blocks = []
        for i, (label, user, tok, carrier, groups, state) in enumerate(actors):
            pre = "b%d%s-" % (i, self.uid)
            todo = []
            for tp in self.tpls:
                if tp["group"] not in groups:
                    continue
                # templates without a successful admin control are sent as well (a change is a change); the evidence lists which
                # refusals are backed by a positive control
                spells = [tp["path"]] + [raw for raw, canon, m in self.kept if canon == tp["path"] and m == tp["method"]]
                for si, raw in enumerate(spells):
                    tag = "%s%s-%s" % (pre, tp["id"], carrier[0]) if si == 0 else "%s%s-s%d-%s" % (pre, tp["id"], si, carrier[0])
                    ok, ctx = prepare(tp, rig, tag)
                    if not ok:
                        self.note("template-preparation-failed/%s" % tp["id"])
                        continue
                    todo.append((tp, raw, tag, ctx))
            f0 = fingerprint(rig, CLASSES, [pre])
            served = []
            for tp, raw, tag, ctx in todo:
                req = build_request(tp, raw, tag, ctx)
                r = send(rig.node, req, tok, carrier)
                rig.count()
                cls = classify(r)
                if cls == "handler":
                    served.append(tp["id"])
                if state != "valid":
                    self.judge(raw, tp["path"], tp["method"], cls, r, user, state, carrier, [], False, req)
            if served and any(tp["group"] == "transfer" for tp, _, _, _ in todo):
                time.sleep(0.8)
            f1 = fingerprint(rig, CLASSES, [pre])
            diff = fp_diff(f0, f1)
            served_transfer = [t for t in served if "transfer" in t]
            for ch in diff:
                if state not in ("valid", "none") and served:
                    # consequence of the invalid session being accepted, reported once as invalid-session-accepted/<state>/<carrier>
                    self.note("state-changed-through-accepted-%s-session" % state)
                    continue
                tid = self.tpl_of_key(ch["key"], pre)
                if tid.startswith("unattributed") and served_transfer:
                    tid = served_transfer[0]     # a served full-data import rewrites objects of every class
                cls_of = {tp["id"]: tp["group"] for tp in self.tpls}
                self.defer("state-changed/%s" % label, cls_of.get(tid, "other"), tid, {"actor": label, "user": user, "roles": self.roles.get(user), "session": state,
                                                                       "carrier": carrier, "template": tid, "change": ch})
            # transfer export must not be served to anyone below manager
            for path in (A + "/transfer/export", B + "/transfer/export"):
                r = send(rig.node, {"method": "GET", "path": path}, tok, carrier)
                rig.count()
                if state != "valid":
                    self.judge(path, path, "GET", classify(r), r, user, state, carrier, [], False, {"method": "GET", "path": path})
                elif classify(r) == "handler":
                    self.violation("transfer-export-served/%s/GET %s" % (label, path), {"actor": label, "user": user, "carrier": carrier, "response": brief(r)})
            blocks.append({"actor": label, "carrier": carrier, "templates": len(todo), "reached_a_handler": len(served), "changed_keys": len(diff),
                           "fingerprint_keys": len(f1)})
        self.out.extra["state_based"] = {"templates": len(self.tpls), "classes_unreadable_for_admin": dict(UNREADABLE), "effective_with_admin": sorted(effective), "ineffective_with_admin": ineffective,
                                         "preparation_failed": unprepared, "blocks": blocks, "seconds": round(time.time() - t0, 1)}
        if len(effective) < 35:
            raise common.Inconclusive("only %d of %d mutating templates were effective with the admin session: %s" % (len(effective), len(self.tpls), ineffective[:6]))

    # ---- self-service (assumption: own-password reset and logout are not "changing users")
    def phase_selfservice(self):
        rig = self.rig
        res = {}
        for name in ("c17_vis", "c17_dev"):
            tok = rig.login(name)
            before = fp_users(rig, [])
            r = send(rig.node, {"method": "POST", "path": B + "/user/reset_password", "body": {"oldPassword": pw(name), "newPassword": pw(name)}}, tok)
            rig.count()
            after = fp_users(rig, [])
            others = [c for c in fp_diff(before, after) if c["key"] != "user|%s" % name]
            res[name] = {"response": brief(r, 80), "other_users_changed": len(others)}
            for c in others:
                self.violation("state-changed/%s/reset-password-changed-another-user" % USER_LABEL[name], {"change": c, "user": name})
        self.out.extra["self_service"] = res


def logout_race_part(out, node, user, password_fn):
    """a session ends when the logout is ANSWERED: a request that is already queued behind the logout on the same connection
    (one TCP write: logout + API call) must be refused, in every round"""
    import socket
    rounds, hits, judged = 10, [], 0
    for i in range(rounds):
        tok, r = node.console_login(user, password_fn(user), wait=10)
        if not tok:
            continue
        host = "127.0.0.1:%d" % node.console_port
        req1 = ("POST %s/login/logout HTTP/1.1\r\nHost: %s\r\nCookie: token=%s\r\nContent-Length: 0\r\n\r\n" % (B, host, tok)).encode()
        req2 = ("GET %s/user/list?pageNo=1&pageSize=5 HTTP/1.1\r\nHost: %s\r\nCookie: token=%s\r\nConnection: close\r\n\r\n" % (B, host, tok)).encode()
        try:
            sk = socket.create_connection(("127.0.0.1", node.console_port), timeout=5)
            sk.sendall(req1 + req2)
            buf = b""
            sk.settimeout(5)
            while True:
                chunk = sk.recv(65536)
                if not chunk:
                    break
                buf += chunk
            sk.close()
        except OSError:
            continue
        parts = buf.split(b"HTTP/1.1 ")
        if len(parts) < 3:
            continue
        second = parts[2]
        judged += 1
        head = second.split(b"\r\n\r\n", 1)[0].lower()
        body = second.split(b"\r\n\r\n", 1)[1] if b"\r\n\r\n" in second else b""
        refused = b"no-login: 1" in head or second[:3] in (b"401", b"403", b"302") or b"NO_LOGIN" in body
        if not refused and second[:3] == b"200" and b"\"list\"" in body:
            hits.append({"round": i, "status": second[:3].decode(), "body": body[:120].decode("utf-8", "replace")})
    out.evaluations += judged
    if hits:
        out.violation("invalid-session-accepted/logged-out/request-queued-behind-the-logout", {"rounds": rounds, "judged": judged, "accepted": len(hits), "first": hits[0], "user": user})
    elif judged:
        out.shape("logged-out/pipelined-behind-logout/refused")
    out.extra["logout_race"] = {"rounds": rounds, "judged": judged, "accepted": len(hits)}


def restart_session_part(out, wd):
    """a session that ran out stays refused when the session store is rebuilt at start-up - from the raft log, and from a
    snapshot once one was written while the session was still alive. Two short-TTL nodes (one per variant), in parallel."""
    TTL = 9
    probe = {"method": "GET", "path": B + "/user/web_resources"}
    facts = {}

    def one(variant):
        env = {"RNACOS_CONSOLE_LOGIN_TIMEOUT": str(TTL), "RNACOS_CONSOLE_LOGIN_ONE_HOUR_LIMIT": "100000", "RUST_LOG": "warn,rnacos::raft=info"}
        if variant == "snapshot":
            env["RNACOS_RAFT_SNAPSHOT_LOG_SIZE"] = "20"
        node = procrig.Node(wd, 20 + ("log-replay", "snapshot", "after-expiry").index(variant), env=env, name="sess-" + variant)
        f = {"variant": variant}
        try:
            node.start(timeout=60)
            tok, r = node.console_login("admin", "admin", wait=20)
            if not tok:
                return dict(f, inconclusive="admin login failed: %s" % r.body[:120])
            t_login = time.time()
            if classify(send(node, probe, tok)) != "handler":
                return dict(f, inconclusive="fresh session not accepted")
            if variant == "snapshot":
                for i in range(70):
                    node.post("/nacos/v1/cs/configs", form={"dataId": "c17s%d" % i, "group": "g", "content": "v%d" % i})
                t1 = time.time()
                while time.time() - t1 < 4 and "snapshot" not in node.tail_log(200000).lower():
                    time.sleep(0.2)
                f["snapshot_seen_in_log"] = "snapshot" in node.tail_log(200000).lower()
                import glob
                f["snapshot_files"] = len(glob.glob(os.path.join(node.dir, "**", "snapshot*"), recursive=True))
            if variant == "after-expiry":
                # the session runs out BEFORE the stop: refused by the running node, and still refused by the node that rebuilt its
                # session store from the log a moment ago (whatever the rebuild stamps on the entry)
                time.sleep(max(0.0, t_login + TTL + 1.5 - time.time()))
                f["refused_before_restart"] = not passed(classify(send(node, probe, tok)))
                if not f["refused_before_restart"]:
                    return dict(f, hits=[{"request": "GET " + probe["path"], "carrier": "cookie", "answer": "accepted %.1f s after a login with a %d s session, before any restart" % (time.time() - t_login, TTL)}],
                                fresh_login_accepted=True, probes=1)
            else:
                # half of the session's life lies before the stop, so that an expiry recomputed at start-up would reach well
                # beyond the real one
                time.sleep(max(0.0, t_login + TTL * 0.55 - time.time()))
            node.kill()
            node.start(timeout=60)
            f["restart_done_after_login_s"] = round(time.time() - t_login, 1)
            if time.time() - t_login < TTL - 1.5:
                f["accepted_within_ttl_after_restart"] = classify(send(node, probe, tok)) == "handler"
            time.sleep(max(0.0, t_login + TTL + 1.5 - time.time()))
            f["age_at_probe_s"] = round(time.time() - t_login, 1)
            hits = []
            for carrier in ("cookie", "header"):
                for req in (probe, {"method": "GET", "path": B + "/user/list", "params": {"pageNo": 1, "pageSize": 10}},
                            {"method": "POST", "path": B + "/namespaces/add", "form": {"namespaceId": "c17sx" + carrier, "namespaceName": "x"}}):
                    r = send(node, req, tok, carrier)
                    f["probes"] = f.get("probes", 0) + 1
                    if passed(classify(r)):
                        hits.append({"request": "%s %s" % (req["method"], req["path"]), "carrier": carrier, "answer": brief(r)})
            tok2, _ = node.console_login("admin", "admin", wait=20)
            f["fresh_login_accepted"] = bool(tok2) and classify(send(node, probe, tok2)) == "handler"
            f["hits"] = hits
            return f
        except common.Inconclusive as e:
            return dict(f, inconclusive=str(e)[:200])
        except OSError as e:
            return dict(f, inconclusive=repr(e)[:200])
        finally:
            node.kill()

    with ThreadPoolExecutor(max_workers=3) as ex:
        res = list(ex.map(one, ("log-replay", "snapshot", "after-expiry")))
    n = 0
    for f in res:
        v = f["variant"]
        hits = f.pop("hits", None)
        facts[v] = f
        if "inconclusive" in f or hits is None:
            continue
        n += f.get("probes", 0)
        if v == "snapshot" and not f.get("snapshot_seen_in_log"):
            facts[v]["note"] = "no snapshot observed before the restart: counts as a second log-replay run"
        if not f.get("fresh_login_accepted"):
            facts[v]["inconclusive"] = "fresh login not accepted after the restart"
            continue
        if hits:
            out.violation("invalid-session-accepted/expired-after-restart/%s" % v, {"session_ttl_s": TTL, "facts": f, "first": hits[0], "n_hits": len(hits)})
        else:
            out.shape("expired-session-after-restart/%s/refused" % v)
    out.extra["expired_session_after_restart"] = facts
    return n


def leaderless_node_part(out, wd, registered):
    """a node that cannot reach a raft leader (not initialised, no join address): its session lookups fail. Every API route must
    still be refused without a session and with a garbage token - a lookup error is not a login."""
    import procrig
    node = procrig.Node(wd, 9, auto_init=False, name="leaderless")
    n = 0
    try:
        node.start()
        time.sleep(1.0)
        probes = [(p, m) for (p, m) in registered if is_api(p) and m in ("GET", "POST")]
        probes = [x for x in probes if not any(k in x[0] for k in ("login", "captcha", "oauth2"))][:60]
        hits = []
        for (p, m) in probes:
            for label, tok in (("no-session", None), ("garbage-token", "c17" + "f" * 61)):
                try:
                    r = node.console(m, p, token=tok, form={} if m == "POST" else None, timeout=8)
                except OSError:
                    continue
                n += 1
                body = r.text()[:200]
                refused = r.status in (401, 403) or "NO_LOGIN" in body or "NO_PERMISSION" in body or r.status in (301, 302, 307)
                if not refused and r.status not in (404, 405):
                    hits.append({"route": "%s %s" % (m, p), "session": label, "status": r.status, "body": body})
        if hits:
            out.violation("leaderless-node/api-served-without-valid-session/%s" % hits[0]["session"], {"first": hits[0], "n_hits": len(hits), "routes": sorted({h["route"] for h in hits})[:20]})
        elif n:
            out.shape("leaderless-node/refused")
        out.extra["leaderless_node_probes"] = n
    except common.Inconclusive as e:
        out.extra["leaderless_node_probes"] = "inconclusive: %s" % str(e)[:200]
    finally:
        node.kill()
    return n


def run(tier, seed):
    common.build(need_bin=True)
    wd = common.workdir("c17")
    out = Outcome("C17", tier, seed)
    out.rule = ("console route table discovered by observation with an admin session (candidate literals x 7 methods, kept = reached a handler; what the "
                "admin is refused is re-probed with the developer's and visitor's sessions so that routes hidden from the manager still count); "
                "every registered path x 7 methods (+ spellings that still reach a handler, + all other candidates) requested in the session states "
                "none / garbage / logged-out / expired (2 s TTL node) / valid for visitor, developer, manager, visitor+developer and unknown-role users, "
                "token in cookie and in Token header; middleware answer compared with the repository's own match_url_by_roles evaluated for every "
                "(path, method) x every role sequence over {0,1,2,'',9,admin} up to length 3; mutating templates run per role with admin-read "
                "fingerprints before/after; distinct non-trivial = registered (path, method) pairs whose admin positive control reached the handler")
    out.assumptions = ["own-password reset and logout are self-service, not 'changing users'",
                       "login endpoints exempt from the session requirement: login, captcha, login configuration, OAuth2 callback (v1 and v2)",
                       "page routes (SPA shell, assets) are not API calls: a static-pattern spelling that only returns the shell/asset without a session is noted, not a violation",
                       "a refusal of a request the table would grant (under-grant) is noted, not a violation; only over-grants and broken monotonicity are",
                       "state fingerprints are admin reads through the console API of namespaces '' and the seed namespace"]
    out.min_nontrivial = 60
    chk = Check(tier, seed, wd, out)
    try:
        try:
            chk.run()
        except common.Inconclusive as e:
            # violations observed before a later phase became impossible stay violations (e.g. the manager lost a read grant, so the
            # admin-read fingerprints of the state-based phase cannot be taken); without any violation the run is inconclusive
            chk.flush_invalid_hits()
            chk.flush_deferred()
            if not out.violations:
                raise
            out.extra["incomplete"] = str(e)[:500]
            common.log("C17: later phase not completed: %s" % str(e)[:300])
        lr_node = None
        try:
            lr_node = procrig.Node(wd, 12, env={"RNACOS_CONSOLE_LOGIN_ONE_HOUR_LIMIT": "100000"}, name="logoutrace")
            lr_node.start()
            logout_race_part(out, lr_node, "admin", lambda u: "admin")
        except Exception as e:      # harness trouble is never a verdict
            out.extra["logout_race"] = "inconclusive: %r" % e
        finally:
            if lr_node is not None:
                lr_node.kill()
        leaderless_requests = leaderless_node_part(out, wd, getattr(chk, "registered", None) or [])
        leaderless_requests += restart_session_part(out, wd)
        rq = chk.rig.requests + chk.rigb.requests + leaderless_requests
        out.evaluations = rq + chk.func_evals
        out.extra["requests"] = rq
        out.extra["function_evaluations"] = chk.func_evals
        out.extra["notes"] = dict(sorted(chk.notes.items()))
        out.exhaustive = True
        out.extra["exhaustive_scope"] = (
            "function level: every candidate (path, method) x every role sequence of length <= 3 over the 6 role strings (259 sequences); "
            "server level: every discovered registered path x 7 methods x {no session, one garbage token, one logged-out session, the manager's expired "
            "session, valid session of each test user in cookie and in Token header}; the remaining garbage kinds / logged-out sessions / expired sessions "
            + ("are enumerated over registered path x 7 methods as well (thorough)" if tier != "quick" else
               "are enumerated over the registered (path, method) pairs only (quick)")
            + "; spellings and non-registered candidates are sampled families, not exhaustive")
        regs = getattr(chk, "registered", None) or []
        if not regs:
            raise common.Inconclusive(out.extra.get("incomplete", "no route table"))
        pick = [regs[i] for i in sorted(chk.rnd.sample(range(len(regs)), min(4, len(regs))))]
        for p, m in pick:
            row = chk.table.rows[(p, m)]
            out.samples.append({"route": "%s %s" % (m, p), "function_table": {r or "''": row["allow"][chk.table.idx[(r,)]] == "1" for r in ROLE_STRINGS},
                                "server": {n: chk.server_dec.get((n, "cookie"), {}).get((p, m)) for n, _ in chk.users}})
        return out.finish()
    finally:
        shutil.rmtree(wd, ignore_errors=True)


def replay(path):
    """re-runs the sweep with the witness' tier and seed on fresh nodes and reports whether the same signature is observed again"""
    w = json.load(open(path))
    print(json.dumps({k: w.get(k) for k in ("property", "signature", "seed", "tier", "count")}, indent=1))
    print(json.dumps(w.get("witness"), indent=1, default=str)[:3000])
    rc = run(w.get("tier", "quick"), int(w.get("seed", 1)))
    ev = json.load(open(os.path.join(common.EVID, "C17.json")))
    seen = [v["signature"] for v in ev["coverage"].get("new_violations", []) + ev["coverage"].get("known_findings_observed", [])]
    if w.get("signature") in seen:
        print("VIOLATION property=C17 replay=%s signature=%s (reproduced)" % (path, w.get("signature")))
        return 1
    print("replay: signature %r not observed again (exit code of the full run: %d)" % (w.get("signature"), rc))
    return 0 if rc in (0, 1) else rc
