"""C16 — With auth on, no data endpoint (HTTP or gRPC) is served without a valid token.

Rig B (real binary).  Steps (see DESIGN.md "C16"):
  1. route table by observation on a throw-away *discovery* instance (candidates = string literals of the route-configuration
     sources, each x 7 methods with a valid token; kept = not answered with the router's own empty 404/405);
  2. path spellings per registered route, kept when they still reach a handler with a valid token;
  3. enforcement sweep on a fresh seeded *target* instance: (route, method, spelling) x carrier x token value, oracle = 403 and
     unchanged data fingerprint; positive controls afterwards;
  4. gRPC through `vh grpc-client`: data request types x token cases on the target; cluster-internal types x ClusterToken cases
     on instances started with RNACOS_CLUSTER_TOKEN.
Signatures (stable; a witness is shrunk to its minimal cause before it is named):
  http-unprotected-route/<METHOD path>/<read-served|handler-reached|data-changed>-without-valid-token
        the PLAIN spelling of a protected route answers a token-less request (spelled variants of that route are not reported again);
        http-unprotected-route/<nacos|rnacos-v1>/all-routes/served-without-valid-token when every route of the prefix is open
  http-bypass/<spelling-family>/<nacos|rnacos-v1>/<all-routes|METHOD path>/<read-served|handler-reached|data-changed>-without-valid-token
        only a re-spelled path slips through; compound families (a+b) are folded into a single family that bypasses on its own;
        all-routes = every route of that prefix that has a working spelling of the family; data-changed = attributed by replaying
        the token-less mutating requests one by one between fingerprints on a re-seeded target
  http-invalid-token-accepted/<empty|garbage|expired|other-server|..>/<all-routes|METHOD path>
        "no token" is refused but this token value is accepted (carriers in the witness)
  http-data-changed/although-every-answer-was-403
  grpc-bypass/<Type>/no-token/served | grpc-bypass/<Type>/<case>-token/served          grpc-data-changed/by-requests-without-valid-token
  grpc-cluster-bypass/<all-cluster-types|Type>/<absent|empty|wrong|prefix-of-right|..>-cluster-token/<auth-on|auth-off>/served
"""
import glob
import json
import os
import random
import re
import shutil
import threading
import time
import urllib.parse
from concurrent.futures import ThreadPoolExecutor

import common
import grpcrig
import procrig
from common import Inconclusive, Outcome

METHODS = ["GET", "POST", "PUT", "DELETE", "PATCH", "HEAD", "OPTIONS"]
MUTATING = ("POST", "PUT", "DELETE", "PATCH")
# exempt per the property statement: login endpoints, /nacos/metrics, the file-gated /nacos/v1/raft/close-write
LOGIN_PATHS = ["/nacos/v1/auth/login", "/nacos/v1/auth/users/login", "/nacos/v3/auth/user/login", "/rnacos/v1/auth/user/login"]
EXEMPT = set(LOGIN_PATHS + ["/nacos/metrics", "/nacos/v1/raft/close-write"])
ROUTE_SOURCES = ["src/web_config.rs", "src/openapi/**/*.rs", "src/raft/network/mod.rs"]
PREFIX_CONST_SOURCE = "src/openapi/constant.rs"
GRPC_TYPE_SOURCE = "src/grpc/handler/mod.rs"
CARRIERS = ["bearer", "auth-raw", "header", "query", "form"]
NS = "c16ns"
SWEEP_CONTENT = "C16-WRITTEN-BY-UNAUTHENTICATED-SWEEP"
CLUSTER_TOKEN = "c16-cluster-token-7f3a9d"
LOGIN_TTL = 4          # seconds, RNACOS_API_LOGIN_TIMEOUT of the target
AUTH_ENV = {"RNACOS_ENABLE_OPEN_API_AUTH": "true", "RNACOS_API_LOGIN_ONE_MINUTE_LIMIT": "1000000", "RNACOS_HTTP_WORKERS": "4"}

# one parameter set understood by every data handler (unknown keys are ignored); it names SEEDED objects so that a request that
# slips through really reads / overwrites / removes something the fingerprint sees
UNI = {
    "dataId": "c16-cfg", "group": "DEFAULT_GROUP", "tenant": NS, "content": SWEEP_CONTENT, "desc": "c16",
    "serviceName": "c16-svc", "groupName": "DEFAULT_GROUP", "namespaceId": NS, "clusterName": "DEFAULT", "ip": "10.16.0.9",
    "port": "8016", "weight": "5", "enabled": "false", "healthy": "true", "ephemeral": "false", "metadata": '{"by":"sweep"}',
    "customNamespaceId": "c16ns-created", "namespaceName": "c16-created", "namespace": NS, "namespaceShowName": "c16-renamed",
    "namespaceDesc": "c16", "pageNo": "1", "pageSize": "10", "protectThreshold": "0.5",
}
UNI_Q = urllib.parse.urlencode(UNI)


# --------------------------------------------------------------------------------------------------------------- http helpers
class Stats:
    def __init__(self):
        self.lock = threading.Lock()
        self.sent = 0
        self.io_errors = 0


STATS = Stats()


def send(port, method, spelled, query=UNI_Q, headers=None, form=None, body=None, timeout=15):
    """one request, path sent verbatim; returns procrig.Resp or None (I/O error twice)"""
    path = spelled + (("&" if "?" in spelled else "?") + query if query else "")
    for attempt in (0, 1):
        try:
            with STATS.lock:
                STATS.sent += 1
            return procrig.http(port, method, path, headers=headers, form=form, body=body, timeout=timeout)
        except (OSError, ValueError, procrig.httpclient.HTTPException):
            with STATS.lock:
                STATS.io_errors += 1
            time.sleep(0.05 * (attempt + 1))
    return None


def router_default(method, r):
    """the router's own answer: empty-bodied 404 (no resource) / 405 (no method) / 400 (unparsable request line)"""
    if r is None:
        return True
    if r.status in (404, 405, 400):
        return method == "HEAD" or len(r.body) == 0
    return False


def with_token(carrier, value, query=UNI_Q):
    """-> (query, headers, form) carrying `value` in `carrier`; value None = no token at all"""
    h, form, q = {}, None, query
    if value is None:
        return q, h, form
    if carrier == "bearer":
        h["Authorization"] = "Bearer " + value
    elif carrier == "auth-raw":
        h["Authorization"] = value
    elif carrier == "header":
        h["accessToken"] = value
    elif carrier == "query":
        q = (query + "&" if query else "") + "accessToken=" + urllib.parse.quote(value)
    elif carrier == "form":
        form = {"accessToken": value}
    return q, h, form


def pmap(fn, items, workers=24):
    with ThreadPoolExecutor(max_workers=workers) as ex:
        return list(ex.map(fn, items))


# --------------------------------------------------------------------------------------------------- step 1: candidate paths
def harvest_literals():
    lits, scopes = set(), set()
    files = []
    for pat in ROUTE_SOURCES:
        files += glob.glob(os.path.join(common.REPO, pat), recursive=True)
    for f in sorted(set(files)):
        try:
            text = open(f, encoding="utf-8", errors="replace").read()
        except OSError:
            continue
        for m in re.finditer(r'"((?:[^"\\\n]|\\.)*)"', text):
            s = m.group(1)
            if s.startswith("/") and not re.search(r"\s", s) and len(s) < 160 and "\\" not in s:
                lits.add(s)
        for m in re.finditer(r'\b(resource|scope|get|post|put|delete|patch|head|route)\s*\(\s*"([^"\n]*)"', text):
            s = m.group(2)
            if re.search(r"\s", s) or "\\" in s:
                continue
            if s and not s.startswith("/"):
                s = "/" + s
            lits.add(s)
            if m.group(1) == "scope":
                scopes.add(s)
    consts = set()
    try:
        text = open(os.path.join(common.REPO, PREFIX_CONST_SOURCE)).read()
        consts = {m.group(1) for m in re.finditer(r'"(/[^"\s]*)"', text)}
    except OSError:
        pass
    return lits, scopes, consts


def concretise(p):
    """fill actix path parameters: {name} -> x1, {name:regex} -> x1"""
    return re.sub(r"\{[^{}]*\}", "x1", p)


def candidates(tier):
    lits, scopes, consts = harvest_literals()
    prefixes = set(scopes) | set(consts)
    if tier != "quick":
        prefixes |= {a.rstrip("/") + b for a in consts for b in consts}
    cands = set()
    for l in lits:
        cands.add(l)
    for p in prefixes:
        for l in lits | {""}:
            cands.add(p.rstrip("/") + l if l else p)
    out = set()
    for c in cands:
        c = concretise(c)
        if not c.startswith("/") or len(c) > 200 or re.search(r"[^A-Za-z0-9/_.~%:@!$&'()*+,;=-]", c):
            continue
        out.add(c)
    return sorted(out), {"literals": len(lits), "scope_literals": sorted(scopes), "prefix_constants": sorted(consts)}


def discover(node, tok, tier, rnd):
    cands, info = candidates(tier)
    hdr = {"accessToken": tok}
    jobs = [(p, m) for p in cands for m in METHODS]

    def probe(j):
        p, m = j
        return j, send(node.http_port, m, p, headers=hdr)

    res = pmap(probe, jobs)
    table = {}
    for (p, m), r in res:
        if r is not None and not router_default(m, r):
            table[(p, m)] = r
    # catch-all detection: a random sibling of the path that is answered identically means the route is a wildcard
    parents = sorted({p.rsplit("/", 1)[0] for (p, m) in table if p.count("/") >= 2})
    wild = {}
    tag = "c16-no-such-route"
    for par, m in [(par, m) for par in parents for m in METHODS]:
        r = send(node.http_port, m, par + "/" + tag, headers=hdr)
        if r is not None and not router_default(m, r):
            wild[(par, m)] = r
    routes, folded = [], {}
    for (p, m), r in sorted(table.items()):
        par = p.rsplit("/", 1)[0]
        w = None
        q = par
        while q:
            if (q, m) in wild and wild[(q, m)].status == r.status and wild[(q, m)].body == r.body:
                w = q
            q = q.rsplit("/", 1)[0]
        if w is not None:
            folded.setdefault((w, m), []).append(p)
            continue
        routes.append({"path": p, "method": m, "status_valid": r.status, "wildcard": False})
    # a wildcard is represented by ONE concrete member per protected prefix it covers (so /rnacos/{_:.*} shows up under /rnacos/v1/)
    for (w, m), members in sorted(folded.items()):
        reps = {}
        for p in members:
            reps.setdefault(prefix_kind(p), p)
        for kind, p in sorted(reps.items(), key=lambda kv: str(kv[0])):
            routes.append({"path": p, "method": m, "status_valid": table[(p, m)].status, "wildcard": True, "wildcard_parent": w,
                           "members_folded": len(members)})
    # a wildcard whose parent lies ABOVE a protected prefix also serves paths under that prefix (e.g. /rnacos/{_:.*} serves
    # /rnacos/v1/<anything not claimed by a scope>): make that visible as a route of its own
    have = {(r["path"], r["method"]) for r in routes}
    for (w, m), wr in sorted(wild.items()):
        for pp in ("/nacos/", "/rnacos/v1/"):
            if not pp.startswith(w + "/"):
                continue
            p = pp + tag
            r = send(node.http_port, m, p, headers=hdr)
            if r is not None and not router_default(m, r) and (p, m) not in have:
                have.add((p, m))
                routes.append({"path": p, "method": m, "status_valid": r.status, "wildcard": True, "wildcard_parent": w, "members_folded": 0})
    # keep only top-most wildcards in the report
    tops = sorted((w, m) for (w, m) in wild if not any((w2, m) in wild and w.startswith(w2 + "/") for (w2, _m) in wild))
    info.update({"candidate_paths": len(cands), "probes": len(jobs), "wildcards": ["%s %s/*" % (m, w) for (w, m) in tops]})
    wild_answers = {(m, r.status, r.body) for (w, m), r in wild.items()}
    return routes, info, wild_answers


def prefix_kind(path):
    """which protected prefix a (decoded, canonical) path lies under"""
    if path.startswith("/nacos/"):
        return "nacos"
    if path.startswith("/rnacos/v1/"):
        return "rnacos-v1"
    return None


# --------------------------------------------------------------------------------------------------------- step 2: spellings
def pct(ch, upper=True):
    s = "%%%02X" % ord(ch)
    return s if upper else s.lower()


def spell_variants(path, tier, rnd):
    """-> list of (family, spelled path). `path` is canonical, starts with one of the protected prefixes."""
    segs = path.split("/")[1:]
    kind = prefix_kind(path)
    npre = 1 if kind == "nacos" else 2          # segments that the middleware's regex looks at
    out = []

    def join(ss):
        return "/" + "/".join(ss)

    def add(fam, sp):
        if sp != path:
            out.append((fam, sp))

    thorough = tier != "quick"
    letters = [(i, j) for i in range(len(segs)) for j, ch in enumerate(segs[i]) if ch.isalnum()]
    pre_letters = [(i, j) for (i, j) in letters if i < npre]
    in_letters = [(i, j) for (i, j) in letters if i >= npre]

    def enc(pos_list, upper=True):
        ss = [list(s) for s in segs]
        for (i, j) in pos_list:
            ss[i][j] = pct(segs[i][j], upper)
        return join(["".join(x) for x in ss])

    # percent-encoded letters inside the prefix the middleware tests
    if pre_letters:
        picks = pre_letters if thorough else [pre_letters[0], pre_letters[len(pre_letters) // 2], pre_letters[-1]]
        for k, pos in enumerate(picks):
            add("pct-encoded-prefix", enc([pos], upper=(k % 2 == 0)))
        if thorough:
            for pos in pre_letters:
                add("pct-encoded-prefix", enc([pos], upper=False))
            for _ in range(6):
                add("pct-encoded-prefix", enc(rnd.sample(pre_letters, min(2, len(pre_letters))), upper=rnd.random() < 0.5))
            add("pct-encoded-prefix", enc(pre_letters))
    # percent-encoded letters in the inner segments
    if in_letters:
        picks = in_letters if thorough and len(in_letters) <= 24 else [in_letters[0], in_letters[-1]]
        for k, pos in enumerate(picks):
            add("pct-encoded-inner", enc([pos], upper=(k % 2 == 0)))
        if thorough:
            add("pct-encoded-inner", enc(in_letters))
    if thorough and pre_letters and in_letters:
        add("pct-encoded-prefix+pct-encoded-inner", enc([pre_letters[0], in_letters[-1]]))
    # case
    add("case-prefix", join([s.upper() if i < npre else s for i, s in enumerate(segs)]))
    add("case-inner", join([s.upper() if i == len(segs) - 1 and i >= npre else s for i, s in enumerate(segs)]))
    if thorough:
        add("case-prefix", join([s.capitalize() if i == 0 else s for i, s in enumerate(segs)]))
        add("case-inner", join([s.upper() if i >= npre else s for i, s in enumerate(segs)]))
        add("case-prefix+case-inner", join([s.upper() for s in segs]))
    # slashes
    add("trailing-slash", path + "/")
    add("dup-slash-lead", "/" + path)
    add("dup-slash-inner", join(segs[:npre]) + "//" + "/".join(segs[npre:]))
    if len(segs) > 1:
        add("dup-slash-inner", join(segs[:-1]) + "//" + segs[-1])
    # ... and at every other segment boundary, in particular inside the prefix the middleware's regexes look at
    for b in range(1, len(segs)):
        if b < npre and "c16-no-such-route" in path:
            # the probe of the free-tail page route /rnacos/{_:.*}: a spelling that leaves the /rnacos/v1/ prefix lands on the same
            # static page shell, which is outside the protected prefixes and serves no data
            continue
        add("dup-slash-in-prefix" if b < npre else "dup-slash-inner", join(segs[:b]) + "//" + "/".join(segs[b:]))
        add("dot-segment-in-prefix" if b < npre else "dot-segment", join(segs[:b]) + "/./" + "/".join(segs[b:]))
    # dot segments
    add("dot-segment", "/." + path)
    add("dot-segment", join(segs[:npre]) + "/./" + "/".join(segs[npre:]))
    add("dotdot-segment", "/c16x/.." + path)
    if len(segs) > npre:
        add("dotdot-segment", join(segs[:npre + 1]) + "/../" + "/".join(segs[npre:]))
    add("pct-encoded-dot-segment", "/%2e" + path)
    add("pct-encoded-dot-segment", join(segs[:npre]) + "/%2E/" + "/".join(segs[npre:]))
    # encoded slashes
    add("pct-encoded-slash", join(segs[:npre]) + "%2F" + "/".join(segs[npre:]))
    if len(segs) > 1:
        add("pct-encoded-slash", join(segs[:-1]) + "%2f" + segs[-1])
    add("pct-encoded-slash", "/" + segs[0] + "%2F" + "/".join(segs[1:]) if len(segs) > 1 else path)
    # double encoding
    if pre_letters:
        i, j = pre_letters[0]
        ss = [list(s) for s in segs]
        ss[i][j] = "%25" + pct(segs[i][j])[1:]
        add("double-pct-encoded-prefix", join(["".join(x) for x in ss]))
    # path parameters
    add("path-param", "/" + segs[0] + ";x=y/" + "/".join(segs[1:]) if len(segs) > 1 else path + ";x=y")
    add("path-param", path + ";x=y")
    # junk suffixes, backslash, absolute-form request target
    add("suffix-junk", path + "%20")
    add("suffix-junk", path + "%00")
    add("suffix-junk", path + "%3F")
    if len(segs) > 1:
        add("backslash", "/" + segs[0] + "\\" + "/".join(segs[1:]))
    add("absolute-form", "http://127.0.0.1" + path)
    # an exempt path hidden in the query string (would fool a check that looks at the whole URI or uses contains())
    add("exempt-path-in-query", path + "?c16decoy=/nacos/v1/auth/login")
    add("exempt-path-in-query", path + "?/nacos/metrics")
    if pre_letters:
        add("absolute-form+pct-encoded-prefix", "http://c16.invalid" + enc([pre_letters[0]]))
    if thorough:
        # two mutations: every single-mutation family once more on top of one encoded prefix / inner letter
        base = [enc([pre_letters[-1]])] if pre_letters else []
        base += [enc([in_letters[0]])] if in_letters else []
        for b in base:
            fam0 = "pct-encoded-prefix" if b == base[0] and pre_letters else "pct-encoded-inner"
            add(fam0 + "+trailing-slash", b + "/")
            add(fam0 + "+dup-slash-lead", "/" + b)
            add(fam0 + "+dot-segment", "/." + b)
            add(fam0 + "+path-param", b + ";x=y")
            add(fam0 + "+suffix-junk", b + "%20")
            add(fam0 + "+case-inner", "/".join(b.split("/")[:-1] + [b.split("/")[-1].upper()]))
    seen, uniq = set(), []
    for fam, sp in out:
        if sp not in seen:
            seen.add(sp)
            uniq.append((fam, sp))
    return uniq


# ------------------------------------------------------------------------------------------------------- seeding / fingerprint
def seed(node, tok):
    h = {"accessToken": tok}
    steps = []

    def ok(r, what):
        steps.append((what, None if r is None else r.status))
        if r is None or r.status != 200:
            raise Inconclusive("seeding %s failed on %s: %s %s" % (what, node.name, r and r.status, r and r.text()[:200]))

    ok(send(node.http_port, "POST", "/nacos/v1/console/namespaces", query=urllib.parse.urlencode(
        {"customNamespaceId": NS, "namespaceName": "c16-seeded"}), headers=h), "namespace")
    for tenant, content in ((NS, "seed-content-in-c16ns"), ("", "seed-content-in-public")):
        ok(send(node.http_port, "POST", "/nacos/v1/cs/configs", query=urllib.parse.urlencode(
            {"dataId": "c16-cfg", "group": "DEFAULT_GROUP", "tenant": tenant, "content": content}), headers=h), "config")
    for ns, ip in ((NS, "10.16.0.9"), ("", "10.16.0.10")):
        ok(send(node.http_port, "POST", "/nacos/v1/ns/instance", query=urllib.parse.urlencode(
            {"serviceName": "c16-svc", "groupName": "DEFAULT_GROUP", "namespaceId": ns, "ip": ip, "port": "8016", "weight": "1",
             "ephemeral": "false", "enabled": "true", "healthy": "true"}), headers=h), "instance")
    return steps


class Fingerprinter:
    """all namespaces, configs (content+md5), services and instances through the console port (own session mechanism,
    independent of the middleware under test) plus reads through the OpenAPI port with a valid token"""

    def __init__(self, node):
        self.node = node
        self.ctok, r = node.console_login()
        if not self.ctok:
            raise Inconclusive("console login failed on %s: %s" % (node.name, r.text()[:200]))

    def cget(self, path, params):
        r = self.node.console("GET", path, token=self.ctok, params=params)
        j = r.json()
        if r.status != 200 or not isinstance(j, dict) or not j.get("success"):
            raise Inconclusive("console read %s failed: %s %s" % (path, r.status, r.text()[:200]))
        return j.get("data")

    def take(self):
        fp = {}
        nss = self.cget("/rnacos/api/console/v2/namespaces/list", {})
        fp["namespaces"] = sorted("%s=%s" % (n.get("namespaceId"), n.get("namespaceName")) for n in nss)
        for n in nss:
            nid = n.get("namespaceId") or ""
            cl = self.cget("/rnacos/api/console/v2/config/list", {"tenant": nid, "pageNo": 1, "pageSize": 1000})
            for c in cl.get("list", []):
                d = self.cget("/rnacos/api/console/v2/config/info", {"tenant": c["tenant"], "group": c["group"], "dataId": c["dataId"]})
                d = d if isinstance(d, dict) else {}
                fp["config %s/%s/%s" % (c["tenant"], c["group"], c["dataId"])] = "%r md5=%s" % ((d.get("value") or "")[:80], d.get("md5"))
            sl = self.cget("/rnacos/api/console/v2/service/list", {"namespaceId": nid, "pageNo": 1, "pageSize": 1000})
            for s in sl.get("list", []):
                key = "service %s/%s/%s" % (nid, s.get("groupName"), s.get("name") or s.get("serviceName"))
                fp[key] = "protect=%s meta=%s" % (s.get("protectThreshold"), json.dumps(s.get("metadata"), sort_keys=True))
                il = self.cget("/rnacos/api/console/v2/instance/list", {"namespaceId": nid, "groupName": s.get("groupName"),
                                                                       "serviceName": s.get("name") or s.get("serviceName")})
                items = il.get("list", []) if isinstance(il, dict) else (il or [])
                for i in items:
                    fp[key + " instance %s:%s" % (i.get("ip"), i.get("port"))] = "weight=%s enabled=%s ephemeral=%s meta=%s" % (
                        i.get("weight"), i.get("enabled"), i.get("ephemeral"), json.dumps(i.get("metadata"), sort_keys=True))
        # through the OpenAPI port, valid token
        tok = self.node.api_login()
        h = {"accessToken": tok}
        for tenant in (NS, ""):
            r = send(self.node.http_port, "GET", "/nacos/v1/cs/configs", query=urllib.parse.urlencode(
                {"dataId": "c16-cfg", "group": "DEFAULT_GROUP", "tenant": tenant}), headers=h)
            fp["openapi config c16-cfg@%s" % tenant] = "%s %s" % (r and r.status, r and r.text()[:200])
        r = send(self.node.http_port, "GET", "/nacos/v1/raft/metrics", query="", headers=h)
        j = (r.json() if r else None) or {}
        fp["raft members"] = json.dumps((j.get("membership_config") or {}).get("members"), sort_keys=True)
        return fp


def fp_diff(a, b):
    d = []
    for k in sorted(set(a) | set(b)):
        if a.get(k) != b.get(k):
            d.append({"item": k, "before": a.get(k), "after": b.get(k)})
    return d


# -------------------------------------------------------------------------------------------------------------- token values
def token_values(tier, rnd, expired, other):
    garbage = "%064x" % rnd.getrandbits(256)
    vals = [("empty", ""), ("garbage", garbage), ("expired", expired), ("other-server", other)]
    if tier != "quick":
        vals += [("garbage-short", "x"), ("expired-uppercased", expired.upper()), ("other-server-truncated", other[:-1]),
                 ("garbage-null-literal", "null")]
    return vals


# ----------------------------------------------------------------------------------------------------------------- HTTP part
def discover_phase(out, tier, rnd, disc, tok_d):
    """steps 1 and 2 on the discovery instance -> (protected, exempt, outside, kept spellings)"""
    seed(disc, tok_d)
    t0 = time.time()
    routes, info, wild_answers = discover(disc, tok_d, tier, rnd)
    info["discovery_s"] = round(time.time() - t0, 1)
    if len(routes) < 10:
        raise Inconclusive("route discovery found only %d (path, method) pairs" % len(routes))
    protected = [r for r in routes if prefix_kind(r["path"]) and r["path"] not in EXEMPT]
    exempt = [r for r in routes if r["path"] in EXEMPT]
    outside = [r for r in routes if not prefix_kind(r["path"])]
    out.extra["route_table"] = ["%s %s -> %d%s" % (r["method"], r["path"], r["status_valid"], " [wildcard %s/*]" % r["wildcard_parent"] if r["wildcard"] else "") for r in routes]
    out.extra["discovery"] = info
    common.log("discovery: %d candidates -> %d registered (path, method) pairs (%d protected, %d exempt, %d outside the protected prefixes) in %.1fs" % (
        info["candidate_paths"], len(routes), len(protected), len(exempt), len(outside), info["discovery_s"]))

    # ---- spellings (discovery instance, valid token)
    hdr_d = {"accessToken": tok_d}
    jobs = []
    for r in protected:
        for fam, sp in spell_variants(r["path"], tier, rnd):
            if r["wildcard"] and any(f in ("pct-encoded-slash", "backslash", "path-param") for f in fam.split("+")):
                continue    # these move the segment boundary: to the router the spelled path is no longer under the protected prefix
            jobs.append((r, fam, sp))

    def probe_sp(j):
        r, fam, sp = j
        return j, send(disc.http_port, r["method"], sp, headers=hdr_d)

    canon = {}
    for r, resp in pmap(lambda r: (r, send(disc.http_port, r["method"], r["path"], headers=hdr_d)), protected):
        if resp is not None:
            canon[(r["path"], r["method"])] = (resp.status, resp.body)

    kept = {}   # (path, method) -> [(family, spelling)]
    tried_fams, kept_fams, fell_to_wildcard = {}, {}, {}
    for (r, fam, sp), resp in pmap(probe_sp, jobs):
        tried_fams[fam] = tried_fams.get(fam, 0) + 1
        if resp is None or router_default(r["method"], resp) or resp.status == 403:
            continue
        if not r["wildcard"] and (r["method"], resp.status, resp.body) in wild_answers and canon.get((r["path"], r["method"])) != (resp.status, resp.body):
            fell_to_wildcard[fam] = fell_to_wildcard.get(fam, 0) + 1
            continue        # answered by a catch-all route, not by this route's handler
        if True:
            kept.setdefault((r["path"], r["method"]), []).append((fam, sp))
            kept_fams[fam] = kept_fams.get(fam, 0) + 1
    out.extra["spelling_families"] = {f: {"tried": tried_fams[f], "still_reach_the_handler": kept_fams.get(f, 0),
                                          "answered_by_a_catch_all_instead": fell_to_wildcard.get(f, 0)} for f in sorted(tried_fams)}
    common.log("spellings: %d tried, %d still reach a handler (%s)" % (len(jobs), sum(kept_fams.values()), ", ".join("%s:%d" % kv for kv in sorted(kept_fams.items()))))

    return protected, exempt, outside, kept


def sweep_phase(out, tier, rnd, target, fper, protected, exempt, outside, kept, expired, tok_d):
    """step 3 on the seeded target: negative sweep, fingerprint comparison, classification, positive controls"""
    fp_before = fper.take()
    values = token_values(tier, rnd, expired, tok_d)
    out.extra["token_values"] = [v for v, _ in values] + ["absent"]
    out.extra["token_carriers"] = CARRIERS

    # ---- enforcement sweep (negative cases)
    cases = []
    for r in protected:
        sps = [("canonical", r["path"])] + kept.get((r["path"], r["method"]), [])
        for fam, sp in sps:
            cases.append((r, fam, sp, None, "absent", None))
            for car in CARRIERS:
                for vname, v in values:
                    cases.append((r, fam, sp, car, vname, v))
    # exempt routes: swept too, for the record only (no oracle)
    rnd.shuffle(cases)

    def neg(c):
        r, fam, sp, car, vname, v = c
        q, h, form = with_token(car, v)
        return c, send(target.http_port, r["method"], sp, query=q, headers=h, form=form)

    t0 = time.time()
    res = pmap(neg, cases)
    out.evaluations += len(cases)
    sweep_s = time.time() - t0
    fails, lost = [], 0
    for c, resp in res:
        if resp is None:
            lost += 1
            continue
        if resp.status != 403:
            fails.append((c, resp))
    if lost > max(20, len(cases) // 50):
        raise Inconclusive("%d of %d sweep requests got no answer" % (lost, len(cases)))
    fp_after = fper.take()
    diff = fp_diff(fp_before, fp_after)
    common.log("sweep: %d requests in %.1fs, %d not answered 403, %d unanswered; fingerprint %s" % (
        len(cases), sweep_s, len(fails), lost, "CHANGED (%d items)" % len(diff) if diff else "unchanged"))
    out.extra["sweep"] = {"requests": len(cases), "seconds": round(sweep_s, 1), "not_403": len(fails), "unanswered": lost,
                          "routes_x_methods": len(protected), "spellings_kept": sum(len(v) for v in kept.values()),
                          "fingerprint_items": len(fp_before), "fingerprint_changed_items": len(diff)}
    classify_http(out, fails, protected, kept, diff, target, fper)
    if not fails and diff:
        out.violation("http-data-changed/although-every-answer-was-403", {"diff": diff[:20]})

    # ---- exempt and outside routes without token: recorded, not judged
    rec = []
    for r in exempt + outside:
        resp = send(target.http_port, r["method"], r["path"])
        out.evaluations += 1
        rec.append("%s %s -> %s" % (r["method"], r["path"], resp and resp.status))
    out.extra["not_judged_without_token"] = {"exempt_by_property": rec[:len(exempt)], "outside_protected_prefixes": rec[len(exempt):]}

    # ---- positive controls (valid token); they change data, hence after the fingerprint comparison
    tok_state = {"t": 0, "tok": None}
    lock = threading.Lock()

    def valid():
        with lock:
            if time.time() - tok_state["t"] > LOGIN_TTL / 2.0:
                tok_state["tok"] = target.api_login()
                tok_state["t"] = time.time()
            return tok_state["tok"]

    pos_fail = []
    carrier_ok = {c: 0 for c in CARRIERS}
    for r in protected:
        okc = []
        for car in CARRIERS:
            if car == "form" and r["method"] == "GET":
                continue    # the middleware documents no body token for GET; nothing to control
            resp = None
            for attempt in (0, 1):
                q, h, form = with_token(car, valid())
                resp = send(target.http_port, r["method"], r["path"], query=q, headers=h, form=form)
                if resp is not None and resp.status != 403:
                    break
            out.evaluations += 1
            if resp is not None and resp.status != 403 and not router_default(r["method"], resp):
                okc.append(car)
                carrier_ok[car] += 1
        key = "%s %s" % (r["method"], r["path"])
        if "header" in okc or len(okc) >= 3:
            out.shape(key)
        else:
            pos_fail.append({"route": key, "carriers_ok": okc})
    out.extra["positive_controls"] = {"routes_ok": len(out.shapes), "routes_failed": pos_fail, "per_carrier_ok": carrier_ok}
    for car, n in carrier_ok.items():
        if n == 0:
            raise Inconclusive("token carrier %r never worked with a valid token: refusals through it prove nothing" % car)
    # carriers must also work on spelled paths? not needed: the negative oracle is 403 for every carrier anyway
    if protected:
        r0 = protected[0]
        out.samples.append({"positive_control": {"method": r0["method"], "route": r0["path"], "carriers": CARRIERS, "token": "valid (fresh login on the target)"},
                            "required": "handler reached (not 403, not the router's empty 404/405)"})
    for c, resp in res:
        if resp is not None and resp.status == 403 and c[3] is not None:
            out.samples.append({"negative_case": {"method": c[0]["method"], "route": c[0]["path"], "spelling_family": c[1], "spelled": c[2],
                                                  "carrier": c[3], "token": c[4]}, "answer": resp.status, "required": 403})
            break


def describe_req(target, c, resp):
    r, fam, sp, car, vname, v = c
    q, h, form = with_token(car, v)
    return {"method": r["method"], "route": r["path"], "spelled_path": sp, "query": q, "headers": h, "form": form,
            "token_case": vname, "carrier": car, "status": resp.status, "body_head": resp.text()[:160]}


def classify_http(out, fails, protected, kept, diff, target, fper):
    if not fails:
        return
    # group by (route, method, spelling): which token cases passed
    by_sp = {}
    for c, resp in fails:
        r, fam, sp, car, vname, v = c
        by_sp.setdefault((r["path"], r["method"], fam, sp), []).append((c, resp))
    path_level, token_level = {}, {}
    for key, lst in by_sp.items():
        if any(c[4] == "absent" for c, _ in lst):
            path_level[key] = lst
        else:
            token_level[key] = lst
    # ---- token-level: some invalid value is accepted although "no token" is refused
    tl = {}
    for (path, method, fam, sp), lst in token_level.items():
        for c, resp in lst:
            tl.setdefault(c[4], []).append((c, resp))
    all_routes = {"%s %s" % (r["method"], r["path"]) for r in protected}
    for vname, lst in sorted(tl.items()):
        routes = sorted({"%s %s" % (c[0]["method"], c[0]["path"]) for c, _ in lst})
        carriers = sorted({c[3] for c, _ in lst})
        witness = {"first": describe_req(target, *lst[0]), "carriers_through_which_it_was_accepted": carriers, "routes": routes[:60],
                   "spelling_families": sorted({c[1] for c, _ in lst}), "cases": len(lst)}
        if set(routes) >= all_routes:
            out.violation("http-invalid-token-accepted/%s/all-routes" % vname, witness)
        else:
            for rt in routes:
                out.violation("http-invalid-token-accepted/%s/%s" % (vname, rt), witness)
    # ---- path-level: the request passes without any token
    canon_open = {(path, method) for (path, method, fam, sp) in path_level if fam == "canonical"}
    groups = {}
    for (path, method, fam, sp), lst in path_level.items():
        if fam != "canonical" and (path, method) in canon_open:
            continue        # shrunk: the plain spelling of this route is already served without a token
        groups.setdefault((fam, prefix_kind(path)), {}).setdefault((path, method), []).append((sp, lst))
    # shrink compound families: A+B is explained by A when A alone already bypasses under the same prefix
    singles = {(fam, kind) for (fam, kind) in groups if "+" not in fam}
    folded = {}
    for (fam, kind), per_route in groups.items():
        tgt = fam
        if "+" in fam:
            for part in fam.split("+"):
                if (part, kind) in singles:
                    tgt = part
                    break
        dst = folded.setdefault((tgt, kind), {"per_route": {}, "compound": set()})
        if tgt != fam:
            dst["compound"].add(fam)
        for rk, sl in per_route.items():
            dst["per_route"].setdefault(rk, []).extend(sl)
    for (fam, kind), grp in sorted(folded.items()):
        per_route = grp["per_route"]
        if fam == "canonical":
            every = {(r["path"], r["method"]) for r in protected if prefix_kind(r["path"]) == kind}
            if set(per_route) >= every and len(every) > 1:
                (path, method), sl = sorted(per_route.items())[0]
                c, resp = [x for x in sl[0][1] if x[0][4] == "absent"][0]
                out.violation("http-unprotected-route/%s/all-routes/served-without-valid-token" % kind,
                              {"first": describe_req(target, c, resp), "routes": sorted("%s %s" % (m, p) for (p, m) in per_route)})
                continue
            for (path, method), sl in sorted(per_route.items()):
                c, resp = [x for x in sl[0][1] if x[0][4] == "absent"][0]
                sym = symptom(method, resp)
                if method in MUTATING:
                    d = replay_writes(out, target, fper, [(c, resp)])
                    if d:
                        sym = "data-changed"
                out.violation("http-unprotected-route/%s %s/%s-without-valid-token" % (method, path, sym), {"first": describe_req(target, c, resp)})
            continue
        fams_here = {fam} | grp["compound"]
        eligible = {(p, m) for (p, m), v in kept.items() if prefix_kind(p) == kind and any(f == fam for f, _ in v) and (p, m) not in canon_open}
        scope_all = bool(eligible) and set(per_route) >= eligible
        read_hits, write_hits = [], []
        for (path, method), sl in sorted(per_route.items()):
            for sp, lst in sl:
                c, resp = [x for x in lst if x[0][4] == "absent"][0]
                (write_hits if method in MUTATING else read_hits).append((c, resp))
        attributed = replay_writes(out, target, fper, write_hits) if write_hits else []
        kinds = []
        if read_hits:
            served = [x for x in read_hits if 200 <= x[1].status < 300]
            kinds.append(("read-served" if served else "handler-reached", served or read_hits, None))
        if write_hits:
            kinds.append(("data-changed" if attributed else "handler-reached", write_hits, attributed))
        for sym, hits, repl in kinds:
            # most telling request first: a config route, else the deepest path (not a static page)
            hits = sorted(hits, key=lambda x: (0 if x[0][0]["path"].endswith("/cs/configs") else 1, 1 if x[0][0]["wildcard"] else 0,
                                             -len(x[0][0]["path"]), x[0][0]["method"], x[0][2]))
            routes = sorted({"%s %s" % (c[0]["method"], c[0]["path"]) for c, _ in hits})
            witness = {"first": describe_req(target, *hits[0]), "routes_affected": routes[:60], "n_routes_affected": len(routes),
                       "n_routes_with_a_kept_spelling_of_this_family": len(eligible), "spellings": sorted({c[2] for c, _ in hits})[:40],
                       "compound_families_folded_in": sorted(grp["compound"]), "every_token_value_and_carrier_passes_too": True}
            if repl:
                witness["data_changes_attributed_by_replay"] = repl[:16]
            if scope_all:
                out.violation("http-bypass/%s/%s/all-routes/%s-without-valid-token" % (fam, kind, sym), witness)
            else:
                for rt in routes:
                    out.violation("http-bypass/%s/%s/%s/%s-without-valid-token" % (fam, kind, rt, sym), witness)


def reset(node):
    """bring the seeded objects back to their seed values (valid token): remove what the universal parameters create, seed again"""
    h = {"accessToken": node.api_login()}
    q = urllib.parse.urlencode
    send(node.http_port, "DELETE", "/nacos/v1/console/namespaces", query=q({"namespaceId": UNI["customNamespaceId"]}), headers=h)
    for ns, ip in ((NS, "10.16.0.9"), ("", "10.16.0.10")):
        send(node.http_port, "DELETE", "/nacos/v1/ns/instance", query=q({"serviceName": "c16-svc", "groupName": "DEFAULT_GROUP", "namespaceId": ns,
                                                                          "ip": ip, "port": "8016", "ephemeral": "false"}), headers=h)
    try:
        seed(node, node.api_login())
    except Inconclusive:
        pass


def replay_writes(out, target, fper, write_hits):
    """attribution of data changes: reset to the seed state, then replay the token-less mutating requests (one spelling per route
    and method) one by one with a fingerprint in between; -> [{request, changed}]"""
    reset(target)
    order = {"POST": 0, "PUT": 1, "PATCH": 2, "DELETE": 3}
    seen, todo = set(), []
    for c, resp in sorted(write_hits, key=lambda x: (order.get(x[0][0]["method"], 9), x[0][0]["path"], x[0][2])):
        k = (c[0]["method"], c[0]["path"])
        if k not in seen:
            seen.add(k)
            todo.append(c)
    res = []
    prev = fper.take()
    for c in todo:
        r2 = send(target.http_port, c[0]["method"], c[2])
        out.evaluations += 1
        time.sleep(0.05)
        cur = fper.take()
        d = fp_diff(prev, cur)
        prev = cur
        if d:
            res.append({"request": "%s %s?<seed parameters>, no token -> %s %s" % (c[0]["method"], c[2], r2 and r2.status, (r2.text()[:60] if r2 else "")),
                        "changed": d[:4]})
    reset(target)
    return res


def symptom(method, resp):
    if method in MUTATING:
        return "handler-reached"
    return "read-served" if 200 <= resp.status < 300 else "handler-reached"


# ----------------------------------------------------------------------------------------------------------------- gRPC part
def grpc_types():
    text = open(os.path.join(common.REPO, GRPC_TYPE_SOURCE)).read()
    return sorted(set(re.findall(r'"([A-Z][A-Za-z]+Request)"', text)))


def is_cluster_type(t):
    return t.startswith("Raft") or t.startswith("NamingRoute")


GRPC_BODIES = {
    "ConfigQueryRequest": {"dataId": "c16-cfg", "group": "DEFAULT_GROUP", "tenant": NS},
    "ConfigPublishRequest": {"dataId": "c16-cfg", "group": "DEFAULT_GROUP", "tenant": NS, "content": "C16-WRITTEN-BY-GRPC-SWEEP"},
    "ConfigRemoveRequest": {"dataId": "c16-cfg", "group": "DEFAULT_GROUP", "tenant": ""},
    "ConfigBatchListenRequest": {"listen": True, "configListenContexts": [{"dataId": "c16-cfg", "group": "DEFAULT_GROUP", "tenant": NS, "md5": "0"}]},
    "InstanceRequest": {"namespace": NS, "serviceName": "c16-svc", "groupName": "DEFAULT_GROUP", "type": "registerInstance",
                        "instance": {"ip": "10.16.0.77", "port": 8077, "weight": 1.0, "healthy": True, "enabled": True, "ephemeral": True,
                                     "clusterName": "DEFAULT", "serviceName": "c16-svc", "metadata": {}}},
    "BatchInstanceRequest": {"namespace": NS, "serviceName": "c16-svc", "groupName": "DEFAULT_GROUP", "type": "batchRegisterInstance",
                             "instances": [{"ip": "10.16.0.78", "port": 8078, "weight": 1.0, "healthy": True, "enabled": True, "ephemeral": True,
                                            "clusterName": "DEFAULT", "serviceName": "c16-svc", "metadata": {}}]},
    "SubscribeServiceRequest": {"namespace": NS, "serviceName": "c16-svc", "groupName": "DEFAULT_GROUP", "subscribe": True, "clusters": ""},
    "ServiceQueryRequest": {"namespace": NS, "serviceName": "c16-svc", "groupName": "DEFAULT_GROUP", "cluster": "", "healthyOnly": False},
    "ServiceListRequest": {"namespace": NS, "groupName": "DEFAULT_GROUP", "pageNo": 1, "pageSize": 10},
    # cluster-internal: stale-term raft messages are answered but change nothing; the route request would WRITE a config
    "RaftVoteRequest": {"term": 0, "candidate_id": 99, "last_log_index": 0, "last_log_term": 0},
    "RaftAppendRequest": {"term": 0, "leader_id": 99, "prev_log_index": 0, "prev_log_term": 0, "entries": [], "leader_commit": 0},
    "RaftSnapshotRequest": {"term": 0, "leader_id": 99, "last_included_index": 0, "last_included_term": 0, "offset": 0, "data": [], "done": False},
    "RaftRouteRequest": {"ConfigSet": {"key": "c16-cluster-cfg\x02DEFAULT_GROUP", "value": "C16-WRITTEN-THROUGH-RaftRouteRequest", "op_user": None,
                                       "config_type": None, "desc": None, "extend_info": {}}},
    "NamingRouteRequest": {"Ping": 1},
}


def grpc_refused_auth(r):
    return r.get("ok") and r.get("type") == "ErrorResponse" and r.get("error_code") == 403


def grpc_refused_cluster(r):
    return r.get("ok") and r.get("type") == "ErrorResponse" and (r.get("error_code") == 403 or "cluster token" in str(r.get("message")))


def short(r):
    return {k: r.get(k) for k in ("ok", "type", "result_code", "error_code", "message", "error") if r.get(k) is not None}


def grpc_data_negative(out, tier, rnd, target, g, expired, other, disc, wd):
    """data request types without / with invalid token on the target (between two fingerprints of the target); which type
    names have a handler at all is probed with a valid token on the throw-away discovery instance"""
    types = grpc_types()
    known = {}
    gd = grpcrig.GrpcClient(disc.grpc_addr, wd, name="grpcc-disc")
    try:
        hdr_valid = {"accessToken": disc.api_login()}
        gd.open_stream("probe")
        for t in types + ["C16NoSuchRequest"]:
            r = gd.request("probe", t, GRPC_BODIES.get(t, {}), headers=hdr_valid if not is_cluster_type(t) else {})
            known[t] = short(r)
    finally:
        gd.stop()
    g.open_stream("data")
    data_types = []
    info = {}
    for t in types:
        r = known[t]
        has_handler = not (r.get("type") == "ErrorResponse" and r.get("error_code") == 302)
        info[t] = {"handler": has_handler, "class": "cluster" if is_cluster_type(t) else ("check" if t in ("ServerCheckRequest", "HealthCheckRequest") else "data")}
        if has_handler and info[t]["class"] == "data":
            data_types.append(t)
    if known["C16NoSuchRequest"].get("error_code") != 302:
        raise Inconclusive("unknown gRPC type not answered 302: %s" % known["C16NoSuchRequest"])
    out.extra["grpc_types"] = info
    if len(data_types) < 5:
        raise Inconclusive("only %d gRPC data types have a handler: %s" % (len(data_types), known))
    garbage = "%064x" % rnd.getrandbits(256)
    cases = [("absent", {})]
    for hn in ("accessToken", "Authorization"):
        cases += [("empty/" + hn, {hn: ""}), ("garbage/" + hn, {hn: garbage}), ("expired/" + hn, {hn: expired}), ("other-server/" + hn, {hn: other})]
    cases += [("garbage/accessToken+ClusterToken", {"accessToken": garbage, "ClusterToken": "x"}), ("absent+ClusterToken", {"ClusterToken": CLUSTER_TOKEN})]
    n = 0
    served = {}
    for t in data_types:
        for cname, h in cases:
            r = g.request("data", t, GRPC_BODIES.get(t, {}), headers=h)
            out.evaluations += 1
            n += 1
            if not r.get("ok"):
                raise Inconclusive("gRPC transport failure on %s/%s: %s" % (t, cname, r))
            if not grpc_refused_auth(r):
                served.setdefault(t, []).append((cname, h, short(r)))
    for t, lst in sorted(served.items()):
        names = [c for c, _, _ in lst]
        if "absent" in names:       # shrunk: no token at all is enough, the other cases follow
            cname, h, ans = [x for x in lst if x[0] == "absent"][0]
            out.violation("grpc-bypass/%s/no-token/served" % t, {"type": t, "headers": h, "body": GRPC_BODIES.get(t, {}), "answer": ans, "also_served": names})
        else:
            for cname, h, ans in lst:
                out.violation("grpc-bypass/%s/%s-token/served" % (t, cname.replace("/", "-in-")), {"type": t, "headers": h, "body": GRPC_BODIES.get(t, {}), "answer": ans})
    out.extra["grpc_data_negative_cases"] = n
    out.samples.append({"grpc_negative_case": {"type": data_types[0], "headers": cases[2][1], "body": GRPC_BODIES.get(data_types[0], {})},
                        "answer": short(r), "required": "ErrorResponse errorCode 403"})
    return data_types


def grpc_data_positive(out, target, g, data_types):
    ok_types = []
    for t in data_types:
        good = 0
        for hn in ("accessToken", "Authorization"):
            r = g.request("data", t, GRPC_BODIES.get(t, {}), headers={hn: target.api_login()})
            out.evaluations += 1
            if r.get("ok") and not grpc_refused_auth(r) and r.get("error_code") != 301:
                good += 1
        if good == 2:
            out.shape("grpc %s" % t)
            ok_types.append(t)
    out.extra["grpc_positive_controls_ok"] = ok_types
    if len(ok_types) < len(data_types):
        out.extra["grpc_positive_controls_failed"] = sorted(set(data_types) - set(ok_types))
    # a refused request must not have been caused by a missing bi-stream: the same connection served the controls above
    g.close_stream("data")


def grpc_cluster_part(out, node, auth_on, wd, tier):
    """cluster-internal request types against a node started with RNACOS_CLUSTER_TOKEN"""
    tag = "auth-on" if auth_on else "auth-off"
    g = grpcrig.GrpcClient(node.grpc_addr, wd, name="grpcc-" + node.name)
    try:
        tok = node.api_login() if auth_on else None
        types = [t for t in grpc_types() if is_cluster_type(t)]
        wrong = [("absent", {}), ("empty", {"ClusterToken": ""}), ("wrong", {"ClusterToken": CLUSTER_TOKEN + "x"}),
                 ("prefix-of-right", {"ClusterToken": CLUSTER_TOKEN[:-1]}), ("wrong-header-name", {"clustertoken": CLUSTER_TOKEN, "Cluster-Token": CLUSTER_TOKEN})]
        if auth_on:
            wrong.append(("absent+valid-accessToken", {"accessToken": tok}))
            wrong.append(("wrong+valid-accessToken", {"accessToken": tok, "ClusterToken": "nope"}))
        served = {}
        leaks = {}
        for t in types:
            for cname, h in wrong:
                r = g.request("c", t, GRPC_BODIES.get(t, {}), headers=h)
                out.evaluations += 1
                if not r.get("ok"):
                    raise Inconclusive("gRPC transport failure on %s/%s: %s" % (t, cname, r))
                if not grpc_refused_cluster(r):
                    leaks.setdefault(cname, []).append((t, h, short(r)))
            r = g.request("c", t, GRPC_BODIES.get(t, {}), headers={"ClusterToken": CLUSTER_TOKEN})
            out.evaluations += 1
            served[t] = short(r)
            if r.get("ok") and not grpc_refused_cluster(r):
                out.shape("grpc-cluster %s %s" % (t, tag))
        if "absent" in leaks:       # shrunk: no ClusterToken header at all is enough
            leaks = {"absent": leaks["absent"]}
        for cname, lst in sorted(leaks.items()):
            ts = sorted({t for t, _, _ in lst})
            scope = "all-cluster-types" if set(ts) >= set(types) else None
            for t in ([scope] if scope else ts):
                t0, h, ans = lst[0] if scope else [x for x in lst if x[0] == t][0]
                out.violation("grpc-cluster-bypass/%s/%s-cluster-token/%s/served" % (t, cname, tag),
                              {"types": ts, "first_type": t0, "headers": h, "body": GRPC_BODIES.get(t0, {}), "answer": ans, "node_env": node.env_extra})
        out.extra["grpc_cluster_positive_%s" % tag] = served
        # the route request with the right token wrote a config; without it nothing may exist
        return served
    finally:
        g.stop()


def grpc_no_cluster_token_observation(out, node, wd):
    """NOT judged (the property only speaks about instances with a cluster token): what cluster-internal types do on an
    auth-enabled instance WITHOUT RNACOS_CLUSTER_TOKEN when called by anybody"""
    g = grpcrig.GrpcClient(node.grpc_addr, wd, name="grpcc-obs")
    try:
        obs = {}
        for t in [t for t in grpc_types() if is_cluster_type(t)]:
            body = dict(GRPC_BODIES.get(t, {}))
            if t == "RaftRouteRequest":
                body = {"ConfigSet": {"key": "c16-obs-cfg\x02DEFAULT_GROUP", "value": "written-without-any-token", "op_user": None, "config_type": None,
                                      "desc": None, "extend_info": {}}}
            obs[t] = short(g.request("o", t, body, headers={}))
            out.evaluations += 1
        tok = node.api_login()
        r = send(node.http_port, "GET", "/nacos/v1/cs/configs", query="dataId=c16-obs-cfg&group=DEFAULT_GROUP", headers={"accessToken": tok})
        obs["config_written_by_RaftRouteRequest_without_any_token"] = bool(r is not None and r.status == 200 and "written-without-any-token" in r.text())
        out.extra["observation_auth_on_without_cluster_token_configured"] = obs
    finally:
        g.stop()


# ---------------------------------------------------------------------------------------------------------------------- run
RULE = ("route table observed on a discovery instance (string literals of web_config.rs, openapi/**, raft/network/mod.rs, scope x "
        "resource, x 7 methods, valid token; kept = not the router's empty 404/405); per protected route the spelling families "
        "{pct-encoded prefix/inner letters, case, trailing/duplicate slash, dot/dotdot segment (plain and encoded), %2F, double "
        "encoding, ;x=y, junk suffix, backslash, absolute-form, exempt path hidden in the query} that still reach the route's handler "
        "with a valid token; then on a seeded "
        "target every (route, method, spelling) x {no token} + {Bearer, raw Authorization, accessToken header, query, form} x "
        "{empty, garbage, expired, other-server} must be answered 403 and the console-read data fingerprint must not change; "
        "gRPC: every data type x token cases must be ErrorResponse 403, cluster types x ClusterToken cases must be refused. "
        "evaluations = requests of the enforcement sweep + controls + gRPC cases; distinct non-trivial = (path, method) pairs "
        "and gRPC types whose valid-token control reached the handler")


def start_nodes(wd):
    specs = {
        "disc": dict(AUTH_ENV),
        "target": dict(AUTH_ENV, RNACOS_API_LOGIN_TIMEOUT=str(LOGIN_TTL)),
        "ctok-auth": dict(AUTH_ENV, RNACOS_CLUSTER_TOKEN=CLUSTER_TOKEN),
        "ctok-noauth": {"RNACOS_CLUSTER_TOKEN": CLUSTER_TOKEN, "RNACOS_ENABLE_OPEN_API_AUTH": "false"},
    }
    nodes = {k: procrig.Node(wd, 1, env=v, name=k) for k, v in specs.items()}
    errs = []

    def st(n):
        try:
            try:
                n.start()
            except Inconclusive:
                n.kill()
                n.__init__(wd, 1, env=n.env_extra, name=n.name + "-retry")
                n.start()
        except Exception as e:       # noqa
            errs.append("%s: %s" % (n.name, e))

    ths = [threading.Thread(target=st, args=(n,)) for n in nodes.values()]
    for t in ths:
        t.start()
    for t in ths:
        t.join()
    if errs:
        for n in nodes.values():
            n.kill()
        raise Inconclusive("node start failed: %s" % "; ".join(errs)[:1500])
    return nodes


def run(tier, seed_):
    common.build(need_bin=True)
    wd = common.workdir("c16")
    out = Outcome("C16", tier, seed_)
    rnd = random.Random(seed_)
    nodes = {}
    g = None
    try:
        nodes = start_nodes(wd)
        disc, target = nodes["disc"], nodes["target"]
        tok_d = disc.api_login()
        if not tok_d or tok_d == "AUTH_DISABLED":
            raise Inconclusive("login on the discovery instance failed (%r)" % tok_d)
        # the token that has to expire is taken first; discovery runs while it ages
        t_login = time.time()
        expired = target.api_login()
        if not expired or expired == "AUTH_DISABLED":
            raise Inconclusive("login on the target instance failed (%r)" % expired)
        r = send(target.http_port, "GET", "/nacos/v1/console/namespaces", query="", headers={"accessToken": expired})
        if r is None or r.status != 200:
            raise Inconclusive("fresh token not accepted by the target: %s" % (r and r.status))
        seed(target, target.api_login())
        # a token that stays in continuous use across its expiry (one request every 0.7 s): being used must not keep it alive
        cont = {"log": []}

        def continuous_user():
            t0 = time.time()
            tok = target.api_login()
            if not tok or tok == "AUTH_DISABLED":
                cont["error"] = "login failed"
                return
            cont["t_login"] = t0
            while time.time() - t0 < LOGIN_TTL + 6.0:
                tc = time.time()
                rr = send(target.http_port, "GET", "/nacos/v1/console/namespaces", query="", headers={"accessToken": tok})
                cont["log"].append((round(tc - t0, 2), rr.status if rr is not None else None))
                time.sleep(0.7)
        cth = threading.Thread(target=continuous_user, daemon=True)
        cth.start()
        # the same over gRPC, on ONE connection (bi-stream registered): a connection that used the token while it was valid
        # must not keep being served with it afterwards
        gcont = {"log": []}

        def continuous_grpc_user():
            gc = None
            try:
                t0 = time.time()
                tok = target.api_login()
                if not tok or tok == "AUTH_DISABLED":
                    gcont["error"] = "login failed"
                    return
                gc = grpcrig.GrpcClient(target.grpc_addr, wd, name="grpcc-cont")
                gc.open_stream("c")
                k = 0
                while time.time() - t0 < LOGIN_TTL + 6.0:
                    tc = time.time()
                    k += 1
                    if k % 2:
                        rr = gc.request("c", "ConfigQueryRequest", {"dataId": "c16-cfg", "group": "DEFAULT_GROUP", "tenant": ""}, headers={"accessToken": tok})
                        served = bool(rr.get("ok")) and rr.get("type") != "ErrorResponse" and "seed-content-in-public" in json.dumps(rr.get("body"))
                    else:
                        rr = gc.request("c", "ServiceQueryRequest", {"namespace": "", "groupName": "DEFAULT_GROUP", "serviceName": "c16-svc", "cluster": "", "healthyOnly": False, "udpPort": 0},
                                        headers={"accessToken": tok})
                        served = bool(rr.get("ok")) and rr.get("type") != "ErrorResponse" and "10.16.0.10" in json.dumps(rr.get("body"))
                    gcont["log"].append((round(tc - t0, 2), "served" if served else "refused" if grpc_refused_auth(rr) else "other:%s" % short(rr)))
                    time.sleep(0.7)
            except Exception as e:      # noqa: the observation is optional, its absence is reported
                gcont["error"] = repr(e)[:200]
            finally:
                if gc is not None:
                    try:
                        gc.stop()
                    except Exception:
                        pass
        gth = threading.Thread(target=continuous_grpc_user, daemon=True)
        gth.start()
        fper = Fingerprinter(target)
        protected, exempt, outside, kept = discover_phase(out, tier, rnd, disc, tok_d)
        wait = t_login + LOGIN_TTL + 2.5 - time.time()
        if wait > 0:
            time.sleep(wait)
        cth.join(LOGIN_TTL + 12)
        if cont.get("log") and not cont.get("error"):
            okb = [x for x in cont["log"] if x[0] < LOGIN_TTL - 0.5]
            late = [x for x in cont["log"] if x[0] > LOGIN_TTL + 2.0]
            out.evaluations += len(cont["log"])
            if okb and all(st == 200 for _, st in okb) and late:
                served = [x for x in late if x[1] == 200]
                if served:
                    out.violation("http-invalid-token-accepted/expired-token-in-continuous-use/GET /nacos/v1/console/namespaces",
                                  {"login_ttl_s": LOGIN_TTL, "request_period_s": 0.7, "answers_(age_s,status)": cont["log"], "served_after_expiry": len(served)})
                else:
                    out.shape("continuous-use/expired-token-refused")
                out.extra["token_in_continuous_use"] = {"requests": len(cont["log"]), "last_200_at_s": max([x[0] for x in cont["log"] if x[1] == 200] or [None]), "first_403_at_s": min([x[0] for x in cont["log"] if x[1] == 403] or [None])}
            else:
                out.extra["token_in_continuous_use"] = "inconclusive: %s" % cont["log"][:6]
        gth.join(LOGIN_TTL + 14)
        if gcont.get("log") and not gcont.get("error"):
            okb = [x for x in gcont["log"] if x[0] < LOGIN_TTL - 0.8]
            late = [x for x in gcont["log"] if x[0] > LOGIN_TTL + 2.0]
            out.evaluations += len(gcont["log"])
            if okb and all(st == "served" for _, st in okb) and late:
                served = [x for x in late if x[1] == "served"]
                if served:
                    out.violation("grpc-invalid-token-accepted/expired-token-in-continuous-use-on-one-connection/ConfigQueryRequest+ServiceQueryRequest",
                                  {"login_ttl_s": LOGIN_TTL, "request_period_s": 0.7, "answers_(age_s,verdict)": gcont["log"], "served_after_expiry": len(served)})
                else:
                    out.shape("continuous-use/grpc-connection/expired-token-refused")
                out.extra["token_in_continuous_use_on_one_grpc_connection"] = {"requests": len(gcont["log"]), "last_served_at_s": max([x[0] for x in gcont["log"] if x[1] == "served"] or [None]),
                                                                             "first_refused_at_s": min([x[0] for x in gcont["log"] if x[1] == "refused"] or [None])}
            else:
                out.extra["token_in_continuous_use_on_one_grpc_connection"] = "inconclusive: %s" % gcont["log"][:6]
        else:
            out.extra["token_in_continuous_use_on_one_grpc_connection"] = "not observed: %s" % gcont.get("error")
        fp0 = fper.take()
        if not any(k.startswith("config ") for k in fp0) or not any(" instance " in k for k in fp0) or len(fp0["namespaces"]) < 2:
            raise Inconclusive("seeded data not visible in the fingerprint: %s" % sorted(fp0))
        # ---- gRPC data types on the target (own before/after fingerprint pair)
        g = grpcrig.GrpcClient(target.grpc_addr, wd)
        data_types = grpc_data_negative(out, tier, rnd, target, g, expired, tok_d, disc, wd)
        time.sleep(0.3)
        d = fp_diff(fp0, fper.take())
        if d:
            out.violation("grpc-data-changed/by-requests-without-valid-token", {"diff": d[:20]})
            seed(target, target.api_login())
        # ---- HTTP sweep
        sweep_phase(out, tier, rnd, target, fper, protected, exempt, outside, kept, expired, tok_d)
        grpc_data_positive(out, target, g, data_types)
        g.stop()
        g = None
        # ---- an expired token stays expired across a restart (sessions are rebuilt from the raft log / snapshot on start-up)
        target.restart()
        fresh = target.api_login()
        rr = send(target.http_port, "GET", "/nacos/v1/console/namespaces", query="", headers={"accessToken": expired})
        rc = send(target.http_port, "GET", "/nacos/v1/console/namespaces", query="", headers={"accessToken": fresh or ""})
        out.evaluations += 2
        if rc is None or rc.status != 200:
            out.extra["expired_after_restart"] = "inconclusive: fresh token not accepted after the restart (%s)" % (rc and rc.status)
        elif rr is not None and rr.status != 403:
            out.violation("http-invalid-token-accepted/expired-token-after-restart/GET /nacos/v1/console/namespaces",
                          {"status": rr.status, "body": rr.text()[:200], "token_age_s": round(time.time() - t_login, 1), "login_ttl_s": LOGIN_TTL})
        else:
            out.shape("restart/expired-token-still-refused")
            out.extra["expired_after_restart"] = "refused (403), fresh token accepted"
        # ---- cluster-internal gRPC types
        grpc_cluster_part(out, nodes["ctok-auth"], True, wd, tier)
        grpc_cluster_part(out, nodes["ctok-noauth"], False, wd, tier)
        grpc_no_cluster_token_observation(out, disc, wd)
        out.extra["requests_sent_http_total"] = STATS.sent
        out.extra["http_io_errors_retried"] = STATS.io_errors
        out.rule = RULE
        out.assumptions = [
            "an empty-bodied 404/405/400 is the router's/parser's own answer, anything else means a handler (or the middleware) answered",
            "the route table is what the literal-based discovery finds; a route whose path never appears as a string literal in the scanned "
            "sources would be missed (exhaustive is therefore not claimed)",
            "exempt exactly: %s" % ", ".join(sorted(EXEMPT)),
            "expired = issued by the target with RNACOS_API_LOGIN_TIMEOUT=%d, shown to work, then aged >= %.1f s" % (LOGIN_TTL, LOGIN_TTL + 2.5),
            "instances without RNACOS_CLUSTER_TOKEN are not judged for cluster-internal gRPC types (recorded as an observation)",
        ]
        out.min_nontrivial = 30
        return out.finish()
    finally:
        if g is not None:
            g.stop(abrupt=True)
        for n in nodes.values():
            n.kill()
        shutil.rmtree(wd, ignore_errors=True)


def replay(path):
    """re-send the first request of the witness against a fresh auth-enabled instance"""
    w = json.load(open(path))
    common.build(need_bin=True)
    wd = common.workdir("c16r")
    node = procrig.Node(wd, 1, env=dict(AUTH_ENV), name="replay")
    try:
        node.start()
        seed(node, node.api_login())
        first = (w.get("witness") or {}).get("first")
        if not first:
            print(json.dumps(w.get("witness"), indent=1)[:3000])
            print("witness has no single HTTP request to replay (gRPC / data witness): shown above")
            return 0
        r = send(node.http_port, first["method"], first["spelled_path"], query=first.get("query") or "", headers=first.get("headers") or {},
                 form=first.get("form"))
        print(json.dumps({"request": first, "status": r and r.status, "body_head": r and r.text()[:200]}, indent=1))
        if r is not None and r.status != 403:
            print("VIOLATION property=C16 replay=%s" % path)
            return 1
        return 0
    finally:
        node.kill()
        shutil.rmtree(wd, ignore_errors=True)
