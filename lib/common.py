"""Shared machinery of the /verif/check front-end: build step, process fan-out, evidence, findings."""
import fcntl
import json
import os
import shutil
import subprocess
import sys
import time

VERIF = os.path.dirname(os.path.dirname(os.path.abspath(__file__)))
REPO = os.environ.get("VERIF_REPO", "/repo")   # mutant validation runs a copy of /verif against a scratch worktree
CACHE = os.path.join(VERIF, ".cache")
TARGET = os.path.join(CACHE, "target")
WORK = os.path.join(VERIF, ".work")
EVID = os.path.join(VERIF, "evidence")
REPLAYS = os.path.join(VERIF, "replays")
VH = os.path.join(TARGET, "debug", "vh")
RNACOS = os.path.join(TARGET, "debug", "rnacos")
NCPU = os.cpu_count() or 4

BUILD_ENV = {
    "CARGO_NET_OFFLINE": "true",
    "CARGO_TARGET_DIR": TARGET,
    "CARGO_PROFILE_DEV_DEBUG": "0",
    "CARGO_PROFILE_DEV_OPT_LEVEL": "1",
    "CARGO_PROFILE_DEV_OVERFLOW_CHECKS": "false",
    "CARGO_PROFILE_DEV_DEBUG_ASSERTIONS": "false",
    "CARGO_INCREMENTAL": "0",
}



BULKY = ("timeline", "events", "ops_on_key", "schedule", "faults", "log_tail", "histories", "ops", "trace")


def witness_digest(w, limit=4000):
    """the witness without its bulky fields, one line, bounded"""
    try:
        if isinstance(w, dict):
            d = {k: v for k, v in w.items() if k not in BULKY}
            if "ops_on_key" in w:
                d["ops_on_key_tail"] = w["ops_on_key"][-6:]
        else:
            d = w
        s = json.dumps(d, default=str, sort_keys=True)
    except Exception as e:       # the digest must never turn a verdict into a crash
        s = "<digest failed: %r>" % (e,)
    return s if len(s) <= limit else s[:limit] + "...<cut>"


class Inconclusive(Exception):
    pass


class CodePanic(Exception):
    """the code under test panicked inside a harness process (location inside the repository's sources)"""

    def __init__(self, location, message):
        Exception.__init__(self, "%s: %s" % (location, message))
        self.location, self.message = location, message


def panic_in_repo(stderr_text):
    import re
    m = re.search(r"panicked at ([^\s:]+):(\d+):\d+:\n([^\n]*)", stderr_text)
    if m and m.group(1).startswith(REPO.rstrip("/") + "/"):
        return m.group(1)[len(REPO.rstrip("/")) + 1:], m.group(3)[:200]
    return None


def log(*a):
    print("[check]", *a, file=sys.stderr, flush=True)


def _run_build(cmd, what):
    env = dict(os.environ)
    env.update(BUILD_ENV)
    t0 = time.time()
    p = subprocess.run(cmd, env=env, stdout=subprocess.PIPE, stderr=subprocess.STDOUT, text=True)
    if p.returncode != 0:
        sys.stderr.write(p.stdout[-6000:])
        raise Inconclusive("build of %s failed (exit %d)" % (what, p.returncode))
    log("build %s ok in %.1fs" % (what, time.time() - t0))


def build(need_bin=False, bin_features="verif_hooks", bin_name="rnacos"):
    """Incremental offline build of vh (and the real rnacos binary) from /repo's working tree, under a lock."""
    os.makedirs(CACHE, exist_ok=True)
    lock = open(os.path.join(CACHE, "build.lock"), "w")
    fcntl.flock(lock, fcntl.LOCK_EX)
    try:
        _run_build(["cargo", "build", "--offline", "--manifest-path", os.path.join(VERIF, "harness", "Cargo.toml")], "vh")
        if need_bin:
            feat = ["--features", bin_features] if bin_features else []
            _run_build(["cargo", "build", "--offline", "--manifest-path", os.path.join(REPO, "Cargo.toml"),
                        "--bin", "rnacos"] + feat, "rnacos[%s]" % bin_features)
            if bin_name != "rnacos":
                shutil.copyfile(RNACOS, os.path.join(TARGET, "debug", bin_name))
                os.chmod(os.path.join(TARGET, "debug", bin_name), 0o755)
    finally:
        fcntl.flock(lock, fcntl.LOCK_UN)
        lock.close()


def workdir(name):
    d = os.path.join(WORK, "%s-%d" % (name, os.getpid()))
    shutil.rmtree(d, ignore_errors=True)
    os.makedirs(d)
    return d


def run_vh_shards(sub, shards, base_args, wd, timeout, seed, extra_env=None):
    """Run `vh <sub>` as `shards` parallel processes with seeds seed*1000+i; return list of parsed reports."""
    procs = []
    for i in range(shards):
        out = os.path.join(wd, "out_%d.json" % i)
        d = os.path.join(wd, "s%d" % i)
        os.makedirs(d, exist_ok=True)
        cmd = [VH, sub, "--seed", str(seed * 1000 + i), "--shard", str(i), "--shards", str(shards),
               "--out", out, "--dir", d] + [str(x) for x in base_args]
        env = dict(os.environ)
        env.setdefault("RUST_LOG", "off")
        if extra_env:
            env.update(extra_env)
        errf = open(os.path.join(wd, "err_%d.log" % i), "w")
        procs.append((subprocess.Popen(cmd, stdout=errf, stderr=errf, env=env), out, errf, i))
    reports = []
    deadline = time.time() + timeout

    def kill_all():
        for q, _, f, _ in procs:
            if q.poll() is None:
                q.kill()
                q.wait()
            try:
                f.close()
            except Exception:
                pass

    for p, out, errf, i in procs:
        try:
            p.wait(timeout=max(1, deadline - time.time()))
        except subprocess.TimeoutExpired:
            kill_all()
            raise Inconclusive("vh %s shard %d exceeded the %ds watchdog" % (sub, i, timeout))
        errf.close()
        if p.returncode != 0 or not os.path.exists(out):
            tail = open(os.path.join(wd, "err_%d.log" % i)).read()[-3000:]
            kill_all()
            loc = panic_in_repo(tail)
            if loc:
                raise CodePanic(loc[0], loc[1])
            raise Inconclusive("vh %s shard %d failed (exit %s): %s" % (sub, i, p.returncode, tail))
        reports.append(json.load(open(out)))
    return reports


def merge_reports(reports):
    m = {"evaluations": 0, "shapes": {}, "samples": [], "violations": {}, "inconclusive": [], "counters": {}, "notes": []}
    for r in reports:
        m["evaluations"] += r.get("evaluations", 0)
        for k, v in r.get("shapes", {}).items():
            m["shapes"][k] = m["shapes"].get(k, 0) + v
        for s in r.get("samples", []):
            if len(m["samples"]) < 8:
                m["samples"].append(s)
        for v in r.get("violations", []):
            e = m["violations"].setdefault(v["signature"], {"signature": v["signature"], "count": 0, "witness": v["witness"]})
            e["count"] += v.get("count", 1)
        m["inconclusive"] += r.get("inconclusive", [])
        for k, v in r.get("counters", {}).items():
            m["counters"][k] = m["counters"].get(k, 0) + v
        for n in r.get("notes", []):
            if n not in m["notes"]:
                m["notes"].append(n)
    return m


def load_findings():
    p = os.path.join(VERIF, "known_findings.json")
    if not os.path.exists(p):
        return {"known": [], "fixed": []}
    return json.load(open(p))


class Outcome:
    """Collects what a check observed and turns it into stdout lines, an evidence file and an exit code."""

    def __init__(self, pid, tier, seed, level="exploration"):
        self.pid, self.tier, self.seed, self.level = pid, tier, seed, level
        self.t0 = time.time()
        self.evaluations = 0
        self.shapes = {}
        self.samples = []
        self.violations = {}   # signature -> {count, witness}
        self.extra = {}
        self.rule = ""
        self.assumptions = []
        self.min_nontrivial = 2
        self.exhaustive = None

    def absorb(self, merged):
        self.evaluations += merged["evaluations"]
        for k, v in merged["shapes"].items():
            self.shapes[k] = self.shapes.get(k, 0) + v
        for s in merged["samples"]:
            if len(self.samples) < 10:
                self.samples.append(s)
        for sig, v in merged["violations"].items():
            e = self.violations.setdefault(sig, {"count": 0, "witness": v["witness"]})
            e["count"] += v["count"]
        for k, v in merged.get("counters", {}).items():
            self.extra[k] = self.extra.get(k, 0) + v
        if merged.get("inconclusive"):
            self.extra.setdefault("inconclusive_subruns", []).extend(merged["inconclusive"][:20])
        if merged.get("notes"):
            self.extra.setdefault("notes", []).extend(merged["notes"])

    def shape(self, s, n=1):
        self.shapes[s] = self.shapes.get(s, 0) + n

    def violation(self, sig, witness):
        e = self.violations.setdefault(sig, {"count": 0, "witness": witness})
        e["count"] += 1

    def finish(self):
        findings = load_findings()
        known = {(k["property"], k["signature"]): k for k in findings.get("known", [])}
        new, listed = [], []
        for sig, v in sorted(self.violations.items()):
            if (self.pid, sig) in known:
                listed.append((sig, v))
            else:
                new.append((sig, v))
        wall = time.time() - self.t0
        cov = {
            "evaluations": int(self.evaluations),
            "distinct_nontrivial": len(self.shapes),
            "rule": self.rule,
            "samples": self.samples[:10] if self.samples else [],
            "shape_histogram": dict(sorted(self.shapes.items())[:400]),
            "known_findings_observed": [{"signature": s, "count": v["count"]} for s, v in listed],
            "new_violations": [{"signature": s, "count": v["count"]} for s, v in new],
        }
        if self.exhaustive is not None:
            cov["exhaustive"] = self.exhaustive
        cov.update(self.extra)
        ev = {
            "property_id": self.pid, "tier": self.tier, "seed": int(self.seed), "level": self.level,
            "coverage": cov, "assumptions": self.assumptions, "wall_s": round(wall, 2),
            "violations": len(new),
        }
        inconclusive = None
        if not self.samples:
            inconclusive = "no samples recorded"
        elif len(self.shapes) < self.min_nontrivial and not new:
            inconclusive = "only %d distinct non-trivial cases observed (minimum %d)" % (len(self.shapes), self.min_nontrivial)
        os.makedirs(EVID, exist_ok=True)
        if inconclusive and len(self.shapes) < 2:
            # schema needs >= 2; an inconclusive run must not leave a passing-looking file
            ev["coverage"]["inconclusive"] = inconclusive
        with open(os.path.join(EVID, self.pid + ".json"), "w") as f:
            json.dump(ev, f, indent=1, default=str)
        for sig, v in listed:
            print("KNOWN-FINDING: property=%s %s (observed %d times)" % (self.pid, sig, v["count"]), flush=True)
        # witnesses of earlier runs at other seeds / tiers stay (they are needed for triage); this run's own are rewritten
        try:
            for f in os.listdir(os.path.join(REPLAYS, self.pid)):
                if f.startswith("%s-seed%d-" % (self.tier, self.seed)):
                    os.remove(os.path.join(REPLAYS, self.pid, f))
        except OSError:
            pass
        if new:
            os.makedirs(os.path.join(REPLAYS, self.pid), exist_ok=True)
            for i, (sig, v) in enumerate(new):
                safe = "".join(c if c.isalnum() or c in "-_." else "_" for c in sig)[:120]
                path = os.path.join(REPLAYS, self.pid, "%s-seed%d-%s.json" % (self.tier, self.seed, safe))
                with open(path, "w") as f:
                    json.dump({"property": self.pid, "signature": sig, "seed": self.seed, "tier": self.tier,
                               "count": v["count"], "witness": v["witness"]}, f, indent=1, default=str)
                print("VIOLATION property=%s replay=%s signature=%s" % (self.pid, path, sig), flush=True)
                # a digest of the witness in the output itself: when the run happens on a discarded copy of the sandbox the replay file is
                # gone, and an alarm that cannot be triaged is worth nothing (DESIGN 6.3, C06 unwritten-value)
                print("WITNESS-DIGEST property=%s signature=%s %s" % (self.pid, sig, witness_digest(v["witness"])), flush=True)
            return 1
        if inconclusive:
            print("INCONCLUSIVE property=%s reason=%s" % (self.pid, inconclusive), flush=True)
            return 3
        print("OK property=%s tier=%s seed=%d evaluations=%d distinct_nontrivial=%d wall=%.1fs" % (
            self.pid, self.tier, self.seed, self.evaluations, len(self.shapes), wall), flush=True)
        return 0
