"""C15 — Registry converges: after quiescence every live node returns the same instances.

Rig B (real binary, 3 processes per cluster, `vh grpc-client` processes as gRPC writers).  One cluster run (see DESIGN.md "C15"):

  start n1,n2 (+n3 unless the plan says "late join")      health/instance time-outs raised so that expiry (C13) never interferes
  segment A   workload + SIGSTOP nemesis                  HTTP writers (register/update/deregister/beat through random nodes) and
  [late join of n3, segment B]                            gRPC writers (connections attached to random nodes; register/deregister/
  checkpoint "formed" (or "late-join")                    close+re-attach) on 7 services in 2 namespaces, 5 address slots each
  segment C   workload + SIGSTOP nemesis                  (slots 0,1 HTTP only; 2,3 gRPC only; 4 both kinds)
  SIGKILL of the victim node (holds gRPC connections)
  segment D   workload on the survivors (short 4-8 s | long 20-24 s: long = the survivors really mark the node dead)
  [checkpoint "node-down" (long only)]
  restart of the victim, segment E, checkpoint "healed"

A checkpoint = stop all clients, then poll every live node once per second (HTTP /nacos/v1/ns/instance/list?healthyOnly=false per
service + GET /nacos/v1/ns/instance for touched addresses that are not listed, which is how a disabled instance is told from an
absent one) until, twice in a row, all live nodes answer the same (ip, port, healthy, enabled, weight) sets AND these agree with
the reference, or until B_c = 60 s after the last client operation / fault.  The gRPC ServiceQueryRequest view of every node is
compared with its HTTP view at the end of each successful checkpoint.

Reference (per key = (namespace, group, service, ip, port)), derived from the ACKNOWLEDGED operations only: every linearisation of
the key's operations that respects real time (A before B iff A returned before B was called) is explored with the documented
single-node rules (C12): last write wins; HTTP write onto a gRPC-owned instance keeps the gRPC owner; an ephemeral instance is
removed only by its owner or by an empty client id (HTTP); weight / enabled follow the update-tag semantics of the two front ends;
a beat creates a missing instance with defaults and changes nothing otherwise; a closed connection / a killed node removes exactly
the instances owned by those connections.  Operations without a definite answer (time-out, error answer, node killed during the
request) may or may not have taken effect.  The observed state of a key is acceptable iff it is the result of one linearisation.

Two operations on one key are ordered for the reference only when the second was called after the first was VISIBLE to the
node that serialises the second: same serialisation point (the connection's node for gRPC operations, the routing owner of the
service for HTTP operations) -> after it returned; otherwise -> SYNC_WINDOW (500 ms batch + slack) after it returned, extended
by any SIGSTOP in between.  Everything closer together counts as racing writers (both outcomes acceptable; convergence still
required).

Signatures:  <symptom>/<writer>/<fault>
  symptom  not-converged-after-heal | not-converged-while-node-down | stale-instance-of-dead-node | instance-lost |
           instance-lost-while-node-down | instance-resurrected | instance-resurrected-while-node-down | joined-node-missing-data |
           wrong-value | grpc-view-differs-from-http-view | unknown-instance-returned
           (+ "(value)" when all nodes have the instance but weight/enabled differ)
  writer   http | grpc | mixed       which kinds of clients ever wrote the address (mixed = slot 4 only)
  fault    what happened between the previous checkpoint and this one, seen from the key:
           http keys   late-join:owner-moved|owner-same      (routing owner of the service under {1,2} vs {1,2,3})
                       kill:owner-killed|owner-moved|owner-same            (checkpoint while the node is down)
                       kill+restart:owner-restarted|owner-moved|owner-same (checkpoint after heal; moved = long outage re-routed it)
                       sigstop | none                                       (checkpoint "formed")
           grpc keys   late-join | kill:holder-killed|holder-alive | kill+restart:holder-killed|holder-alive | sigstop | none
           mixed keys  same-address-http-and-grpc      (symptoms: not-converged-*[(value)] / stale-instance-of-dead-node only; the witness
                       field mixed_address_pattern names the interplay)
           http        write-soon-after-deregister   (a write within two sync ticks after an acknowledged deregistration and no
                       later deregistration)   |   deregister-after-owner-change   (an acknowledged deregistration served under another routing owner than the
                       one the instance was last written under)   |   write-near-periodic-snapshot-pull (last acknowledged write
                       within the sync window of some node's 1 s / 15 s / 45 s snapshot pull)
           any         write-in-sync-window-of-kill  (last acknowledged write < SYNC_WINDOW before the SIGKILL of the node that had to
                       forward it: acknowledged but possibly never replicated - reported separately, asynchronous replication)
"""
import json
import os
import random
import shutil
import threading
import time
from concurrent.futures import ThreadPoolExecutor

import common
import grpcrig
import linkproxy
import procrig
from common import Inconclusive, Outcome

B_C = 60.0
P_INST = "/nacos/v1/ns/instance"
NODE_ENV = {"RNACOS_NAMING_HEALTH_TIMEOUT_SECOND": "900", "RNACOS_NAMING_INSTANCE_TIMEOUT_SECOND": "1000"}
NAMESPACES = ["public", "c15b"]
SLOT_KIND = ["http", "http", "grpc", "grpc", "mixed"]
HTTP_TIMEOUT = 8
SYNC_WINDOW = 1.2          # seconds: 500 ms batch tick + transport, generous
PROMPT_S = 5            # seconds: ten 500 ms sync ticks; bound for a plain operation in a stable, fault-free cluster
HANDOVER = 3.0             # seconds after a node is back in the member list: first snapshot pull (1 s) + slack

# ------------------------------------------------------------------------------------------------ rust DefaultHasher (SipHash-1-3)
_M = (1 << 64) - 1


def _rotl(x, b):
    return ((x << b) | (x >> (64 - b))) & _M


def siphash13(data):
    v0, v1, v2, v3 = 0x736f6d6570736575, 0x646f72616e646f6d, 0x6c7967656e657261, 0x7465646279746573

    def rnd(v0, v1, v2, v3):
        v0 = (v0 + v1) & _M
        v1 = _rotl(v1, 13) ^ v0
        v0 = _rotl(v0, 32)
        v2 = (v2 + v3) & _M
        v3 = _rotl(v3, 16) ^ v2
        v0 = (v0 + v3) & _M
        v3 = _rotl(v3, 21) ^ v0
        v2 = (v2 + v1) & _M
        v1 = _rotl(v1, 17) ^ v2
        v2 = _rotl(v2, 32)
        return v0, v1, v2, v3

    n = len(data)
    for i in range(0, n - n % 8, 8):
        m = int.from_bytes(data[i:i + 8], "little")
        v3 ^= m
        v0, v1, v2, v3 = rnd(v0, v1, v2, v3)
        v0 ^= m
    b = ((n & 0xff) << 56) | int.from_bytes(data[n - n % 8:], "little")
    v3 ^= b
    v0, v1, v2, v3 = rnd(v0, v1, v2, v3)
    v0 ^= b
    v2 ^= 0xff
    for _ in range(3):
        v0, v1, v2, v3 = rnd(v0, v1, v2, v3)
    return v0 ^ v1 ^ v2 ^ v3


def service_hash(ns, group, svc):
    """get_hash_value(&ServiceKey): derive(Hash) over three strings, each written as bytes + 0xff (validated against real routing)"""
    return siphash13(b"".join(s.encode() + b"\xff" for s in (ns, group, svc)))


# ------------------------------------------------------------------------------------------------------------------- reference
def apply_op(state, op):
    """state: None | (kind, conn, weight, enabled)"""
    o = op["op"]
    if o in ("http_register", "http_update"):
        w, e = op.get("weight"), op.get("enabled")
        if state is None:
            return ("http", None, 1.0 if w is None else w, True if e is None else e)
        return (state[0], state[1], w if (w is not None and w != 1.0) else state[2], state[3] if e is None else e)
    if o == "http_beat":
        return ("http", None, 1.0, True) if state is None else state
    if o == "http_deregister":
        return None
    if o == "grpc_register":
        w, e = op["weight"], op["enabled"]
        if state is None:
            return ("grpc", op["conn"], w, e)
        return ("grpc", op["conn"], w if w != 1.0 else state[2], False if e is False else state[3])
    if o in ("grpc_deregister", "conn_gone"):
        if state is not None and state[0] == "grpc" and state[1] == op["conn"]:
            return None
        return state
    raise ValueError(o)


def precedes(a, b):
    """a is ordered before b for the reference (see module doc)"""
    if a["site"] == b["site"] and a["t_ret"] < b["t_call"]:
        return True
    return a["t_vis"] < b["t_call"]


def acceptable_states(ops, budget=300000):
    """all final states over the linearisations of `ops` that respect `precedes`; indefinite operations may be skipped;
    None when the search exceeds its budget (key not judged against the reference)"""
    ops = sorted(ops, key=lambda x: x["t_call"])
    n = len(ops)
    states = {None}
    i = 0
    while i < n:
        # a group ends where every earlier operation is visible before the next one is called
        j = i + 1
        hi = ops[i]["t_vis"]
        while j < n and ops[j]["t_call"] <= hi:
            hi = max(hi, ops[j]["t_vis"])
            j += 1
        grp = ops[i:j]
        if len(grp) == 1:
            o = grp[0]
            new = {apply_op(s, o) for s in states}
            if not o["definite"]:
                new |= states
            if o.get("amnesia"):
                new.add(apply_op(None, o))
            states = new
        else:
            k = len(grp)
            if k > 40:
                return None
            pred = []
            for a in range(k):
                m = 0
                for b in range(k):
                    if b != a and precedes(grp[b], grp[a]):
                        m |= 1 << b
                pred.append(m)
            full = (1 << k) - 1
            seen = set()
            stack = [(0, s) for s in states]
            out = set()
            steps = 0
            while stack:
                mask, s = stack.pop()
                if (mask, s) in seen:
                    continue
                seen.add((mask, s))
                steps += 1
                if steps > budget:
                    return None
                if mask == full:
                    out.add(s)
                    continue
                for a in range(k):
                    if mask & (1 << a) or pred[a] & ~mask:
                        continue
                    stack.append((mask | (1 << a), apply_op(s, grp[a])))
                    if not grp[a]["definite"]:
                        stack.append((mask | (1 << a), s))
                    if grp[a].get("amnesia"):
                        stack.append((mask | (1 << a), apply_op(None, grp[a])))
            states = out
        i = j
    return states


def visible(state):
    """what a node should answer for a key in that state: None | (healthy, enabled, weight)"""
    return None if state is None else (True, state[3], round(float(state[2]), 3))


# --------------------------------------------------------------------------------------------------------------------- cluster
class Ctx:
    """one cluster run: nodes, universe, history, fault log"""

    def __init__(self, wd, plan, cseed):
        self.wd, self.plan, self.cseed = wd, plan, cseed
        self.rnd = random.Random(cseed)
        self.lock = threading.Lock()
        self.fault_lock = threading.Lock()
        self.history = []            # operation records
        self.faults = []             # {kind, node, t0, t1}
        self.busy = set()
        self.run_flag = threading.Event()
        self.stop_flag = threading.Event()
        self.idle = {}
        self.up = {}                 # node id -> True when clients may talk to it
        self.conn_node = {}          # gRPC connection label -> node id
        self.conn_alive = {}
        self.counters = {}
        self.nodes = []
        self.services = []
        self.keys = []
        self.touched = set()
        self.tainted = {}            # key -> signature of the first violation (not judged again)
        self.join_times = {}         # node id -> time it (re)joined
        self.proc_start = {}         # node id -> first process start
        self.fresh = []              # (node id, process start, ready): a node that came up without the others' data
        self.pre_kill_obs = None
        self.t_kill = None
        self.obs_client = None
        self.obs_gen = 0

    def count(self, k, n=1):
        with self.lock:
            self.counters[k] = self.counters.get(k, 0) + n

    def record(self, rec):
        with self.lock:
            self.history.append(rec)
            if rec.get("key"):
                self.touched.add(rec["key"])

    def live_targets(self):
        return [n for n in self.nodes if self.up.get(n.id)]

    def owner_of(self, key, alive_ids=None):
        """node id that routing sends an HTTP write for this key to, given the set of nodes every node believes valid"""
        ids = sorted(alive_ids if alive_ids is not None else [n.id for n in self.nodes])
        h = self.svc_hash[key[:3]]
        return ids[h % len(ids)] if ids else None


def make_universe(ctx):
    """7 service keys: one per residue of hash mod 6 (every combination of the 2-node and 3-node routing) + one name reused in
    the other namespace; groups: DEFAULT_GROUP and g2"""
    rnd = ctx.rnd
    tag = "%x" % rnd.randrange(1 << 20)
    got = {}
    j = 0
    while len(got) < 6 and j < 4000:
        name = "c15-%s-%d" % (tag, j)
        grp = "g2" if j % 5 == 4 else "DEFAULT_GROUP"
        for ns in NAMESPACES:
            r = service_hash(ns, grp, name) % 6
            if r not in got and NAMESPACES[r % 2] == ns:
                got[r] = (ns, grp, name)
        j += 1
    svcs = [got[r] for r in sorted(got)]
    first = svcs[0]
    other = (NAMESPACES[1] if first[0] == NAMESPACES[0] else NAMESPACES[0], first[1], first[2])
    if other not in svcs:
        svcs.append(other)
    ctx.services = svcs
    ctx.svc_hash = {s: service_hash(*s) for s in svcs}
    ctx.keys = []
    for si, s in enumerate(svcs):
        for slot in range(len(SLOT_KIND)):
            ctx.keys.append(s + ("10.%d.0.%d" % (si + 1, slot + 1), 8000 + slot))
    ctx.key_kind = {k: SLOT_KIND[k[4] - 8000] for k in ctx.keys}
    # every gRPC-writable address belongs to ONE logical gRPC client (its successive connections, on whichever node): two
    # processes claiming the same ip:port through different nodes is not something the property speaks about
    ctx.grpc_keys = {}
    g = [k for k in ctx.keys if ctx.key_kind[k] in ("grpc", "mixed")]
    for i, k in enumerate(g):
        ctx.grpc_keys.setdefault(i % ctx.plan["grpc_clients"], []).append(k)


def key_params(key):
    return {"namespaceId": key[0], "groupName": key[1], "serviceName": key[2], "ip": key[3], "port": str(key[4])}


def wait_members(nodes, want, timeout):
    t0 = time.time()
    last = None
    while time.time() - t0 < timeout:
        ms = [n.metrics() for n in nodes]
        last = ms
        if all(ms):
            leaders = {m.get("current_leader") for m in ms}
            sizes = {len((m.get("membership_config") or {}).get("members") or []) for m in ms}
            if len(leaders) == 1 and None not in leaders and sizes == {want}:
                return time.time() - t0
        time.sleep(0.25)
    raise Inconclusive("cluster of %d did not form within %ss: %s" % (want, timeout, str(last)[:600]))


# ---------------------------------------------------------------------------------------------------------------------- clients
def acquire_key(ctx, rnd, cands, race_p=0.08):
    """pick a key; normally one no other client is working on, sometimes (racing writers) any"""
    race = rnd.random() < race_p
    for _ in range(8):
        k = rnd.choice(cands)
        with ctx.lock:
            if k in getattr(ctx, "reserved", ()):
                continue        # set aside by the main thread for a directed step (take-over deregistration)
            if race or k not in ctx.busy:
                tok = (k, k not in ctx.busy)
                ctx.busy.add(k)
                return tok
    return None


def release_key(ctx, tok):
    k, mine = tok
    if mine:
        with ctx.lock:
            ctx.busy.discard(k)


def http_op(ctx, client, rnd, key, node, op=None):
    op = op or rnd.choices(["http_register", "http_update", "http_deregister", "http_beat"], [35, 20, 27, 18])[0]
    rec = {"client": client, "op": op, "key": key, "node": node.id, "kind": "http"}
    p = key_params(key)
    p["ephemeral"] = "true"
    try:
        if op in ("http_register", "http_update"):
            w = rnd.choice([None, None, 0.5, 2.0, 3.5, 1.0]) if op == "http_register" else rnd.choice([None, 0.5, 2.0, 3.5, 7.0])
            e = rnd.choice([None, None, None, True, False]) if op == "http_register" else rnd.choice([None, True, False])
            if op == "http_update" and w is None and e is None:
                w = 4.0
            rec["weight"], rec["enabled"] = w, e
            if w is not None:
                p["weight"] = repr(w)
            if e is not None:
                p["enabled"] = "true" if e else "false"
            rec["t_call"] = time.time()
            r = procrig.http(node.http_port, "POST" if op == "http_register" else "PUT", P_INST, form=p, timeout=HTTP_TIMEOUT)
        elif op == "http_deregister":
            rec["t_call"] = time.time()
            r = procrig.http(node.http_port, "DELETE", P_INST, params=p, timeout=HTTP_TIMEOUT)
        else:
            rec["t_call"] = time.time()
            r = procrig.http(node.http_port, "PUT", P_INST + "/beat", params=p, timeout=HTTP_TIMEOUT)
        rec["t_ret"] = time.time()
        ok = r.status == 200 and (r.text() == "ok" or (op == "http_beat" and b"10200" in r.body))
        rec["result"] = "ok" if ok else "error"
        rec["detail"] = "%d %s" % (r.status, r.text()[:80])
        if not ok and r.status == 500 and ("transport error" in r.text() or "onnect" in r.text()):
            # route.rs: the forward to the owner failed before anything was sent; the local copy is written only after the
            # owner's answer -> nothing was applied anywhere
            rec["result"] = "not-sent"
    except ConnectionRefusedError:
        rec["t_ret"] = time.time()
        rec["result"] = "not-sent"
        rec["detail"] = "connection refused"
    except OSError as e:
        rec["t_ret"] = time.time()
        rec["result"] = "timeout"
        rec["detail"] = "%s: %s" % (type(e).__name__, e)
    ctx.record(rec)
    ctx.count("ops_" + op + ("" if rec["result"] == "ok" else "_" + rec["result"]))
    return rec


def http_worker(ctx, idx):
    rnd = random.Random(ctx.cseed * 131 + idx)
    client = "h%d" % idx
    http_keys = [k for k in ctx.keys if ctx.key_kind[k] in ("http", "mixed")]
    while not ctx.stop_flag.is_set():
        ctx.idle[client] = False       # claim first, then look at the flag (pause_clients clears the flag, then waits for idle)
        if not ctx.run_flag.is_set():
            ctx.idle[client] = True
            time.sleep(0.02)
            continue
        targets = ctx.live_targets()
        tok = acquire_key(ctx, rnd, http_keys) if targets else None
        if tok is None:
            time.sleep(0.05)
            continue
        try:
            node = rnd.choice(targets)
            rec = http_op(ctx, client, rnd, tok[0], node)
            # rapid succession through another node: the earlier write is still in the 500 ms batch of its node
            if rnd.random() < 0.3 and ctx.run_flag.is_set():
                others = [n for n in ctx.live_targets() if n.id != node.id]
                if others:
                    http_op(ctx, client, rnd, tok[0], rnd.choice(others))
        finally:
            release_key(ctx, tok)
        ctx.idle[client] = True
        time.sleep(rnd.uniform(0.15, 0.6))
    ctx.idle[client] = True


class GrpcWriter:
    def __init__(self, ctx, idx):
        self.ctx, self.idx = ctx, idx
        self.rnd = random.Random(ctx.cseed * 977 + idx)
        self.gen = 0
        self.g = None
        self.label = None
        self.node = None
        self.mine = set()
        self.keys = ctx.grpc_keys.get(idx, [])
        self.failover = []           # keys held by the previous connection: re-registered first on the new one
        self.want_node = None        # set by the main thread: re-attach to this node at the next opportunity
        self.dormant = False         # set at the kill for one client of the victim: it "dies with the node" and never fails over
        # a quiet client registers its pure-gRPC addresses once on `want_node` and then only keeps the connection open: nodes that
        # start later learn these instances from a snapshot alone, never from an incremental batch
        self.quiet = False

    def attach(self, node):
        self.gen += 1
        label = "g%d.%d" % (self.idx, self.gen)
        g = grpcrig.GrpcClient(node.grpc_addr, self.ctx.wd, name="gw-%s" % label)
        try:
            g.open_stream("w", wait_registered_ms=4000)
        except Inconclusive:
            g.stop(abrupt=True)
            raise
        self.failover = [k for k in sorted(self.mine) if self.rnd.random() < 0.8]
        self.g, self.label, self.node, self.mine = g, label, node, set()
        with self.ctx.lock:
            self.ctx.conn_node[label] = node.id
            self.ctx.conn_alive[label] = True
        self.ctx.count("grpc_connections_opened")

    def detach(self, mode):
        """close the connection: polite (END_STREAM), abrupt (RST + TCP close) or crash (SIGKILL of the client process)"""
        if self.g is None:
            return
        t0 = time.time()
        try:
            if mode == "crash":
                self.g.stop(abrupt=True)
            else:
                self.g.close_stream("w", abrupt=(mode == "abrupt"))
                self.g.stop()
        except Inconclusive:
            self.g.stop(abrupt=True)
        with self.ctx.lock:
            alive = self.ctx.conn_alive.get(self.label)
            self.ctx.conn_alive[self.label] = False
        if alive:
            self.ctx.record({"client": "gw%d" % self.idx, "op": "conn_gone", "key": None, "conn": self.label, "node": self.node.id,
                             "kind": "grpc", "t_call": t0, "t_ret": time.time(), "result": "ok", "detail": "client close: " + mode})
            self.ctx.count("grpc_connections_closed_" + mode)
        self.g = None

    def op(self, key, op, weight=1.0, enabled=True):
        ctx = self.ctx
        rec = {"client": "gw%d" % self.idx, "op": op, "key": key, "node": self.node.id, "kind": "grpc", "conn": self.label}
        body = {"namespace": key[0], "groupName": key[1], "serviceName": key[2],
                "type": "registerInstance" if op == "grpc_register" else "deregisterInstance",
                "instance": {"ip": key[3], "port": key[4], "weight": weight, "healthy": True, "enabled": enabled, "ephemeral": True,
                             "clusterName": "DEFAULT", "serviceName": key[2], "metadata": {"by": self.label}}}
        if op == "grpc_register":
            rec["weight"], rec["enabled"] = weight, enabled
        rec["t_call"] = time.time()
        try:
            r = self.g.request("w", "InstanceRequest", body, timeout_ms=HTTP_TIMEOUT * 1000)
            rec["t_ret"] = time.time()
            if r.get("ok") and r.get("type") == "InstanceResponse" and r.get("result_code") == 200:
                rec["result"] = "ok"
            elif r.get("ok") and r.get("error_code") == 301:
                rec["result"] = "not-sent"       # connection not registered at the server: refused before the registry is touched
            else:
                rec["result"] = "timeout" if r.get("timeout") else "error"
            rec["detail"] = json.dumps({k: r.get(k) for k in ("ok", "type", "result_code", "error_code", "message", "error")})[:200]
        except Inconclusive as e:
            rec["t_ret"] = time.time()
            rec["result"] = "timeout"
            rec["detail"] = str(e)[:160]
        ctx.record(rec)
        ctx.count("ops_" + op + ("" if rec["result"] == "ok" else "_" + rec["result"]))
        if rec["result"] == "ok":
            if op == "grpc_register":
                self.mine.add(key)
            else:
                self.mine.discard(key)
        return rec

    def loop(self):
        ctx, rnd = self.ctx, self.rnd
        client = "gw%d" % self.idx
        while not ctx.stop_flag.is_set():
            ctx.idle[client] = False
            if not ctx.run_flag.is_set():
                ctx.idle[client] = True
                time.sleep(0.02)
                continue
            try:
                self.step()
            except Inconclusive as e:
                ctx.count("grpc_writer_hiccups")
                if self.g is not None:
                    try:
                        self.g.stop(abrupt=True)
                    except Exception:
                        pass
                    with ctx.lock:
                        alive = ctx.conn_alive.get(self.label)
                        ctx.conn_alive[self.label] = False
                    if alive:
                        t = time.time()
                        ctx.record({"client": client, "op": "conn_gone", "key": None, "conn": self.label, "node": self.node.id, "kind": "grpc",
                                    "t_call": t, "t_ret": t, "result": "ok", "detail": "client process dropped after: %s" % str(e)[:80]})
                    self.g = None
                time.sleep(0.2)
            ctx.idle[client] = True
            time.sleep(rnd.uniform(0.15, 0.6))
        ctx.idle[client] = True

    def step(self):
        ctx, rnd = self.ctx, self.rnd
        if self.dormant:
            if self.g is not None:
                self.g.stop(abrupt=True)
                self.g = None
            return
        if self.quiet:
            if self.g is not None and not ctx.conn_alive.get(self.label):
                self.dormant = True         # its node was killed: this client dies with it
                return
            if self.g is None:
                if self.gen > 0 or self.want_node is None or not ctx.up.get(self.want_node.id):
                    return
                self.attach(self.want_node)
                return
            todo = [k for k in self.keys if ctx.key_kind[k] == "grpc" and k not in self.mine and k not in getattr(self, "tried", set())]
            if todo:
                self.tried = getattr(self, "tried", set()) | {todo[0]}
                tok = acquire_key(ctx, rnd, [todo[0]], race_p=1.0)
                try:
                    self.op(todo[0], "grpc_register", weight=1.0, enabled=True)
                finally:
                    release_key(ctx, tok)
            return
        # connection handling
        if self.g is not None and not ctx.conn_alive.get(self.label):
            # the node was killed: the connection is gone (recorded by the nemesis)
            self.g.stop(abrupt=True)
            self.g = None
        if self.g is not None and self.want_node is not None and self.want_node.id != self.node.id:
            self.detach("polite")
        if self.g is None:
            targets = ctx.live_targets()
            if ctx.plan.get("no_grpc_on_restarted") and getattr(ctx, "t_kill", None):
                # the restarted node gets no gRPC client of its own: its reconciliation messages stay empty
                targets = [n for n in targets if n.id != ctx.plan["victim"]]
                if self.want_node is not None and self.want_node.id == ctx.plan["victim"]:
                    self.want_node = None
            if not targets:
                return
            node = self.want_node if (self.want_node is not None and ctx.up.get(self.want_node.id)) else rnd.choice(targets)
            self.want_node = None
            self.attach(node)
            return
        if not ctx.up.get(self.node.id):
            return
        if self.failover:
            key = self.failover.pop()
            tok = acquire_key(ctx, rnd, [key], race_p=1.0)
            try:
                self.op(key, "grpc_register", weight=rnd.choice([1.0, 2.0]), enabled=True)
            finally:
                release_key(ctx, tok)
            return
        c = rnd.random()
        if c < 0.03:
            self.detach(rnd.choice(["polite", "abrupt", "crash"]))
            return
        if not self.keys:
            return
        cands = sorted(self.mine) if (c > 0.62 and self.mine) else self.keys
        tok = acquire_key(ctx, rnd, cands)
        if tok is None:
            return
        try:
            key = tok[0]
            if c < 0.62:
                self.op(key, "grpc_register", weight=rnd.choice([1.0, 1.0, 0.5, 2.0, 6.0]), enabled=rnd.random() > 0.12)
                if rnd.random() < 0.2 and key in self.mine:
                    self.op(key, "grpc_deregister")
            else:
                self.op(key, "grpc_deregister")
        finally:
            release_key(ctx, tok)


def sigstop_nemesis(ctx, idx):
    rnd = random.Random(ctx.cseed * 31 + 7)
    while not ctx.stop_flag.is_set():
        if not ctx.run_flag.is_set() or not ctx.nemesis_on:
            time.sleep(0.05)
            continue
        time.sleep(rnd.uniform(0.8, 2.2))
        if not ctx.run_flag.is_set() or not ctx.nemesis_on:
            continue
        with ctx.fault_lock:
            targets = [n for n in ctx.live_targets() if n.alive()]
            if not targets or not ctx.run_flag.is_set():
                continue
            n = rnd.choice(targets)
            d = rnd.uniform(1.0, 3.0)
            fab = getattr(ctx, "fabric", None)
            if fab is not None and len(targets) >= 2 and rnd.random() < 0.5:
                # one directed link held for a while, then released: the batch sync / routed writes / snapshot pulls of src -> dst
                # (and dst's answers to them) arrive late while every other link stays fast.  For the reference this is what a
                # SIGSTOP of both end points could do to those messages, so it is recorded as one stop per end point ("link").
                m = rnd.choice([x for x in targets if x is not n])
                both = rnd.random() < 0.3
                t0 = time.time()
                try:
                    fab.stall(n.id, m.id)
                    if both:
                        fab.stall(m.id, n.id)
                    time.sleep(d)
                finally:
                    fab.release(n.id, m.id)
                    if both:
                        fab.release(m.id, n.id)
                t1 = time.time()
                for x in (n, m):
                    ctx.faults.append({"kind": "sigstop", "node": x.id, "t0": t0, "t1": t1, "link": [n.id, m.id], "both_directions": both})
                ctx.count("link_stalls")
                continue
            t0 = time.time()
            n.sigstop()
            time.sleep(d)
            n.sigcont()
            ctx.faults.append({"kind": "sigstop", "node": n.id, "t0": t0, "t1": time.time()})
            ctx.count("sigstops")


# ------------------------------------------------------------------------------------------------------------------ observation
def observe_node(ctx, node):
    """-> {key: (healthy, enabled, weight)} or None when the node did not answer; unknown addresses are kept under ('?', ..)"""
    obs = {}
    try:
        for s in ctx.services:
            r = node.get(P_INST + "/list", params={"namespaceId": s[0], "groupName": s[1], "serviceName": s[2], "healthyOnly": "false"}, timeout=4)
            j = r.json() if r.status == 200 else None
            if j is None:
                return None
            for h in j.get("hosts") or []:
                obs[s + (h.get("ip"), h.get("port"))] = (bool(h.get("healthy")), bool(h.get("enabled")), round(float(h.get("weight")), 3))
        with ctx.lock:
            touched = sorted(ctx.touched)
        for k in touched:
            if k in obs:
                continue
            r = node.get(P_INST, params=key_params(k), timeout=4)
            if r.status == 200:
                h = r.json()
                if h and h.get("ip") == k[3]:
                    obs[k] = (bool(h.get("healthy")), bool(h.get("enabled")), round(float(h.get("weight")), 3))
    except OSError:
        return None
    return obs


def grpc_view(ctx, node):
    """enabled+healthy instances per service through ServiceQueryRequest on an observer connection; None on any hiccup"""
    try:
        if ctx.obs_client is None:
            ctx.obs_client = grpcrig.GrpcClient(node.grpc_addr, ctx.wd, name="obs")
        g = ctx.obs_client
        ctx.obs_gen += 1
        conn = "o%d" % ctx.obs_gen
        r = g.cmd("open_stream", conn=conn, addr=node.grpc_addr, wait_registered_ms=3000, report=[])
        if not r.get("ok"):
            return None
        view = {}
        for s in ctx.services:
            r = g.request(conn, "ServiceQueryRequest", {"namespace": s[0], "groupName": s[1], "serviceName": s[2], "cluster": "", "healthyOnly": False},
                          timeout_ms=4000)
            if not (r.get("ok") and r.get("result_code") == 200):
                return None
            for h in ((r.get("body") or {}).get("serviceInfo") or {}).get("hosts") or []:
                view[s + (h.get("ip"), h.get("port"))] = (bool(h.get("healthy")), bool(h.get("enabled")), round(float(h.get("weight")), 3))
        g.cmd("close_stream", conn=conn, mode="polite")
        return view
    except Inconclusive:
        try:
            if ctx.obs_client:
                ctx.obs_client.stop(abrupt=True)
        except Exception:
            pass
        ctx.obs_client = None
        return None


def pause_clients(ctx, bound=HTTP_TIMEOUT * 2 + 10):
    ctx.run_flag.clear()
    t0 = time.time()
    while time.time() - t0 < bound:
        if all(ctx.idle.values()):
            break
        time.sleep(0.02)
    else:
        raise Inconclusive("clients did not become idle within %ss: %s" % (bound, ctx.idle))
    with ctx.fault_lock:     # a SIGSTOP cycle in progress ends with SIGCONT before we go on
        pass
    for n in ctx.nodes:
        if n.alive() and n.stopped:
            n.sigcont()


def stop_end(ctx, t_from, t_to):
    """end of the latest SIGSTOP (of any node) overlapping [t_from, t_to], or None"""
    e = None
    for f in ctx.faults:
        if f["kind"] == "sigstop" and f["t0"] <= t_to and f["t1"] >= t_from:
            e = f["t1"] if e is None else max(e, f["t1"])
    return e


def model_ops(ctx, key, t_end):
    """operation list of one key for the reference: adds definite / site / t_vis; connection ends become per-key operations"""
    with ctx.lock:
        hist = list(ctx.history)
    ops = []
    conns_used = set()
    for r in hist:
        if r.get("key") == key and r["t_call"] <= t_end and r["result"] != "not-sent":
            ops.append(dict(r))
            if r.get("conn"):
                conns_used.add(r["conn"])
    for r in hist:
        if r["op"] == "conn_gone" and r["conn"] in conns_used and r["t_call"] <= t_end:
            o = dict(r)
            o["key"] = key
            ops.append(o)
    for o in ops:
        o["definite"] = o["result"] == "ok"
        if not o["definite"]:
            # may still take effect after the client gave up, but neither after the node it was sent to has died nor much later
            # than the longest stall in the rig (SIGSTOP <= 3 s, request time-outs 8 s)
            o["t_ret"] = o["t_call"] + 20.0
            for f in ctx.faults:
                if f["kind"] == "kill" and f["node"] == o["node"] and f["t0"] >= o["t_call"]:
                    o["t_ret"] = min(o["t_ret"], f["t0"])
        o["site"] = o["node"] if o["kind"] == "grpc" else ctx.owner_at(key, o["t_call"])
        if o["kind"] == "http" and ctx.views_disagree(key, o["t_call"]):
            # nodes may route this service differently right now (two of them act as its owner until every node has noticed the
            # death / the return of the third): no common serialisation point, and the write may be overwritten by the other "owner"
            o["site"] = ("ambiguous", id(o))
            o["definite"] = False
            o["split_ownership"] = True
        # where the property is silent (writes racing with a membership change):
        #  - the serialising node came up without data and has not pulled the others' snapshots yet (1 s after it learns the
        #    member list): it may act on an empty registry ("amnesia": creates instead of updates, removes nothing)
        #  - the serialising node was SIGKILLed before its next 500 ms sync tick: acknowledged, possibly never replicated
        if o["op"] == "conn_gone":
            o["t_vis"] = o["t_ret"] + SYNC_WINDOW      # the end of a connection is a fact, not a write that may be lost
            continue
        for (nid, t_ps, t_ready) in ctx.fresh:
            if o["site"] == nid or (isinstance(o["site"], tuple) and o["node"] == nid) or (o["kind"] == "http" and isinstance(o["site"], tuple)):
                lim = t_ready + HANDOVER
                e = stop_end(ctx, t_ps, lim)
                if e is not None:
                    lim = max(lim, e + HANDOVER)
                if t_ps <= o["t_call"] <= lim:
                    o["amnesia"] = True
                    o["definite"] = False
        for f in ctx.faults:
            if f["kind"] == "kill" and o["site"] == f["node"] and o["t_call"] <= f["t0"]:
                lo = f["t0"] - SYNC_WINDOW
                e = stop_end(ctx, lo - 3.5, f["t0"])
                if e is not None and e >= lo - SYNC_WINDOW:
                    lo -= 3.5
                if o["t_ret"] >= lo:
                    o["definite"] = False
                    o["unreplicated"] = True
        vis = o["t_ret"] + SYNC_WINDOW
        e = stop_end(ctx, o["t_call"], vis)
        while e is not None and e + SYNC_WINDOW > vis:
            vis = e + SYNC_WINDOW
            e = stop_end(ctx, o["t_call"], vis)
        o["t_vis"] = vis
    return ops


def _views_disagree(ctx, key, t):
    """True while the nodes may hold different valid-node lists and these route the key's service differently"""
    h = ctx.svc_hash[key[:3]]
    o3 = [1, 2, 3][h % 3]
    for (nid, t_ps, t_ready) in ctx.fresh:
        if t_ps <= t <= t_ready + HANDOVER + 3.0:          # +3 s: the others learn about a restarted node by its next ping
            others = [i for i in (1, 2, 3) if i != nid]
            if others[h % 2] != o3:
                return True
    for f in ctx.faults:
        hi = f["t0"] + 18.0 + HANDOVER
        e = stop_end(ctx, f["t0"] + 12.0, hi)
        if e is not None:
            hi = max(hi, e + HANDOVER)
        if f["kind"] == "kill" and f["t0"] + 14.0 <= t <= hi and (f.get("t_restart_begin") is None or f["t_restart_begin"] > t):
            surv = [i for i in (1, 2, 3) if i != f["node"]]
            if surv[h % 2] != o3:
                return True
    return False


Ctx.views_disagree = _views_disagree


def writer_of(ops):
    kinds = {o["kind"] for o in ops if o["op"] != "conn_gone"}
    return "mixed" if len(kinds) > 1 else (next(iter(kinds)) if kinds else "nobody")


def pull_windows(ctx, node_id):
    """[lo, hi] intervals in which `node_id` runs one of its periodic snapshot pulls: 1 s / 15 s / 45 s after the process learnt the
    member list (0..0.6 s after it started); a pull that falls into a SIGSTOP of that node fires when the node is resumed"""
    starts = []
    if node_id in ctx.proc_start:
        starts.append((ctx.proc_start[node_id], (15.0, 45.0)))
    starts += [(t_ps, (1.0, 15.0, 45.0)) for (nid, t_ps, _r) in ctx.fresh if nid == node_id and t_ps != ctx.proc_start.get(node_id)]
    out = []
    for t, ds in starts:
        for d in ds:
            lo, hi = t + d, t + d + 0.6
            for f in ctx.faults:
                # the puller stopped: the pull fires late; a responder stopped: its (old) answer arrives late
                if f["kind"] == "sigstop" and f["t0"] <= hi and f["t1"] >= lo:
                    hi = max(hi, f["t1"] + 0.2)
            out.append((lo, hi))
    return out


def fault_of(ctx, key, ops, kind, t_prev):
    """what the key went through between the previous checkpoint and this one (see module doc)"""
    writer = writer_of(ops)
    if ctx.key_kind.get(key) == "mixed" or writer == "mixed":
        # one family: replication has no rule for an address written by both kinds of clients (the witness names the pattern)
        return "same-address-http-and-grpc"
    lastw = sorted([o for o in ops if o["op"] != "conn_gone" and o["result"] == "ok" and o["kind"] == "http"], key=lambda x: x["t_call"])
    if lastw and lastw[-1]["t_call"] >= t_prev:
        # the node that serialised the last write (any node while the views differed) pulled the others' older copies right after it
        w = lastw[-1]
        for nid in ([w["site"]] if not isinstance(w["site"], tuple) else [1, 2, 3]):
            for lo, hi in pull_windows(ctx, nid):
                if w["t_ret"] - 0.2 <= hi and lo <= w["t_vis"] + 0.5:
                    return "write-near-periodic-snapshot-pull"
    if writer == "http":
        # deregistration of an instance that had been written through a non-owner, and a new write while the forwarder's echo of
        # the remove may still be under way (two sync ticks after the deregistration, longer across a SIGSTOP)
        for d, w in zip(lastw, lastw[1:]):
            if d["op"] == "http_deregister" and w["op"] != "http_deregister" and w["t_call"] >= t_prev:
                lim = d["t_vis"] + SYNC_WINDOW
                e = stop_end(ctx, d["t_call"], lim)
                if e is not None:
                    lim = max(lim, e + 2 * SYNC_WINDOW)
                if w["t_call"] <= lim and all(x["op"] != "http_deregister" for x in lastw[lastw.index(w):]):
                    return "write-soon-after-deregister"
    acked = sorted([o for o in ops if o["op"] != "conn_gone" and o["result"] == "ok"], key=lambda x: x["t_call"])
    kills = [f for f in ctx.faults if f["kind"] == "kill" and f["t0"] >= t_prev]
    for f in kills:
        before = [o for o in acked if o["t_call"] <= f["t0"]]
        after = [o for o in acked if o["t_call"] > f["t0"]]
        if before and not after:
            o = before[-1]
            if o["t_ret"] >= f["t0"] - SYNC_WINDOW and (o["node"] == f["node"] or o["site"] == f["node"]):
                return "write-in-sync-window-of-kill"
    if writer == "http":
        # an acknowledged deregistration served under another routing owner than the one the instance was last written under
        # (the node set changed in between, or the nodes' views differed at that moment): no ownership hand-over exists
        prev_w = None
        for o in acked:
            if o["op"] == "http_deregister":
                if o["t_call"] >= t_prev and prev_w is not None and (
                        ctx.owner_at(key, prev_w["t_call"]) != ctx.owner_at(key, o["t_call"]) or ctx.views_disagree(key, o["t_call"])
                        or ctx.views_disagree(key, prev_w["t_call"])):
                    return "deregister-after-owner-change"
            else:
                prev_w = o
    h = ctx.svc_hash[key[:3]]
    o3 = [1, 2, 3][h % 3]
    victim = ctx.plan["victim"]
    surv = [i for i in (1, 2, 3) if i != victim]
    killed_conns = set()
    for f in ctx.faults:
        if f["kind"] == "kill":
            killed_conns |= set(f.get("conns") or [])
    regs = [o for o in acked if o["op"] == "grpc_register"]
    holder = "holder-killed" if (regs and regs[-1].get("conn") in killed_conns) else "holder-alive"
    if kind == "late-join":
        if writer == "grpc":
            return "late-join"
        return "late-join:" + ("owner-same" if [1, 2][h % 2] == o3 else "owner-moved")
    if kind == "node-down":
        if writer == "grpc":
            return "kill:" + holder
        return "kill:" + ("owner-killed" if o3 == victim else ("owner-same" if surv[h % 2] == o3 else "owner-moved"))
    if kind == "healed":
        if writer == "grpc":
            return "kill+restart:" + holder
        long_outage = ctx.plan["down_s"] >= 15
        return "kill+restart:" + ("owner-restarted" if o3 == victim else ("owner-moved" if long_outage and surv[h % 2] != o3 else "owner-same"))
    recent = [o for o in ops if o["t_call"] >= t_prev and o["op"] != "conn_gone"]
    for f in ctx.faults:
        if f["kind"] == "sigstop" and f["t1"] >= t_prev:
            for o in recent:
                if o["t_call"] <= f["t1"] + 0.6 and o["t_ret"] >= f["t0"] - 0.6:
                    return "sigstop"
    return "none"


def _owner_at(ctx, key, t):
    """routing owner of the key's service for a node that sees every started node as valid unless it has been dead for 18 s"""
    ids = []
    for n in ctx.nodes:
        jt = ctx.first_start.get(n.id)
        if jt is None or jt > t:
            continue
        dead = False
        for f in ctx.faults:
            if f["kind"] == "kill" and f["node"] == n.id and f["t0"] + 18 <= t and (f.get("t_restart") is None or f["t_restart"] > t):
                dead = True
        if not dead:
            ids.append(n.id)
    ids.sort()
    return ids[ctx.svc_hash[key[:3]] % len(ids)] if ids else None


Ctx.owner_at = _owner_at


def symptom_of(ctx, k, ops, vals, acc, kind, joined, killed_conns):
    down = kind == "node-down"
    if acc is False:
        return "unknown-instance-returned"
    distinct = set(vals.values())
    acked = sorted([o for o in ops if o["op"] != "conn_gone" and o["result"] == "ok"], key=lambda x: x["t_call"])
    regs = [o for o in acked if o["op"] == "grpc_register"]
    last_holder_killed = bool(regs) and regs[-1].get("conn") in killed_conns and regs[-1] is [o for o in acked if o["kind"] == "grpc"][-1]
    must_be_absent = acc is not None and acc == {None}
    if len(distinct) > 1:
        present = {nid for nid, v in vals.items() if v is not None}
        absent = set(vals) - present
        if absent and present and absent <= joined and not must_be_absent and ctx.key_kind.get(k) != "mixed":
            return "joined-node-missing-data"
        if present and must_be_absent and last_holder_killed:
            return "stale-instance-of-dead-node"
        base = "not-converged-while-node-down" if down else "not-converged-after-heal"
        return base if (absent and present) else base + "(value)"
    v = next(iter(distinct))
    if v is None:
        return "instance-lost-while-node-down" if down else "instance-lost"
    if must_be_absent:
        if last_holder_killed:
            return "stale-instance-of-dead-node"
        return "instance-resurrected-while-node-down" if down else "instance-resurrected"
    return "wrong-value"


def checkpoint(ctx, kind, res):
    """quiesce, poll until equal-and-agreeing twice in a row or B_c; judge; returns the checkpoint record"""
    pause_clients(ctx)
    with ctx.lock:
        t_last_op = max([r["t_ret"] for r in ctx.history] or [0])
    t_last_fault = max([f["t1"] for f in ctx.faults] or [0])
    t_q = max(t_last_op, t_last_fault, *(list(ctx.join_times.values()) or [0]))
    t_prev = ctx.t_prev_cp
    cp = {"kind": kind, "t_quiesce": round(t_q - ctx.t0, 2), "polls": 0}
    live = [n for n in ctx.nodes if ctx.up.get(n.id)]
    with ctx.lock:
        keys = sorted(ctx.touched)
    accept, opsof = {}, {}
    unjudged = 0
    for k in keys:
        ops = model_ops(ctx, k, time.time())
        opsof[k] = ops
        st = acceptable_states(ops)
        accept[k] = None if st is None else {visible(s) for s in st}
        unjudged += st is None
    good_streak = 0
    obs = {}
    bad_keys = []
    soft = set()
    unanswered = 0
    t_conv = None
    while True:
        t_poll = time.time()
        obs = {n.id: observe_node(ctx, n) for n in live}
        cp["polls"] += 1
        res["evaluations"] += 1
        bad_keys = []
        soft = set()
        if any(v is None for v in obs.values()):
            unanswered += 1
            good_streak = 0
        else:
            allkeys = set(keys)
            for v in obs.values():
                allkeys |= set(v)
            for k in sorted(allkeys):
                if k in ctx.tainted:
                    continue
                vals = [obs[n.id].get(k) for n in live]
                if k not in accept:
                    bad_keys.append(k)     # an address nobody ever wrote
                elif len(set(vals)) > 1:
                    bad_keys.append(k)
                elif accept[k] is not None and vals[0] not in accept[k]:
                    if ctx.key_kind.get(k) == "mixed":
                        soft.add(k)        # HTTP and gRPC clients on ONE address: only convergence is demanded (see assumptions)
                    else:
                        bad_keys.append(k)
            if not bad_keys:
                good_streak += 1
                if good_streak == 1:
                    t_conv = t_poll
            else:
                good_streak = 0
                t_conv = None
        if good_streak >= 2:
            break
        if time.time() - t_q > B_C:
            break
        time.sleep(max(0.0, 1.0 - (time.time() - t_poll)))
    cp["waited_s"] = round(time.time() - t_q, 2)
    if good_streak >= 2:
        cp["converged_after_s"] = round(max(0.0, t_conv - t_q), 2)
    elif any(v is None for v in obs.values()):
        mute = [n for n in live if obs.get(n.id) is None]
        raise Inconclusive("checkpoint %s: node(s) %s did not answer the final poll (%d unanswered polls); process alive=%s stopped=%s log tail: %s" % (
            kind, [n.id for n in mute], unanswered, [n.alive() for n in mute], [n.stopped for n in mute], mute[0].tail_log(600) if mute else ""))
    # ---- judge
    joined = {nid for nid, jt in ctx.join_times.items() if jt >= t_prev}
    killed_conns = set()
    for f in ctx.faults:
        if f["kind"] == "kill":
            killed_conns |= set(f.get("conns") or [])
    for k in bad_keys:
        vals = {n.id: obs[n.id].get(k) for n in live}
        ops = opsof.get(k, [])
        acc = accept.get(k, False)
        sym = symptom_of(ctx, k, ops, vals, acc, kind, joined, killed_conns)
        writer = writer_of(ops)
        fault = fault_of(ctx, k, ops, kind, t_prev) if k in accept else "none"
        sig = "%s/%s/%s" % (sym, writer, fault)
        ctx.tainted[k] = sig
        res["violations"].append({"signature": sig, "witness": witness(ctx, k, ops, vals, acc if acc is not False else None, cp, kind)})
    for k in sorted(soft):
        res["mixed_address_reference_disagreements"] += 1
        if len(res["mixed_address_samples"]) < 2:
            w = witness(ctx, k, opsof[k], {n.id: obs[n.id].get(k) for n in live}, accept[k], cp, kind)
            res["mixed_address_samples"].append({x: w[x] for x in ("key", "checkpoint", "observed_per_node(healthy,enabled,weight)", "acceptable", "last_operations_on_key")})
    # ---- coverage: what the agreeing keys went through
    for k in keys:
        if k in ctx.tainted or k in bad_keys or k in soft:
            continue
        ops = opsof[k]
        recent = [o for o in ops if o["t_call"] >= t_prev]
        if not recent:
            continue
        res["keys_judged"] += 1
        if accept[k] is None:
            res["keys_only_compared_between_nodes"] += 1
        v = obs[live[0].id].get(k)
        flags = set()
        writer = writer_of(ops)
        real = sorted([o for o in recent if o["op"] != "conn_gone"], key=lambda x: x["t_call"])
        lastw = [o for o in real if o["definite"]]
        if lastw and lastw[-1]["kind"] == "http" and lastw[-1]["site"] != lastw[-1]["node"]:
            flags.add("forwarded")
        for f in ctx.faults:
            if f["kind"] == "sigstop" and any(o["t_call"] <= f["t1"] and o["t_ret"] >= f["t0"] and f["node"] in (o["node"], o["site"]) for o in real):
                flags.add("op-hit-stopped-node")
        if any(not precedes(a, b) for a, b in zip(real, real[1:])):
            flags.add("racing-or-in-sync-window")
        if any(not o["definite"] for o in real):
            flags.add("indeterminate-op")
        if any(o["op"] == "conn_gone" and "client close" in (o.get("detail") or "") for o in recent) and \
                any(o["op"] == "grpc_register" and o["definite"] for o in real):
            flags.add("client-failover")
        if ctx.pre_kill_obs and kind in ("node-down", "healed") and ctx.t_kill and ctx.t_kill >= t_prev:
            victim = ctx.plan["victim"]
            seen_before = any(nid != victim and (ctx.pre_kill_obs.get(nid) or {}).get(k) is not None for nid in ctx.pre_kill_obs)
            purged = any(o["op"] == "conn_gone" and o["conn"] in killed_conns for o in recent)
            later = any(o["t_call"] > ctx.t_kill for o in real)
            if seen_before and v is None and purged and not later:
                flags.add("grpc-instance-of-killed-node-purged")
            if seen_before and v is not None and writer == "http" and [1, 2, 3][ctx.svc_hash[k[:3]] % 3] == victim and not later:
                flags.add("http-instance-of-killed-owner-kept")
        if joined and v is not None and lastw and lastw[-1]["t_ret"] < min(ctx.join_times[j] for j in joined):
            flags.add("written-before-join-served-by-joined-node")
        lastop = lastw[-1]["op"] if lastw else "none"
        shape = "%s/%s/%s/%s/%s" % (fault_of(ctx, k, ops, kind, t_prev), writer, lastop, "present" if v is not None else "absent",
                                    "+".join(sorted(flags)) or "plain")
        res["shapes"][shape] = res["shapes"].get(shape, 0) + 1
        res["mechanisms"].update(("%s:%s" % (kind, f)) for f in flags)
    # ---- gRPC view == HTTP view on every node
    if good_streak >= 2:
        for n in live:
            gv = grpc_view(ctx, n)
            if gv is None:
                res["grpc_view_skipped"] += 1
                continue
            res["grpc_views_compared"] += 1
            hv = {k: v for k, v in obs[n.id].items() if v[0] and v[1]}
            if gv != hv:
                o2 = observe_node(ctx, n) or {}
                hv2 = {k: v for k, v in o2.items() if v[0] and v[1]}
                if gv != hv2:
                    diff = sorted(set(gv.items()) ^ set(hv2.items()))[:6]
                    res["violations"].append({"signature": "grpc-view-differs-from-http-view/any/%s" % kind,
                                              "witness": {"node": n.id, "difference": [str(d) for d in diff], "cluster_seed": ctx.cseed, "plan": ctx.plan}})
    cp["keys_bad"] = len(bad_keys)
    if getattr(ctx, "orphan_keys", None):
        cp["orphaned_client_instances_seen"] = {"%s:%d" % (k[3], k[4]): {str(n.id): obs[n.id].get(k) is not None for n in live} for k in ctx.orphan_keys}
    cp["keys_not_judged_against_reference"] = unjudged
    res["checkpoints"].append(cp)
    ctx.t_prev_cp = time.time()
    ctx.join_times = {}
    return cp


def mixed_pattern(ctx, ops):
    """which of the known same-address interplays the history contains (information for the reader, not part of the signature)"""
    acked = sorted([o for o in ops if o["op"] != "conn_gone" and o["result"] == "ok"], key=lambda x: x["t_call"])
    gone = {o["conn"]: o["t_call"] for o in ops if o["op"] == "conn_gone"}
    out = []
    holder = None
    for o in acked:
        if o["op"] == "grpc_register":
            holder = o
        elif o["op"] == "grpc_deregister" and holder is not None and o["conn"] == holder["conn"]:
            holder = None
        elif o["op"] == "http_deregister" and holder is not None:
            if gone.get(holder["conn"], float("inf")) > o["t_call"] and o["site"] != holder["node"]:
                out.append("http-deregister-of-grpc-instance-held-by-other-node")
    for a, b in zip(acked, acked[1:]):
        if a["op"] == "grpc_register" and b["op"] == "grpc_deregister" and b["t_call"] - a["t_ret"] < 0.5:
            out.append("grpc-register+deregister-inside-one-sync-tick")
        if {a["kind"], b["kind"]} == {"http", "grpc"} and b["t_call"] - a["t_ret"] < SYNC_WINDOW and a.get("weight") != b.get("weight"):
            out.append("http-write-and-grpc-register-inside-each-others-sync-tick")
    return sorted(set(out)) or None


def witness(ctx, k, ops, vals, acc, cp, kind):
    t0 = ctx.t0
    hist = []
    for o in sorted(ops, key=lambda x: x["t_call"])[-14:]:
        hist.append({"client": o["client"], "op": o["op"], "node": o["node"], "conn": o.get("conn"), "weight": o.get("weight"), "enabled": o.get("enabled"),
                     "t_call": round(o["t_call"] - t0, 3), "t_ret": (round(o["t_ret"] - t0, 3) if o["t_ret"] != float("inf") else "open"),
                     "result": o["result"], "detail": o.get("detail")})
    hint = None
    if ctx.key_kind.get(k) == "mixed":
        hint = mixed_pattern(ctx, ops)
    return {
        **({"mixed_address_pattern": hint} if hint else {}),
        "key": list(k), "service_hash_mod_6": ctx.svc_hash[k[:3]] % 6 if k[:3] in ctx.svc_hash else None,
        "owner_with_all_nodes_valid": ctx.owner_of(k, [n.id for n in ctx.nodes]) if k[:3] in ctx.svc_hash else None,
        "checkpoint": kind, "waited_s": cp.get("waited_s"), "bound_s": B_C,
        "observed_per_node(healthy,enabled,weight)": {str(n): (list(v) if v else None) for n, v in vals.items()},
        "acceptable": sorted([list(a) if a else None for a in acc], key=str) if acc is not None else "any (too many racing operations)",
        "last_operations_on_key": hist,
        "faults": [{"kind": f["kind"], "node": f["node"], "t0": round(f["t0"] - t0, 2), "t1": round(f["t1"] - t0, 2),
                    **({"restart": round(f["t_restart"] - t0, 2)} if f.get("t_restart") else {}),
                    **({"connections_lost": f["conns"]} if f.get("conns") else {})} for f in ctx.faults if f["kind"] != "sigstop" or
                   any(o["t_call"] <= f["t1"] + 1 and o["t_ret"] >= f["t0"] - 1 for o in ops)],
        "node_starts": {str(n): round(t - t0, 2) for n, t in ctx.first_start.items()},
        "plan": ctx.plan, "cluster_seed": ctx.cseed,
    }


# ------------------------------------------------------------------------------------------------------------------- one cluster
def segment(ctx, seconds, nemesis=True):
    ctx.nemesis_on = nemesis
    ctx.run_flag.set()
    time.sleep(seconds)


def run_cluster(args):
    wd0, cseed, plan = args
    wd = os.path.join(wd0, "c%d" % cseed)
    shutil.rmtree(wd, ignore_errors=True)
    os.makedirs(wd)
    ctx = Ctx(wd, plan, cseed)
    res = {"cluster_seed": cseed, "plan": plan, "violations": [], "shapes": {}, "mechanisms": set(), "checkpoints": [], "evaluations": 0,
           "keys_judged": 0, "keys_only_compared_between_nodes": 0, "grpc_views_compared": 0, "grpc_view_skipped": 0,
           "mixed_address_reference_disagreements": 0, "mixed_address_samples": []}
    rnd = ctx.rnd
    make_universe(ctx)
    binary = os.environ.get("VERIF_RNACOS_BIN") or None      # mutation validation: a binary built from a scratch copy of /repo
    first = procrig.Node(wd, 1, env=NODE_ENV, auto_init=True, binary=binary)
    ctx.nodes = [first] + [procrig.Node(wd, i, env=NODE_ENV, join=first.grpc_addr, auto_init=False, binary=binary) for i in (2, 3)]
    # node-to-node traffic runs through the link fabric (own process) so that single directed links can be stalled
    ctx.fabric = linkproxy.FabricProcess({n.id: n.grpc_port for n in ctx.nodes})
    for n in ctx.nodes:
        n.advertise = ctx.fabric.addr(n.id)
        n.after_start = lambda _n: ctx.fabric.set_pids({x.id: (x.p.pid if x.p is not None and x.p.poll() is None else None) for x in ctx.nodes})
    for n in ctx.nodes[1:]:
        n.join = first.raft_addr
    ctx.first_start = {}
    ctx.nemesis_on = False
    threads = []
    writers = []
    try:
        ctx.t0 = time.time()
        ctx.t_prev_cp = ctx.t0
        ctx.proc_start[1] = time.time()
        first.start()
        time.sleep(0.8)
        ctx.proc_start[2] = time.time()
        ctx.nodes[1].start()
        if not plan["late_join"]:
            ctx.proc_start[3] = time.time()
            ctx.nodes[2].start()
        started = ctx.nodes[:2] if plan["late_join"] else ctx.nodes
        res["formed_in_s"] = round(wait_members(started, len(started), 30), 2)
        time.sleep(1.0)      # the naming node table follows the raft membership; first snapshot pull is 1 s after it
        for n in started:
            ctx.up[n.id] = True
            ctx.first_start[n.id] = time.time()
        # clients
        for i in range(plan["http_clients"]):
            t = threading.Thread(target=http_worker, args=(ctx, i), daemon=True)
            threads.append(t)
        for i in range(plan["grpc_clients"]):
            w = GrpcWriter(ctx, i)
            if plan["late_join"] and i == plan["grpc_clients"] - 1:
                # learned-by-snapshot-only instances: held on a node that is up from the start (the victim unless that is the late joiner)
                w.quiet = True
                w.want_node = ctx.nodes[plan["victim"] - 1] if plan["victim"] in (1, 2) else ctx.nodes[rnd.choice([0, 1])]
            writers.append(w)
            threads.append(threading.Thread(target=w.loop, daemon=True))
        threads.append(threading.Thread(target=sigstop_nemesis, args=(ctx, 0), daemon=True))
        for t in threads:
            t.start()
        victim = ctx.nodes[plan["victim"] - 1]
        # ---- A (+ late join, B), first checkpoint (plans "join" and "formed")
        # no SIGSTOP before a late join: a stopped bootstrap node loses raft leadership, and a join request sent to a node that is
        # no longer leader did not complete within the bound in 2 of 4 scratch runs (-> inconclusive; outside this property)
        segment(ctx, plan["seg_a"], nemesis=not plan["late_join"])
        if plan["late_join"]:
            ctx.nemesis_on = False
            t_ps = time.time()
            with ctx.fault_lock:
                ctx.nodes[2].start()
            wait_members(ctx.nodes, 3, 30)
            ctx.up[3] = True
            ctx.first_start[3] = time.time()
            ctx.join_times[3] = time.time()
            ctx.fresh.append((3, t_ps, time.time()))
            ctx.faults.append({"kind": "late-join", "node": 3, "t0": ctx.join_times[3], "t1": ctx.join_times[3]})
            segment(ctx, plan["seg_b"])
            checkpoint(ctx, "late-join", res)
        elif plan["down_s"] < 15:
            checkpoint(ctx, "formed", res)
        # ---- C, kill
        if not any(w.node is not None and w.node.id == victim.id and w.g is not None for w in writers):
            writers[0].want_node = victim
        if len(writers) > 1 and rnd.random() < 0.7:
            writers[1].want_node = victim
        segment(ctx, plan["seg_c"])
        ctx.nemesis_on = False
        with ctx.fault_lock:
            if victim.stopped:
                victim.sigcont()
            # set aside a few pure-HTTP instances owned by the victim: registered now, replicated, then left alone until the survivors
            # have taken the victim's services over - their deregistration then meets copies that still name the dead node
            ctx.reserved = set()
            if plan["down_s"] >= 15:
                cands = [k for k in ctx.keys if ctx.key_kind[k] == "http" and ctx.owner_at(k, time.time()) == victim.id]
                rnd.shuffle(cands)
                for k in cands[:4]:
                    with ctx.lock:
                        if k in ctx.busy:
                            continue
                        ctx.reserved.add(k)
                    others = [n for n in ctx.nodes if n.alive() and n.id != victim.id]
                    http_op(ctx, "takeover", rnd, k, rnd.choice(others), op="http_register")
                time.sleep(SYNC_WINDOW + 0.6)
                # their clients are alive: one heartbeat each before the owner dies (as every HTTP client sends every few seconds)
                for k in sorted(ctx.reserved):
                    http_op(ctx, "takeover", rnd, k, rnd.choice([n for n in ctx.nodes if n.alive() and n.id != victim.id]), op="http_beat")
                time.sleep(0.3)
            ctx.pre_kill_obs = {n.id: observe_node(ctx, n) for n in ctx.nodes}
            res["evaluations"] += 1
            ctx.up[victim.id] = False
            onv = [w for w in writers if w.g is not None and w.node is not None and w.node.id == victim.id and ctx.conn_alive.get(w.label)]
            if onv:
                best = max(onv, key=lambda w: len(w.mine))
                best.dormant = True
                res["orphaned_client"] = {"client": "gw%d" % best.idx, "connection": best.label, "instances_held": len(best.mine),
                                          "keys": [list(k) for k in sorted(best.mine)]}
                ctx.orphan_keys = sorted(best.mine)
            t_k = time.time()
            victim.kill()
            with ctx.lock:
                lost = sorted(c for c, nid in ctx.conn_node.items() if nid == victim.id and ctx.conn_alive.get(c))
                for c in lost:
                    ctx.conn_alive[c] = False
            ctx.t_kill = t_k
            fk = {"kind": "kill", "node": victim.id, "t0": t_k, "t1": time.time(), "conns": lost}
            ctx.faults.append(fk)
            for c in lost:
                ctx.record({"client": "nemesis", "op": "conn_gone", "key": None, "conn": c, "node": victim.id, "kind": "grpc",
                            "t_call": t_k, "t_ret": t_k, "result": "ok", "detail": "node %d killed" % victim.id})
        res["connections_lost_with_victim"] = len(lost)
        # ---- D (survivors), optional checkpoint while down
        if plan["down_s"] >= 15 and ctx.reserved:
            # the clients of the set-aside instances keep heart-beating through a survivor: while the dead owner is still taken for
            # alive the beat is refused (the forward fails); the first accepted beat means the take-over has just happened
            # (15 s liveness rule + 3 s status tick) - the client then goes away in an orderly manner AT ONCE, i.e. before the new
            # owner has had any occasion to push something about the instance. Whatever is left at t_kill + 19.5 s goes then.
            ctx.nemesis_on = time.time() < t_k + 9          # the nemesis rests while the take-over is awaited and judged
            ctx.run_flag.set()
            done = 0
            refused, gone = set(), set()
            surv = [n for n in ctx.nodes if n.alive()]
            # every other set-aside client talks to the node that will own its service (the survivors' view: the victim's id gone
            # from the live list), the others to a node that will forward to it; each leaves through the node it talks to - that
            # node has just shown that it knows about the take-over
            ids = sorted(n.id for n in surv)
            via = {}
            for i, k in enumerate(sorted(ctx.reserved)):
                new_owner = ids[ctx.svc_hash[k[:3]] % len(ids)]
                via[k] = ([n for n in surv if (n.id == new_owner) == (i % 2 == 0)] or surv)[0]
            while len(gone) < len(ctx.reserved):
                late = time.time() >= t_k + 19.5
                if time.time() >= t_k + 9:
                    ctx.nemesis_on = False
                for k in sorted(ctx.reserved):
                    if k in gone:
                        continue
                    go = late
                    if not late:
                        rb = http_op(ctx, "takeover", rnd, k, via[k], op="http_beat")
                        if rb.get("result") != "ok":
                            refused.add(k)
                        elif k in refused:
                            go = True
                            ctx.count("deregistrations_at_first_accepted_beat_after_takeover")
                    if go:
                        rec = http_op(ctx, "takeover", rnd, k, via[k], op="http_deregister")
                        if rec.get("result") == "ok" or late:
                            gone.add(k)
                        done += 1 if rec.get("result") == "ok" else 0
                if len(gone) < len(ctx.reserved):
                    time.sleep(0.3)
            # ---- prompt propagation: the membership is stable again (the survivors have taken over), the deregistration of a
            # set-aside instance is a plain acknowledged operation on a key nobody else touches: PROMPT_S after its acknowledgement -
            # ten sync ticks - every survivor must have dropped the instance, whatever repairs a periodic exchange might do later.
            # Keys whose window overlaps a fault of the nemesis (stopped survivor, held link) are not judged here.
            with ctx.lock:
                dereg = {r["key"]: r for r in ctx.history if r.get("client") == "takeover" and r["op"] == "http_deregister" and r["result"] == "ok"}
            judged = []
            for k, r in sorted(dereg.items()):
                hit = [f for f in ctx.faults if f["kind"] != "kill" and f["t0"] <= r["t_ret"] + PROMPT_S and f.get("t1", 1e18) >= r["t_call"] - 1.0]
                if hit:
                    ctx.count("takeover_deregistrations_not_judged_for_promptness(fault-in-window)")
                    continue
                judged.append((k, r))
            if judged:
                time.sleep(max(0.0, max(r["t_ret"] for _, r in judged) + PROMPT_S - time.time()))
                looks = []
                for _i in range(2):
                    looks.append({n.id: observe_node(ctx, n) for n in surv})
                    time.sleep(1.0)
                late_faults = [f for f in ctx.faults if f["kind"] != "kill" and f.get("t1", 1e18) >= min(r["t_call"] for _, r in judged) - 1.0]
                for k, r in judged:
                    if late_faults or any(v is None for lk in looks for v in lk.values()):
                        ctx.count("takeover_deregistrations_not_judged_for_promptness(fault-in-window)")
                        continue
                    ctx.count("takeover_deregistrations_judged_for_promptness")
                    res["evaluations"] += 1
                    still = [sorted(nid for nid, o in lk.items() if o.get(k) is not None) for lk in looks]
                    if still[0] and still[1]:
                        sig = "deregistration-not-propagated-within-%ds-in-stable-cluster/http/after-takeover" % PROMPT_S
                        ctx.tainted[k] = sig
                        res["violations"].append({"signature": sig, "witness": {
                            "key": list(k), "victim": victim.id, "killed_s_before_deregistration": round(r["t_call"] - t_k, 2), "deregistered_via_node": r["node"],
                            "new_owner_among_survivors": sorted(n.id for n in surv)[ctx.svc_hash[k[:3]] % len(surv)], "answer": r.get("detail"),
                            "still_served_by_nodes": {"%.1f s after the acknowledgement" % (PROMPT_S): still[0], "%.1f s after it" % (PROMPT_S + 1.0): still[1]},
                            "observed(healthy,enabled,weight)": {str(nid): looks[1][nid].get(k) for nid in looks[1]},
                            "steps_on_key(op, via, result, s after kill)": [[x["op"], x["node"], x["result"], round(x["t_call"] - t_k, 2)] for x in ctx.history
                                                                             if x.get("client") == "takeover" and x["key"] == k and (x["op"] != "http_beat" or x["result"] == "ok")]}})
                res["mechanisms"].add("take-over-deregistration-judged-for-prompt-propagation")
            segment(ctx, max(0.0, t_k + 19.5 - time.time()))
            with ctx.lock:
                res["takeover_steps"] = [[r["op"], "/".join(str(x) for x in r["key"][2:]), "via node %d" % r["node"], r["result"], round(r["t_call"] - t_k, 2)]
                                         for r in ctx.history if r.get("client") == "takeover" and (r["op"] != "http_beat" or r["result"] == "ok")]
                res["takeover_new_owner"] = {"/".join(str(x) for x in k[2:]): sorted(n.id for n in surv)[ctx.svc_hash[k[:3]] % len(surv)] for k in sorted(ctx.reserved)}
            ctx.count("deregistrations_after_takeover", done)
            if done:
                res["mechanisms"].add("deregistered-after-takeover-before-any-update-by-the-new-owner")
            segment(ctx, max(0.5, t_k + plan["down_s"] - time.time()))
        else:
            segment(ctx, plan["down_s"])
        if plan["down_s"] >= 15:
            checkpoint(ctx, "node-down", res)
        ctx.reserved = set()
        # ---- restart (clients keep going after a short outage), E, final checkpoint
        ctx.nemesis_on = False
        with ctx.fault_lock:
            pass
        t_ps = time.time()
        victim.start(wait=True, timeout=30)
        wait_members(ctx.nodes, 3, 40)
        fk["t_restart"] = time.time()
        fk["t_restart_begin"] = t_ps
        ctx.fresh.append((victim.id, t_ps, time.time()))
        ctx.up[victim.id] = True
        ctx.join_times[victim.id] = time.time()
        segment(ctx, plan["seg_e"])
        cp_h = checkpoint(ctx, "healed", res)
        if plan.get("late_look") and not res["violations"]:
            # quiescence has to last: the owners flush their queued heartbeat copies every 15 s and the nodes exchange client
            # digests every 12 s - whatever those carry must not bring back what the cluster had agreed on
            time.sleep(16.5)
            checkpoint(ctx, "healed", res)
            res["mechanisms"].add("late-look-16s-after-agreement")
        with ctx.lock:
            res["counters"] = dict(ctx.counters)
            res["ops"] = len([r for r in ctx.history if r["op"] != "conn_gone"])
        res["evaluations"] += res["ops"]
        res["wall_s"] = round(time.time() - ctx.t0, 1)
        res["sample"] = sample_of(ctx)
        return res
    finally:
        ctx.stop_flag.set()
        ctx.run_flag.clear()
        for t in threads:
            t.join(timeout=HTTP_TIMEOUT * 2 + 12)
        for w in writers:
            try:
                if w.g is not None:
                    w.g.stop(abrupt=True)
            except Exception:
                pass
        try:
            if ctx.obs_client is not None:
                ctx.obs_client.stop(abrupt=True)
        except Exception:
            pass
        for n in ctx.nodes:
            n.kill()
        try:
            res["link_fabric"] = ctx.fabric.stats
            ctx.fabric.close()
        except Exception:
            pass
        res["mechanisms"] = sorted(res["mechanisms"])
        if not os.environ.get("VERIF_KEEP_WORK"):
            shutil.rmtree(wd, ignore_errors=True)


def sample_of(ctx):
    t0 = ctx.t0
    with ctx.lock:
        h = [r for r in ctx.history if r["op"] != "conn_gone"]
    pick = h[:3] + h[len(h) // 2: len(h) // 2 + 2]
    return [{"client": r["client"], "op": r["op"], "key": list(r["key"]), "node": r["node"], "t_call": round(r["t_call"] - t0, 3),
             "t_ret": round(r["t_ret"] - t0, 3), "result": r["result"], "detail": r.get("detail")} for r in pick]


def make_plan(rnd, idx, tier):
    """every plan has two checkpoints (each may cost the whole bound):
         join    n3 joins late -> checkpoint "late-join" -> kill, short outage (restart before the liveness rule fires) -> "healed"
         outage  all three from the start -> kill, long outage (survivors mark the node dead) -> "node-down" -> restart -> "healed"
         formed  all three from the start -> checkpoint "formed" (SIGSTOP only) -> kill, short outage -> "healed"
       quick = join + outage; thorough rotates join, outage, join, outage, formed; the victim is seeded"""
    kind = ["join", "outage"][idx % 2] if tier == "quick" else ["join", "outage", "join", "outage", "formed"][idx % 5]
    return {
        "kind": kind, "late_join": kind == "join", "victim": rnd.choice([1, 2, 3]),
        "down_s": round(rnd.uniform(21.5, 24) if kind == "outage" else rnd.uniform(4, 8), 1),
        "seg_a": round(rnd.uniform(5, 7), 1), "seg_b": round(rnd.uniform(4, 6), 1), "seg_c": round(rnd.uniform(5, 7), 1),
        "seg_e": round(rnd.uniform(4, 6), 1), "http_clients": 3, "grpc_clients": 4,
        "late_look": True, "no_grpc_on_restarted": kind == "join" and idx % 4 < 2,
    }


def run_cluster_retry(args):
    try:
        return run_cluster(args)
    except Inconclusive as e:
        common.log("C15 cluster %s inconclusive (%s) - one retry" % (args[1], str(e)[:200]))
        try:
            r = run_cluster(args)
            r["retried_after"] = str(e)[:300]
            return r
        except Inconclusive as e2:
            return {"cluster_seed": args[1], "plan": args[2], "inconclusive": str(e2)[:600]}


def run(tier, seed):
    common.build(need_bin=True)
    wd = common.workdir("c15")
    out = Outcome("C15", tier, seed)
    out.rule = ("per cluster (3 real nodes, time-outs raised): seeded HTTP writers (register/update/deregister/beat via random nodes) and gRPC "
                "connections attached to random nodes (register/deregister/close/crash) on 7 services (one per residue of the service hash mod 6, "
                "2 namespaces, 2 groups) x 5 addresses; nemesis: SIGSTOP 1-3 s, one directed node-to-node link stalled 1-3 s (delayed batch sync), late join of node 3, SIGKILL of a node holding gRPC connections, "
                "short (4-8 s) or long (20-24 s) outage, restart. At each checkpoint (after join / while the node is down / after heal) clients "
                "stop and every live node is polled once per second (instance list per service + single-instance GET for unlisted addresses) "
                "until all nodes answer the same (ip,port,healthy,enabled,weight) sets that also agree with the reference built from the "
                "acknowledged operations (all real-time-respecting linearisations per key), twice in a row, or until B_c = 60 s. "
                "evaluations = client operations + polls; distinct_nontrivial = distinct (checkpoint kind, writer kind, last acknowledged "
                "operation, present/absent, mechanisms that really fired for that key: forwarded to a remote owner, operation hit a stopped node, "
                "racing writers, rapid succession via another node, indeterminate operation, gRPC instance of the killed node seen on survivors "
                "before the kill and purged, HTTP instance of the killed owner kept, written before a join and served by the joined node)")
    out.assumptions = [
        "bounded progress: B_c = 60 s after the last client operation / fault (500 ms batch + 12 s digest + 15-18 s liveness + 1/15/45 s snapshot pulls)",
        "health / instance time-outs are raised to 900 s / 1000 s (a run with three exhausted bounds lasts > 120 s), so expiry (C13) never interferes",
        "operations answered with an error or not at all may or may not have taken effect; an operation refused at connect time did not",
        "metadata is written but not compared (the property names address, health, enabled state and weight)",
        "addresses written by BOTH an HTTP client and a gRPC connection (slot 4) are only required to converge; whether the final state "
        "matches the single-node cross-kind rules is counted (mixed_address_reference_disagreements) but not demanded: the property is silent there",
        "writes racing with a membership change are not held against the reference: operations serialised by a node that (re)joined less "
        "than 3 s ago may act on an empty registry; operations acknowledged by a node that is SIGKILLed before its next 500 ms sync tick may be lost; "
        "HTTP writes for a service whose routing owner differs between the nodes' views (14..21 s after a kill, until 6 s after a (re)join) may be lost",
        "node-to-node traffic runs through a byte-preserving forwarder (lib/linkproxy.py): a directed link is held 1-3 s and released (delay, never loss); SIGSTOP approximates a slow node; lossy partitions and message reordering inside one TCP stream are out of reach",
    ]
    try:
        rnd = random.Random(seed)
        rounds, par = (1, 2) if tier == "quick" else (4, 5)
        results = []
        idx = 0
        for rd in range(rounds):
            jobs = []
            for i in range(par):
                plan = make_plan(rnd, idx, tier)
                jobs.append((wd, seed * 1000 + idx, plan))
                idx += 1
            with ThreadPoolExecutor(max_workers=par) as ex:
                results += list(ex.map(run_cluster_retry, jobs))
        absorb(out, results)
        out.min_nontrivial = 12 if tier == "quick" else 40
        return out.finish()
    finally:
        shutil.rmtree(wd, ignore_errors=True)


def absorb(out, results):
    conv = {}
    agg = {}
    done = 0
    mech = set()
    for r in results:
        if "inconclusive" in r:
            out.extra.setdefault("inconclusive_subruns", []).append({"cluster_seed": r["cluster_seed"], "reason": r["inconclusive"]})
            continue
        done += 1
        out.evaluations += r["evaluations"]
        for s, n in r["shapes"].items():
            out.shape(s, n)
        for v in r["violations"]:
            out.violation(v["signature"], v["witness"])
        for k, v in (r.get("counters") or {}).items():
            agg[k] = agg.get(k, 0) + v
        for x in r.get("mixed_address_samples") or []:
            if len(out.extra.setdefault("mixed_address_reference_disagreement_samples", [])) < 2:
                out.extra["mixed_address_reference_disagreement_samples"].append(x)
        for k in ("mixed_address_reference_disagreements", "keys_judged", "keys_only_compared_between_nodes", "grpc_views_compared", "grpc_view_skipped", "connections_lost_with_victim"):
            agg[k] = agg.get(k, 0) + r.get(k, 0)
        mech |= set(r["mechanisms"])
        lf = r.get("link_fabric") or {}
        for k in ("connections", "connections_held", "bytes_held_released", "unknown_source"):
            agg["link_fabric_" + k] = agg.get("link_fabric_" + k, 0) + int(lf.get(k, 0))
        if lf.get("connections_held"):
            mech.add("directed-link-stalled-and-released")
        for cp in r["checkpoints"]:
            conv.setdefault(cp["kind"], []).append(cp.get("converged_after_s", "not within %ss" % B_C))
        if len(out.samples) < 4:
            out.samples.append({"cluster_seed": r["cluster_seed"], "plan": r["plan"], "checkpoints": r["checkpoints"], "wall_s": r.get("wall_s"),
                                "first_operations": r.get("sample")})
    out.extra["clusters_completed"] = done
    out.extra["counters"] = dict(sorted(agg.items()))
    out.extra["convergence_time_s_by_checkpoint"] = conv
    out.extra["mechanisms_fired"] = sorted(mech)
    out.extra["bound_s"] = B_C
    out.extra["plans"] = [{"cluster_seed": r["cluster_seed"], **r["plan"], **({"inconclusive": True} if "inconclusive" in r else {})} for r in results]
    if done == 0:
        raise Inconclusive("no cluster run completed: %s" % [r.get("inconclusive") for r in results][:3])
    # the two clauses that are about faults must really have been exercised: a gRPC instance of the killed node that the survivors
    # had seen and dropped, and an instance written before a (re)join that the joined node serves
    missing = [m for m in ("grpc-instance-of-killed-node-purged", "written-before-join-served-by-joined-node") if not any(x.endswith(":" + m) for x in mech)]
    out.extra["core_mechanisms_missing"] = missing
    if len(missing) == 2 and not out.violations:
        raise Inconclusive("neither a purge of a killed node's gRPC instance nor a (re)joined node serving earlier data was observed")


def replay(path):
    """best effort (multi-process rig): re-run the witness's cluster seed and plan up to three times; exit 1 when the same
    signature shows up again"""
    w = json.load(open(path))
    common.build(need_bin=True)
    wd = common.workdir("c15r")
    try:
        wit = w["witness"]
        for attempt in range(3):
            r = run_cluster_retry((wd, wit["cluster_seed"], wit["plan"]))
            sigs = sorted({v["signature"] for v in r.get("violations", [])})
            print(json.dumps({"attempt": attempt, "signatures": sigs, "checkpoints": r.get("checkpoints"), "inconclusive": r.get("inconclusive")}, indent=1))
            if w["signature"] in sigs:
                print("VIOLATION property=C15 replay=%s signature=%s" % (path, w["signature"]))
                return 1
        return 0
    finally:
        shutil.rmtree(wd, ignore_errors=True)
