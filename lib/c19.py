"""C19 — issued sequence ids are unique and increasing across restarts (single node; the multi-node part rides on C06's rig)."""
import json
import os
import random
import shutil
import time
from concurrent.futures import ThreadPoolExecutor

import common
import noderig
from common import Outcome

KEYS = ["seqA", "seqB", "seqC"]


class IdLog:
    """every id handed out, with the logical step at which the request was made / answered"""

    def __init__(self):
        self.by_key = {}
        self.step = 0
        self.restarts = []   # (step, mode)

    def between(self, a, b):
        """classes of the restarts that happened between two logical steps"""
        modes = {m for (st, m) in self.restarts if a <= st <= b}
        if not modes:
            return "no-restart-between"
        if modes & {"mid-burst", "right-after-ack"}:
            return "after-kill-without-quiescence"
        return "after-quiescent-restart"

    def tick(self):
        self.step += 1
        return self.step

    def add(self, key, ident, t_call, t_ret, how):
        self.by_key.setdefault(key, []).append((ident, t_call, t_ret, how))

    def check(self):
        out = []
        for key, items in self.by_key.items():
            seen = {}
            for (i, tc, tr, how) in items:
                if i in seen:
                    dr = "/drawn-during-recovery" if ("during-recovery" in how or "during-recovery" in seen[i][2]) else "/" + self.between(seen[i][1], tc)
                    out.append(("duplicate-id", key.split(":")[0] + dr, {"key": key, "id": i, "first": seen[i], "second": [tc, tr, how]}))
                    break
                seen[i] = [tc, tr, how]
            # never backwards for requests that do not overlap in (logical) time
            best_ret = []   # (t_ret, id) sorted by t_ret: compare each call with the max id answered before it was called
            items_by_call = sorted(items, key=lambda x: x[1])
            answered = sorted(items, key=lambda x: x[2])
            j = 0
            max_id_before = None
            max_src = None
            for it in items_by_call:
                while j < len(answered) and answered[j][2] < it[1]:
                    if max_id_before is None or answered[j][0] > max_id_before:
                        max_id_before, max_src = answered[j][0], answered[j]
                    j += 1
                if max_id_before is not None and it[0] < max_id_before:
                    dr = "/drawn-during-recovery" if ("during-recovery" in it[3] or "during-recovery" in max_src[3]) else "/" + self.between(max_src[2], it[1])
                    out.append(("id-went-backwards", key.split(":")[0] + dr, {"key": key, "earlier": list(max_src), "later": list(it)}))
                    break
        return out


def one_history(args):
    wd, seed, rounds, snap = args
    rnd = random.Random(seed)
    d = os.path.join(wd, "s%d" % seed)
    shutil.rmtree(d, ignore_errors=True)
    log = IdLog()
    res = {"seed": seed, "snap": snap, "restarts": 0, "draws": 0, "publishes": 0, "killed_mid_request": 0, "classes": set()}
    sess = None
    pub_n = 0
    config_keys = [{"data_id": "h%d" % i, "group": "g", "tenant": ""} for i in range(3)]
    try:
        sess = noderig.NodeSession(d, snapshot_size=snap)
        b = sess.call("barrier", min_index=1, bound_ms=15000)
        recovering = False
        last_content = {}
        tag = lambda how: how + (" [during-recovery]" if recovering else "")
        for rd in range(rounds):
            if recovering and rd > recover_until:
                b = sess.call("barrier", min_index=0, bound_ms=15000)
                if not b.get("ok"):
                    res["violations"] = [{"signature": "not-recovered-within-bound", "witness": {"barrier": b, "history_seed": seed}}]
                    return res
                recovering = False
            c = rnd.random()
            if c < 0.45:
                key = rnd.choice(KEYS)
                n = rnd.choice([1, 1, 3, 20, 99, 100, 101, 250])
                t_call = log.tick()
                r = sess.call("seq_burst", key=key, n=n)
                t_ret = log.tick()
                for (i, _, _) in r.get("ids", []):
                    log.add("mgr:" + key, i, t_call, t_ret, tag("GetNextId x%d" % n))
                    res["draws"] += 1
                res["classes"].add("burst%d" % (1 if n == 1 else 100 if n >= 99 else 10))
            elif c < 0.6:
                key = rnd.choice(KEYS)
                t_call = log.tick()
                r = sess.write({"SequenceReq": {"req": {"NextId": "raw" + key}}})
                t_ret = log.tick()
                v = ((r.get("resp") or {}).get("SequenceResp") or {}).get("resp", {}) if r.get("ok") else {}
                if "NextId" in v:
                    log.add("raft:raw" + key, v["NextId"], t_call, t_ret, tag("SequenceRaftReq::NextId"))
                    res["draws"] += 1
            elif c < 0.85:
                # one publish, or a run of publishes long enough to cross the 100-id windows of the history sequence; some of
                # them re-publish unchanged content (no new history entry, but the leader still draws an id for them)
                n_pub = rnd.choice([1, 1, 1, 40, 130])
                for _ in range(n_pub):
                    k = rnd.choice(config_keys)
                    name = "|%s|%s" % (k["group"], k["data_id"])
                    unchanged = rnd.random() < 0.3 and name in last_content
                    if not unchanged:
                        pub_n += 1
                        last_content[name] = "c%d-%d" % (seed, pub_n)
                    t_call = log.tick()
                    r = sess.call("publish", content=last_content[name], **k)
                    t_ret = log.tick()
                    if r.get("ok"):
                        res["publishes"] += 1
                        if unchanged:
                            res["classes"].add("republish-unchanged")
                            continue
                        dump = sess.call("dump", config_keys=[k], service_keys=[])
                        hist = ((dump.get("configs") or {}).get(name) or {}).get("history") or []
                        if hist:
                            # newest first: the entry just written is hist[0]
                            log.add("config-history", hist[0][0], t_call, t_ret, tag("publish %s" % k["data_id"]))
                            if recovering:
                                res["published_during_recovery"] = True
            elif c < 0.90:
                # a compaction placed right before a single sequence write, then a quiescent restart: the restart has to replay
                # exactly one entry behind the snapshot
                sess.call("barrier", min_index=0, bound_ms=15000)
                sess.call("compact")
                key = rnd.choice(KEYS)
                t_call = log.tick()
                r = sess.write({"SequenceReq": {"req": {"NextId": "raw" + key}}})
                t_ret = log.tick()
                v = ((r.get("resp") or {}).get("SequenceResp") or {}).get("resp", {}) if r.get("ok") else {}
                if "NextId" in v:
                    log.add("raft:raw" + key, v["NextId"], t_call, t_ret, tag("SequenceRaftReq::NextId"))
                    res["draws"] += 1
                sess.call("barrier", min_index=0, bound_ms=15000)
                sess.call("sleep", ms=100)
                sess.kill()
                log.restarts.append((log.tick(), "quiescent"))
                sess = noderig.NodeSession(d, snapshot_size=snap)
                res["restarts"] += 1
                res["classes"].add("restart:one-entry-behind-snapshot")
                b = sess.call("barrier", min_index=0, bound_ms=15000)
                t_call = log.tick()
                r = sess.write({"SequenceReq": {"req": {"NextId": "raw" + key}}})
                t_ret = log.tick()
                v = ((r.get("resp") or {}).get("SequenceResp") or {}).get("resp", {}) if r.get("ok") else {}
                if "NextId" in v:
                    log.add("raft:raw" + key, v["NextId"], t_call, t_ret, tag("SequenceRaftReq::NextId"))
                    res["draws"] += 1
            else:
                # restart: quiescent, or SIGKILL while a request is in flight (its ids are never seen: not counted)
                mode = rnd.choice(["quiescent", "mid-burst", "right-after-ack"])
                if mode == "mid-burst":
                    try:
                        sess.p.stdin.write((json.dumps({"op": "seq_burst", "key": rnd.choice(KEYS), "n": 150}) + "\n").encode())
                        sess.p.stdin.flush()
                    except OSError:
                        pass
                    time.sleep(rnd.random() * 0.01)
                    res["killed_mid_request"] += 1
                elif mode == "quiescent":
                    sess.call("barrier", min_index=0, bound_ms=15000)
                    sess.call("sleep", ms=100)
                sess.kill()
                log.restarts.append((log.tick(), mode))
                sess = noderig.NodeSession(d, snapshot_size=snap)
                res["restarts"] += 1
                res["classes"].add("restart:" + mode)
                if rnd.random() < 0.5:
                    b = sess.call("barrier", min_index=0, bound_ms=15000)
                    if not b.get("ok"):
                        res["violations"] = [{"signature": "not-recovered-within-bound", "witness": {"barrier": b, "history_seed": seed}}]
                        return res
                else:
                    res["classes"].add("draw-during-recovery")
                    recovering = True
                    recover_until = rd + 1
        viols = log.check()
        # all history ids in the final state are unique across keys
        sess.call("barrier", min_index=0, bound_ms=15000)
        dump = sess.call("dump", config_keys=config_keys, service_keys=[])
        allh = []
        for name, v in (dump.get("configs") or {}).items():
            for h in (v or {}).get("history") or []:
                allh.append((h[0], name))
        ids = [x[0] for x in allh]
        if len(ids) != len(set(ids)):
            dup = sorted(i for i in set(ids) if ids.count(i) > 1)[:5]
            cls = "/published-during-recovery" if res.get("published_during_recovery") else "/" + log.between(0, log.step + 1)
            viols.append(("duplicate-id", "config-history-final-state" + cls, {"duplicate_ids": dup, "where": [x for x in allh if x[0] in dup][:6]}))
        res["history_entries_final"] = len(ids)
        snaps = [p for p in os.listdir(d) if p.startswith("snapshot_")]
        res["compactions"] = max([int(p.split("_")[1]) for p in snaps] or [0])
        if viols:
            res["violations"] = [{"signature": "%s/%s" % (sym, key), "witness": {"key": key, "detail": det, "history_seed": seed, "args": [seed, rounds, snap]}} for sym, key, det in viols]
        return res
    except noderig.NodeDied as e:
        res["inconclusive"] = "node session died: %s" % e
        return res
    finally:
        res["classes"] = sorted(res["classes"])
        if sess:
            sess.kill()
        shutil.rmtree(d, ignore_errors=True)


def run(tier, seed):
    common.build()
    wd = common.workdir("c19")
    out = Outcome("C19", tier, seed)
    out.rule = ("per history one in-process node with snapshot threshold 5..60 (compactions by the raft core): rounds of concurrent "
                "SequenceRequest::GetNextId bursts (1..250 requests on 3 keys, interleaving inside the actor while a range is fetched through raft), "
                "raw SequenceRaftReq::NextId writes, config publishes through the leader path (history id stamped), and restarts by SIGKILL at "
                "quiescent points, right after an ack and in the middle of a burst, optionally drawing again before recovery has finished. "
                "Oracle: per key no id twice; an id answered before another request was made is smaller; final history ids unique across keys. "
                "non-trivial = history with >=1 restart and >=50 ids; distinct = (restart modes, burst classes, compaction class)")
    try:
        n = 48 if tier == "quick" else 1200
        rnd = random.Random(seed)
        jobs = [(wd, seed * 100000 + i, rnd.choice([25, 40, 60]), rnd.choice([5, 13, 25, 60])) for i in range(n)]
        with ThreadPoolExecutor(max_workers=common.NCPU) as ex:
            results = list(ex.map(one_history, jobs))
        agg = {"restarts": 0, "draws": 0, "publishes": 0, "killed_mid_request": 0, "histories_with_compaction": 0}
        for r in results:
            out.evaluations += 1
            if "inconclusive" in r:
                out.extra.setdefault("inconclusive_subruns", []).append(r["inconclusive"][:300])
                continue
            for k in ("restarts", "draws", "publishes", "killed_mid_request"):
                agg[k] += r[k]
            if r.get("compactions", 0) > 0:
                agg["histories_with_compaction"] += 1
            for v in r.get("violations", []):
                out.violation(v["signature"], v["witness"])
            if r["restarts"] >= 1 and r["draws"] + r["publishes"] >= 50:
                out.shape("%s/c%s" % ("+".join(c for c in r["classes"]), "0" if not r.get("compactions") else "1+" if r["compactions"] < 3 else "3+"))
            if len(out.samples) < 3:
                out.samples.append({k: r[k] for k in ("seed", "snap", "restarts", "draws", "publishes", "killed_mid_request", "classes", "compactions") if k in r})
        out.extra.update(agg)
        out.min_nontrivial = 5
        out.assumptions = ["gaps are allowed; ids of requests that were in flight when the node was killed are never observed and not counted",
                           "logical time = driver steps (one driver per node), so no wall-clock comparison is involved",
                           "multi-node draws are exercised by the cluster rig (C06) in the thorough tier"]
        return out.finish()
    finally:
        shutil.rmtree(wd, ignore_errors=True)


def replay(path):
    w = json.load(open(path))
    common.build()
    wd = common.workdir("c19r")
    try:
        a = w["witness"].get("args") or [w["witness"]["history_seed"], 40, 13]
        r = one_history((wd, a[0], a[1], a[2]))
        print(json.dumps(r, indent=1, default=str)[:3000])
        if r.get("violations"):
            print("VIOLATION property=C19 replay=%s" % path)
            return 1
        return 0
    finally:
        shutil.rmtree(wd, ignore_errors=True)
