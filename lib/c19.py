"""C19 — issued sequence ids are unique and increasing across restarts (single node; the multi-node part rides on C06's rig)."""
import json
import os
import random
import shutil
import time
from concurrent.futures import ThreadPoolExecutor

import common
import noderig
from common import Outcome

KEYS = ["seqA", "seqB", "seqC"]


class IdLog:
    """every id handed out, with the logical step at which the request was made / answered"""

    def __init__(self):
        self.by_key = {}
        self.step = 0
        self.restarts = []   # (step, mode)

    def between(self, a, b):
        """classes of the restarts that happened between two logical steps"""
        modes = {m for (st, m) in self.restarts if a <= st <= b}
        if not modes:
            return "no-restart-between"
        if modes & {"mid-burst", "right-after-ack"}:
            return "after-kill-without-quiescence"
        return "after-quiescent-restart"

    def tick(self):
        self.step += 1
        return self.step

    def add(self, key, ident, t_call, t_ret, how):
        self.by_key.setdefault(key, []).append((ident, t_call, t_ret, how))

    def check(self):
        out = []
        for key, items in self.by_key.items():
            seen = {}
            for (i, tc, tr, how) in items:
                if i in seen:
                    dr = "/drawn-during-recovery" if ("during-recovery" in how or "during-recovery" in seen[i][2]) else "/" + self.between(seen[i][1], tc)
                    out.append(("duplicate-id", key.split(":")[0] + dr, {"key": key, "id": i, "first": seen[i], "second": [tc, tr, how]}))
                    break
                seen[i] = [tc, tr, how]
            # never backwards for requests that do not overlap in (logical) time
            best_ret = []   # (t_ret, id) sorted by t_ret: compare each call with the max id answered before it was called
            items_by_call = sorted(items, key=lambda x: x[1])
            answered = sorted(items, key=lambda x: x[2])
            j = 0
            max_id_before = None
            max_src = None
            for it in items_by_call:
                while j < len(answered) and answered[j][2] < it[1]:
                    if max_id_before is None or answered[j][0] > max_id_before:
                        max_id_before, max_src = answered[j][0], answered[j]
                    j += 1
                if max_id_before is not None and it[0] < max_id_before:
                    dr = "/drawn-during-recovery" if ("during-recovery" in it[3] or "during-recovery" in max_src[3]) else "/" + self.between(max_src[2], it[1])
                    out.append(("id-went-backwards", key.split(":")[0] + dr, {"key": key, "earlier": list(max_src), "later": list(it)}))
                    break
        return out


def one_history(args):
    wd, seed, rounds, snap = args
    rnd = random.Random(seed)
    d = os.path.join(wd, "s%d" % seed)
    shutil.rmtree(d, ignore_errors=True)
    log = IdLog()
    res = {"seed": seed, "snap": snap, "restarts": 0, "draws": 0, "publishes": 0, "killed_mid_request": 0, "classes": set()}
    sess = None
    pub_n = 0
    config_keys = [{"data_id": "h%d" % i, "group": "g", "tenant": ""} for i in range(3)]
    try:
        sess = noderig.NodeSession(d, snapshot_size=snap)
        b = sess.call("barrier", min_index=1, bound_ms=15000)
        recovering = False
        last_content = {}
        tag = lambda how: how + (" [during-recovery]" if recovering else "")
        for rd in range(rounds):
            if recovering and rd > recover_until:
                b = sess.call("barrier", min_index=0, bound_ms=15000)
                if not b.get("ok"):
                    res["violations"] = [{"signature": "not-recovered-within-bound", "witness": {"barrier": b, "history_seed": seed}}]
                    return res
                recovering = False
            c = rnd.random()
            if snap >= 10000 and not recovering and rnd.random() < 0.25:
                # compaction at a quiescent point (what the raft core does at its threshold, without applies running next to it)
                sess.call("barrier", min_index=0, bound_ms=15000)
                if sess.call("compact").get("ok"):
                    res["classes"].add("explicit-compaction")
            if c < 0.45:
                key = rnd.choice(KEYS)
                n = rnd.choice([1, 1, 3, 20, 99, 100, 101, 250])
                t_call = log.tick()
                r = sess.call("seq_burst", key=key, n=n)
                t_ret = log.tick()
                for (i, _, _) in r.get("ids", []):
                    log.add("mgr:" + key, i, t_call, t_ret, tag("GetNextId x%d" % n))
                    res["draws"] += 1
                res["classes"].add("burst%d" % (1 if n == 1 else 100 if n >= 99 else 10))
            elif c < 0.6:
                key = rnd.choice(KEYS)
                t_call = log.tick()
                r = sess.write({"SequenceReq": {"req": {"NextId": "raw" + key}}})
                t_ret = log.tick()
                v = ((r.get("resp") or {}).get("SequenceResp") or {}).get("resp", {}) if r.get("ok") else {}
                if "NextId" in v:
                    log.add("raft:raw" + key, v["NextId"], t_call, t_ret, tag("SequenceRaftReq::NextId"))
                    res["draws"] += 1
            elif c < 0.85:
                # one publish, or a run of publishes long enough to cross the 100-id windows of the history sequence; some of
                # them re-publish unchanged content (no new history entry, but the leader still draws an id for them)
                n_pub = rnd.choice([1, 1, 1, 40, 130])
                for _ in range(n_pub):
                    k = rnd.choice(config_keys)
                    name = "|%s|%s" % (k["group"], k["data_id"])
                    unchanged = rnd.random() < 0.3 and name in last_content
                    if not unchanged:
                        pub_n += 1
                        last_content[name] = "c%d-%d" % (seed, pub_n)
                    t_call = log.tick()
                    r = sess.call("publish", content=last_content[name], **k)
                    t_ret = log.tick()
                    if r.get("ok"):
                        res["publishes"] += 1
                        if unchanged:
                            res["classes"].add("republish-unchanged")
                            continue
                        dump = sess.call("dump", config_keys=[k], service_keys=[])
                        hist = ((dump.get("configs") or {}).get(name) or {}).get("history") or []
                        if hist:
                            # newest first: the entry just written is hist[0]
                            log.add("config-history", hist[0][0], t_call, t_ret, tag("publish %s" % k["data_id"]))
                            if recovering:
                                res["published_during_recovery"] = True
            elif c < 0.90:
                # a compaction placed right before a single sequence write, then a quiescent restart: the restart has to replay
                # exactly one entry behind the snapshot
                sess.call("barrier", min_index=0, bound_ms=15000)
                sess.call("compact")
                key = rnd.choice(KEYS)
                t_call = log.tick()
                r = sess.write({"SequenceReq": {"req": {"NextId": "raw" + key}}})
                t_ret = log.tick()
                v = ((r.get("resp") or {}).get("SequenceResp") or {}).get("resp", {}) if r.get("ok") else {}
                if "NextId" in v:
                    log.add("raft:raw" + key, v["NextId"], t_call, t_ret, tag("SequenceRaftReq::NextId"))
                    res["draws"] += 1
                sess.call("barrier", min_index=0, bound_ms=15000)
                sess.call("sleep", ms=100)
                settled = noderig.settle_on_disk(sess, d)
                sess.kill()
                log.restarts.append((log.tick(), "quiescent" if settled else "right-after-ack"))
                sess = noderig.NodeSession(d, snapshot_size=snap)
                res["restarts"] += 1
                res["classes"].add("restart:one-entry-behind-snapshot")
                b = sess.call("barrier", min_index=0, bound_ms=15000)
                t_call = log.tick()
                r = sess.write({"SequenceReq": {"req": {"NextId": "raw" + key}}})
                t_ret = log.tick()
                v = ((r.get("resp") or {}).get("SequenceResp") or {}).get("resp", {}) if r.get("ok") else {}
                if "NextId" in v:
                    log.add("raft:raw" + key, v["NextId"], t_call, t_ret, tag("SequenceRaftReq::NextId"))
                    res["draws"] += 1
            else:
                # restart: quiescent, or SIGKILL while a request is in flight (its ids are never seen: not counted)
                mode = rnd.choice(["quiescent", "mid-burst", "right-after-ack"])
                if mode == "mid-burst":
                    try:
                        sess.p.stdin.write((json.dumps({"op": "seq_burst", "key": rnd.choice(KEYS), "n": 150}) + "\n").encode())
                        sess.p.stdin.flush()
                    except OSError:
                        pass
                    time.sleep(rnd.random() * 0.01)
                    res["killed_mid_request"] += 1
                elif mode == "quiescent":
                    sess.call("barrier", min_index=0, bound_ms=15000)
                    sess.call("sleep", ms=100)
                    if not noderig.settle_on_disk(sess, d):
                        mode = "right-after-ack"      # the applied index had not reached the file: not a quiescent stop
                sess.kill()
                log.restarts.append((log.tick(), mode))
                sess = noderig.NodeSession(d, snapshot_size=snap)
                res["restarts"] += 1
                res["classes"].add("restart:" + mode)
                if rnd.random() < 0.5:
                    b = sess.call("barrier", min_index=0, bound_ms=15000)
                    if not b.get("ok"):
                        res["violations"] = [{"signature": "not-recovered-within-bound", "witness": {"barrier": b, "history_seed": seed}}]
                        return res
                else:
                    res["classes"].add("draw-during-recovery")
                    recovering = True
                    recover_until = rd + 1
        viols = log.check()
        # all history ids in the final state are unique across keys
        sess.call("barrier", min_index=0, bound_ms=15000)
        dump = sess.call("dump", config_keys=config_keys, service_keys=[])
        allh = []
        for name, v in (dump.get("configs") or {}).items():
            for h in (v or {}).get("history") or []:
                allh.append((h[0], name))
        ids = [x[0] for x in allh]
        if len(ids) != len(set(ids)):
            dup = sorted(i for i in set(ids) if ids.count(i) > 1)[:5]
            cls = "/published-during-recovery" if res.get("published_during_recovery") else "/" + log.between(0, log.step + 1)
            viols.append(("duplicate-id", "config-history-final-state" + cls, {"duplicate_ids": dup, "where": [x for x in allh if x[0] in dup][:6]}))
        res["history_entries_final"] = len(ids)
        snaps = [p for p in os.listdir(d) if p.startswith("snapshot_")]
        res["compactions"] = max([int(p.split("_")[1]) for p in snaps] or [0])
        if viols:
            if snap < 10000:
                # the raft core compacts by itself while entries are applied: the snapshot is then not a consistent cut (known finding of
                # C01, entries between the recorded index and the dumped state are applied twice after the restart). What that does to the
                # ids is the same root cause whatever the symptom, so these histories get their own class
                viols = [(sym, key.replace("after-quiescent-restart", "after-quiescent-restart-with-automatic-compaction"), det) for sym, key, det in viols]
            res["violations"] = [{"signature": "%s/%s" % (sym, key), "witness": {"key": key, "detail": det, "history_seed": seed, "args": [seed, rounds, snap]}} for sym, key, det in viols]
        return res
    except noderig.NodeDied as e:
        res["inconclusive"] = "node session died: %s" % e
        return res
    finally:
        res["classes"] = sorted(res["classes"])
        if sess:
            sess.kill()
        shutil.rmtree(d, ignore_errors=True)


def block_mark_history(args):
    """the entry that opens a new block of 100 history ids is an UNCHANGED re-publish (it draws an id, stores no history
    entry); further publishes, a quiescent restart that replays the log (no snapshot), further publishes: every stamped id
    is new and larger than the ones before"""
    wd, seed, offset = args
    d = os.path.join(wd, "bm%d" % seed)
    shutil.rmtree(d, ignore_errors=True)
    res = {"seed": seed, "snap": 10000, "restarts": 0, "draws": 0, "publishes": 0, "killed_mid_request": 0, "classes": {"block-mark-on-unchanged-republish/offset%d" % offset}, "compactions": 0}
    sess = None
    try:
        sess = noderig.NodeSession(d, snapshot_size=10000)
        if not sess.call("barrier", min_index=1, bound_ms=15000).get("ok"):
            res["inconclusive"] = "initial barrier failed"
            return res
        keys = [{"data_id": "bm%d" % i, "group": "g", "tenant": ""} for i in range(3)]
        stamped = []          # (publish number, key name, id)
        n = 0

        def publish(k, content, expect_entry=True):
            nonlocal n
            n += 1
            r = sess.call("publish", content=content, **k)
            if not r.get("ok"):
                return
            res["publishes"] += 1
            if expect_entry:
                name = "|%s|%s" % (k["group"], k["data_id"])
                dump = sess.call("dump", config_keys=[k], service_keys=[])
                hist = ((dump.get("configs") or {}).get(name) or {}).get("history") or []
                if hist:
                    stamped.append((n, name, hist[0][0]))
                    res["draws"] += 1
        for i in range(offset):
            publish(keys[i % 3], "v%d" % i)
        publish(keys[(offset - 1) % 3], "v%d" % (offset - 1), expect_entry=False)     # same content as the key's last publish
        for i in range(8):
            publish(keys[i % 3], "w%d" % i)
        sess.call("barrier", min_index=0, bound_ms=15000)
        sess.call("sleep", ms=100)
        if not noderig.settle_on_disk(sess, d):
            res["inconclusive"] = "applied index did not reach the index file"
            return res
        sess.kill()
        sess = noderig.NodeSession(d, snapshot_size=10000)
        res["restarts"] += 1
        if not sess.call("barrier", min_index=0, bound_ms=15000).get("ok"):
            res["violations"] = [{"signature": "not-recovered-within-bound", "witness": {"history_seed": seed}}]
            return res
        for i in range(8):
            publish(keys[i % 3], "x%d" % i)
        seen = {}
        prev = None
        for (pn, name, ident) in stamped:
            if ident in seen:
                res["violations"] = [{"signature": "duplicate-id/config-history/block-mark-on-unchanged-republish",
                                      "witness": {"id": ident, "first": seen[ident], "second": [pn, name], "unchanged_republish_was_draw": offset + 1, "restart_after_publish": offset + 9, "history_seed": seed,
                                                  "ids_tail": [x[2] for x in stamped[-20:]]}}]
                break
            if prev is not None and ident < prev[2]:
                res["violations"] = [{"signature": "id-went-backwards/config-history/block-mark-on-unchanged-republish",
                                      "witness": {"earlier": list(prev), "later": [pn, name, ident], "unchanged_republish_was_draw": offset + 1, "restart_after_publish": offset + 9, "history_seed": seed,
                                                  "ids_tail": [x[2] for x in stamped[-20:]]}}]
                break
            seen[ident] = [pn, name]
            prev = (pn, name, ident)
        res["classes"] = sorted(res["classes"])
        return res
    except noderig.NodeDied as e:
        res["inconclusive"] = "node session died: %s" % e
        return res
    finally:
        if sess:
            sess.kill()
        shutil.rmtree(d, ignore_errors=True)


def emptied_store_history(args):
    """publishes (history ids stamped), then EVERY config is removed, a compaction runs while the store is empty, 0 or 3 more
    publishes, a quiescent restart (snapshot of an empty config store + log tail), further publishes: the ids stamped
    afterwards are new and larger than every id stamped before - the counter is part of what a snapshot must carry even when
    nothing else is left to carry"""
    wd, seed, n_before, tail = args
    d = os.path.join(wd, "es%d" % seed)
    shutil.rmtree(d, ignore_errors=True)
    res = {"seed": seed, "snap": 10000, "restarts": 0, "draws": 0, "publishes": 0, "killed_mid_request": 0,
           "classes": {"compaction-of-emptied-config-store/%d-before/%d-behind-snapshot" % (n_before, tail)}, "compactions": 0}
    sess = None
    try:
        sess = noderig.NodeSession(d, snapshot_size=10000)
        if not sess.call("barrier", min_index=1, bound_ms=15000).get("ok"):
            res["inconclusive"] = "initial barrier failed"
            return res
        keys = [{"data_id": "es%d" % i, "group": "g", "tenant": ""} for i in range(3)]
        stamped = []
        n = 0

        def publish(k, content):
            nonlocal n
            n += 1
            r = sess.call("publish", content=content, **k)
            if not r.get("ok"):
                return
            res["publishes"] += 1
            name = "|%s|%s" % (k["group"], k["data_id"])
            dump = sess.call("dump", config_keys=[k], service_keys=[])
            hist = ((dump.get("configs") or {}).get(name) or {}).get("history") or []
            if hist:
                stamped.append((n, name, hist[0][0]))
                res["draws"] += 1
        for i in range(n_before):
            publish(keys[i % 3], "v%d" % i)
        for k in keys:
            r = sess.call("remove", **k)
            if r.get("ok") is False or r.get("err"):
                res["inconclusive"] = "remove refused: %s" % r
                return res
        sess.call("barrier", min_index=0, bound_ms=15000)
        if not sess.call("compact").get("ok"):
            res["inconclusive"] = "compaction refused"
            return res
        res["compactions"] = 1
        for i in range(tail):
            publish(keys[i % 3], "t%d" % i)
        sess.call("barrier", min_index=0, bound_ms=15000)
        sess.call("sleep", ms=100)
        if not noderig.settle_on_disk(sess, d):
            res["inconclusive"] = "applied index did not reach the index file"
            return res
        sess.kill()
        sess = noderig.NodeSession(d, snapshot_size=10000)
        res["restarts"] += 1
        if not sess.call("barrier", min_index=0, bound_ms=15000).get("ok"):
            res["violations"] = [{"signature": "not-recovered-within-bound", "witness": {"history_seed": seed}}]
            return res
        for i in range(8):
            publish(keys[i % 3], "x%d" % i)
        seen = {}
        prev = None
        for (pn, name, ident) in stamped:
            bad = "duplicate-id" if ident in seen else "id-went-backwards" if prev is not None and ident < prev[2] else None
            if bad:
                res["violations"] = [{"signature": "%s/config-history/after-compaction-of-emptied-config-store" % bad,
                                      "witness": {"earlier": seen.get(ident) or list(prev), "later": [pn, name, ident], "publishes_before_removal": n_before,
                                                  "publishes_between_compaction_and_restart": tail, "history_seed": seed, "ids": [x[2] for x in stamped[-24:]]}}]
                break
            seen[ident] = [pn, name]
            prev = (pn, name, ident)
        res["classes"] = sorted(res["classes"])
        return res
    except noderig.NodeDied as e:
        res["inconclusive"] = "node session died: %s" % e
        return res
    finally:
        if sess:
            sess.kill()
        shutil.rmtree(d, ignore_errors=True)


def import_part(out, wd, seed, restart_after_import=False):
    """ids stamped by the transfer IMPORT: node A builds > 100 history entries (3 keys x 45 publishes), exports; a fresh node B
    imports the file and then publishes itself; every history id on B is unique and B's own publishes continue above them.
    restart_after_import: B is stopped (quiescent) and restarted between the import and its own publishes"""
    import procrig
    from c18 import multipart
    V1 = "/rnacos/api/console"
    info = {}
    a = b = None
    try:
        sub = "imp-r" if restart_after_import else "imp"
        a = procrig.Node(os.path.join(wd, sub), 1, name="imp-a")
        b = procrig.Node(os.path.join(wd, sub), 1, name="imp-b")
        a.start()
        b.start()
        keys = ["imp%d" % i for i in range(3)]
        n_pub = 45
        for j in range(n_pub):
            for k in keys:
                r = a.post("/nacos/v1/cs/configs", form={"dataId": k, "group": "c19imp", "content": "%s-v%d" % (k, j)}, timeout=8)
                if r.status != 200:
                    raise common.Inconclusive("publish on node A refused: %s" % r.status)
        ta, r = a.console_login("admin", "admin", wait=15)
        tb, r2 = b.console_login("admin", "admin", wait=15)
        if not ta or not tb:
            raise common.Inconclusive("console login failed")
        blob = a.console("GET", V1 + "/transfer/export", ta, timeout=30).body
        if len(blob) < 1000:
            raise common.Inconclusive("transfer export too small: %d bytes" % len(blob))
        body, ct = multipart({}, "all.data", bytes(blob))
        r = b.console("POST", V1 + "/transfer/import", tb, body=body, headers={"Content-Type": ct, "import-config": "1", "import-cache": "0", "import-mcp": "0", "import-naming": "0", "import-user": "0"}, timeout=60)
        if r.status != 200:
            raise common.Inconclusive("transfer import refused: %s %s" % (r.status, r.body[:120]))
        # wait until the import has been applied, then B publishes itself
        t0 = time.time()
        while time.time() - t0 < 20:
            g = b.get("/nacos/v1/cs/configs", params={"dataId": keys[-1], "group": "c19imp"}, timeout=5)
            if g.status == 200 and g.text() == "%s-v%d" % (keys[-1], n_pub - 1):
                break
            time.sleep(0.3)
        else:
            raise common.Inconclusive("imported configs not served by node B within 20 s")
        if restart_after_import:
            # the importing node stops right behind the import - at a quiescent point (applied index == log end, and on disk) - and
            # rebuilds its id sequences from its log: what the import stamped must not be handed out again
            import noderig
            t0 = time.time()
            quiet = False
            while time.time() - t0 < 15 and not quiet:
                m = b.metrics() or {}
                quiet = m.get("last_applied") is not None and m.get("last_applied") == m.get("last_log_index") == noderig.applied_index_on_disk(b.dir)
                if not quiet:
                    time.sleep(0.2)
            if not quiet:
                raise common.Inconclusive("node B not quiescent 15 s after the import: %s / on disk %s" % (b.metrics(), noderig.applied_index_on_disk(b.dir)))
            time.sleep(0.3)
            b.kill()
            b.start()
            tb, r2 = b.console_login("admin", "admin", wait=15)
            if not tb:
                raise common.Inconclusive("console login after the restart failed")
            info["restarted_after_import"] = True
        for j in range(6):
            for k in keys:
                b.post("/nacos/v1/cs/configs", form={"dataId": k, "group": "c19imp", "content": "%s-own%d" % (k, j)}, timeout=8)
        hist = {}
        for k in keys:
            h = b.console("GET", V1 + "/config/history", tb, params={"dataId": k, "group": "c19imp", "pageNo": 1, "pageSize": 1000}, timeout=10)
            j = (h.json() or {}).get("list") if h.status == 200 else None
            if not isinstance(j, list):
                raise common.Inconclusive("history of %s not readable on node B" % k)
            hist[k] = [[it.get("id"), it.get("content")] for it in reversed(j)]
        info["history_entries_on_b"] = {k: len(v) for k, v in hist.items()}
        out.evaluations += sum(len(v) for v in hist.values())
        seen = {}
        bad = None
        for k, h in hist.items():
            for (i, c) in h:
                if i in seen and bad is None:
                    bad = ("import/duplicate-id/config-history", {"id": i, "entries": [seen[i], [k, c]]})
                seen[i] = [k, c]
            for (ia, ca), (ib, cb) in zip(h, h[1:]):
                if ib <= ia and bad is None:
                    bad = ("import/id-went-backwards/config-history", {"key": k, "earlier": [ia, ca], "later": [ib, cb]})
        if sum(len(v) for v in hist.values()) < 100:
            info["status"] = "inconclusive: fewer than 100 history entries arrived on node B"
        elif bad:
            out.violation(bad[0] + ("/after-quiescent-restart-behind-the-import" if restart_after_import else ""), dict(bad[1], imported_entries=n_pub * len(keys), own_publishes_after_import=18, restart_after_import=restart_after_import))
        else:
            out.shape("import/%d-history-entries-then-%sown-publishes" % (sum(len(v) for v in hist.values()) // 50 * 50, "restart-then-" if restart_after_import else ""))
            info["status"] = "held"
    except common.Inconclusive as e:
        info["status"] = "inconclusive: %s" % str(e)[:300]
    except OSError as e:
        info["status"] = "inconclusive: %r" % e
    finally:
        for n in (a, b):
            if n is not None:
                n.kill()
    out.extra["import_part" + ("_restart" if restart_after_import else "")] = info


def cluster_run(args):
    """several nodes drawing from the same named sequence (MCP server ids through each node's console API) and stamping
    configuration history ids while the leader is killed and restarted"""
    import threading
    import procrig
    wd, cseed = args
    rnd = random.Random(cseed)
    res = {"cluster_seed": cseed, "violations": [], "draws_acked": 0, "publishes_acked": 0, "phases": {}, "shapes": []}
    cl = procrig.Cluster(os.path.join(wd, "cl%d" % cseed), 3, env={"RUST_LOG": "warn", "RNACOS_CONSOLE_LOGIN_ONE_HOUR_LIMIT": "100000"})
    GROUP = "c19cl"
    keys = ["h%d" % i for i in range(3)]
    lock = threading.Lock()
    draws = []          # {node, id, t_call, t_ret, phase, n}
    pubs = []           # {key, value, phase, ok}
    try:
        cl.start()
        tok = {}

        def token(nd):
            if nd.id not in tok:
                t, r = nd.console_login("admin", "admin", wait=15)
                if not t:
                    raise common.Inconclusive("console login on node %d failed: %s" % (nd.id, r.body[:100]))
                tok[nd.id] = t
            return tok[nd.id]

        def drawer(nd, phase, n, serial0):
            for i in range(n):
                name = "c19-%d-%s-%d-%d" % (cseed, phase, nd.id, serial0 + i)
                t_call = time.time()
                try:
                    r = nd.console("POST", "/rnacos/api/console/v2/mcp/server/add", token(nd), body={"namespace": "", "name": name, "description": "d", "authKeys": ["k"], "tools": []}, timeout=8)
                    j = r.json() or {}
                    ok = r.status == 200 and j.get("success") and isinstance(j.get("data"), int)
                except (OSError, common.Inconclusive):
                    ok, j = False, {}
                t_ret = time.time()
                if ok:
                    with lock:
                        draws.append({"node": nd.id, "id": j["data"], "t_call": t_call, "t_ret": t_ret, "phase": phase, "name": name})
                time.sleep(rnd.choice([0.0, 0.01, 0.03]))

        def publisher(nodes, phase, n):
            for i in range(n):
                nd = rnd.choice(nodes)
                k = keys[i % len(keys)]
                val = "%s-%d-%d" % (phase, cseed, i)
                try:
                    r = nd.post("/nacos/v1/cs/configs", form={"dataId": k, "group": GROUP, "content": val}, timeout=8)
                    ok = r.status == 200 and r.text().strip() == "true"
                except OSError:
                    ok = False
                with lock:
                    pubs.append({"key": k, "value": val, "phase": phase, "ok": ok, "via": nd.id})
                time.sleep(0.02)

        def phase(name, nodes, n_draw, n_pub):
            ths = [threading.Thread(target=drawer, args=(nd, name, n_draw, 0), daemon=True) for nd in nodes]
            ths.append(threading.Thread(target=publisher, args=(nodes, name, n_pub), daemon=True))
            [t.start() for t in ths]
            [t.join(120) for t in ths]
            res["phases"][name] = {"nodes": [n.id for n in nodes]}

        # more than one 100-id window per node, so that range fetches through raft happen during every phase
        phase("p1", cl.nodes, 130, 30)
        leader = cl.leader()
        if leader is None:
            raise common.Inconclusive("no leader after phase 1")
        if cseed % 2:
            # the kill lands in the middle of draws and publishes on all three nodes (requests in flight on the leader are lost)
            kt = threading.Timer(rnd.choice([0.3, 0.6, 1.0]), leader.kill)
            kt.start()
            phase("p1k", cl.nodes, 60, 20)
            kt.join()
            res["kill"] = "during-draws"
        else:
            res["kill"] = "between-phases"
        leader.kill()
        res["killed_leader"] = leader.id
        survivors = [n for n in cl.nodes if n is not leader]
        t0 = time.time()
        while time.time() - t0 < 25:
            ms = [n.metrics() for n in survivors]
            if all(ms) and len({m.get("current_leader") for m in ms}) == 1 and ms[0].get("current_leader") in [n.id for n in survivors]:
                break
            time.sleep(0.3)
        else:
            raise common.Inconclusive("no new leader within 25 s of the kill")
        phase("p2", survivors, 130, 30)
        leader.start(wait=True, timeout=40)
        tok.pop(leader.id, None)
        cl.wait_formed(40)
        phase("p3", cl.nodes, 60, 15)
        # ---- oracle over the recorded draws
        res["draws_acked"] = len(draws)
        res["publishes_acked"] = sum(1 for p in pubs if p["ok"])
        by_id = {}
        for d in draws:
            by_id.setdefault(d["id"], []).append(d)
        for i, ds in sorted(by_id.items()):
            if len(ds) > 1:
                ph = sorted({d["phase"] for d in ds})
                cls = "same-phase-%s" % ph[0] if len(ph) == 1 else "across-" + "-".join(ph)
                res["violations"].append({"signature": "cluster/duplicate-id/mcp-server/%s" % cls,
                                          "witness": {"id": i, "draws": [{k: d[k] for k in ("node", "phase", "name")} for d in ds], "killed_leader": leader.id, "cluster_seed": cseed}})
                break
        for nd in cl.nodes:
            mine = sorted([d for d in draws if d["node"] == nd.id], key=lambda d: d["t_call"])
            for a, b in zip(mine, mine[1:]):
                if b["t_call"] >= a["t_ret"] and b["id"] <= a["id"]:
                    cls = "within-%s" % a["phase"] if a["phase"] == b["phase"] else "%s-to-%s" % (a["phase"], b["phase"])
                    res["violations"].append({"signature": "cluster/id-went-backwards/mcp-server/same-node/%s" % cls,
                                              "witness": {"node": nd.id, "earlier": {k: a[k] for k in ("id", "phase", "name")}, "later": {k: b[k] for k in ("id", "phase", "name")},
                                                          "restarted_between": nd is leader and a["phase"] != b["phase"], "killed_leader": leader.id, "cluster_seed": cseed}})
                    break
        # ---- configuration history ids, read from every node once all are equal (bounded)
        ref = cl.leader() or cl.nodes[0]
        hist = {}
        for k in keys:
            r = ref.console("GET", "/rnacos/api/console/config/history", token(ref), params={"dataId": k, "group": GROUP, "pageNo": 1, "pageSize": 1000}, timeout=8)
            j = (r.json() or {}).get("list") if r.status == 200 else None
            if not isinstance(j, list):
                raise common.Inconclusive("history of %s not readable: %s" % (k, r.status))
            hist[k] = [[it.get("id"), it.get("content")] for it in reversed(j)]
        seen = {}
        for k, h in hist.items():
            for (i, c) in h:
                if i in seen:
                    res["violations"].append({"signature": "cluster/duplicate-id/history", "witness": {"id": i, "entries": [seen[i], [k, c]], "cluster_seed": cseed}})
                seen[i] = [k, c]
            for (ia, ca), (ib, cb) in zip(h, h[1:]):
                if ib <= ia:
                    pa, pb = str(ca).split("-")[0], str(cb).split("-")[0]
                    cls = "within-%s" % pa if pa == pb else "%s-to-%s" % (pa, pb)
                    res["violations"].append({"signature": "cluster/id-went-backwards/history/%s" % cls,
                                              "witness": {"key": k, "earlier": [ia, ca], "later": [ib, cb], "killed_leader": leader.id, "cluster_seed": cseed}})
                    break
        res["history_entries"] = sum(len(h) for h in hist.values())
        res["distinct_ids"] = len(by_id)
        res["id_span"] = [min(by_id), max(by_id)] if by_id else None
        if res["draws_acked"] >= 300 and not res["violations"]:
            res["shapes"].append("cluster/3-nodes/leader-kill-%s+restart/draws-%d00" % (res["kill"], res["draws_acked"] // 100))
        return res
    except common.Inconclusive as e:
        res["inconclusive"] = str(e)[:300]
        return res
    except OSError as e:
        res["inconclusive"] = repr(e)[:300]
        return res
    finally:
        cl.kill_all()
        shutil.rmtree(os.path.join(wd, "cl%d" % cseed), ignore_errors=True)


def run(tier, seed):
    common.build()
    wd = common.workdir("c19")
    out = Outcome("C19", tier, seed)
    out.rule = ("per history one in-process node with snapshot threshold 5..60 (compactions by the raft core): rounds of concurrent "
                "SequenceRequest::GetNextId bursts (1..250 requests on 3 keys, interleaving inside the actor while a range is fetched through raft), "
                "raw SequenceRaftReq::NextId writes, config publishes through the leader path (history id stamped), and restarts by SIGKILL at "
                "quiescent points, right after an ack and in the middle of a burst, optionally drawing again before recovery has finished. "
                "Oracle: per key no id twice; an id answered before another request was made is smaller; final history ids unique across keys. "
                "non-trivial = history with >=1 restart and >=50 ids; distinct = (restart modes, burst classes, compaction class)")
    try:
        n = 48 if tier == "quick" else 1200
        rnd = random.Random(seed)
        # 2 of 3 histories compact at quiescent points only (threshold never reached), 1 of 3 lets the raft core compact by itself
        jobs = [(wd, seed * 100000 + i, rnd.choice([25, 40, 60]), rnd.choice([5, 13, 25, 60]) if i % 3 == 0 else 10000) for i in range(n)]
        with ThreadPoolExecutor(max_workers=common.NCPU) as ex:
            bm = [ex.submit(block_mark_history, (wd, seed * 100000 + 70000 + i, [99, 100, 101, 199, 200, 201][i % 6])) for i in range(3 if tier == "quick" else 12)]
            es = [ex.submit(emptied_store_history, (wd, seed * 100000 + 75000 + i, [5, 99, 150][i % 3], [0, 3][(i // 3) % 2])) for i in range(3 if tier == "quick" else 12)]
            results = list(ex.map(one_history, jobs)) + [f.result() for f in bm] + [f.result() for f in es]
        agg = {"restarts": 0, "draws": 0, "publishes": 0, "killed_mid_request": 0, "histories_with_compaction": 0}
        for r in results:
            out.evaluations += 1
            if "inconclusive" in r:
                out.extra.setdefault("inconclusive_subruns", []).append(r["inconclusive"][:300])
                continue
            for k in ("restarts", "draws", "publishes", "killed_mid_request"):
                agg[k] += r[k]
            if r.get("compactions", 0) > 0:
                agg["histories_with_compaction"] += 1
            for v in r.get("violations", []):
                out.violation(v["signature"], v["witness"])
            if r["restarts"] >= 1 and r["draws"] + r["publishes"] >= 50:
                out.shape("%s/c%s" % ("+".join(c for c in r["classes"]), "0" if not r.get("compactions") else "1+" if r["compactions"] < 3 else "3+"))
            if len(out.samples) < 3:
                out.samples.append({k: r[k] for k in ("seed", "snap", "restarts", "draws", "publishes", "killed_mid_request", "classes", "compactions") if k in r})
        out.extra.update(agg)
        # ---- several nodes, leader change (real processes)
        common.build(need_bin=True)
        n_cl = 2 if tier == "quick" else 8
        with ThreadPoolExecutor(max_workers=2) as ex:
            cres = list(ex.map(cluster_run, [(wd, seed * 1000 + i) for i in range(n_cl)]))
        cagg = {"clusters": 0, "draws_acked": 0, "publishes_acked": 0, "history_entries": 0, "inconclusive": []}
        for r in cres:
            if "inconclusive" in r:
                cagg["inconclusive"].append(r["inconclusive"])
                continue
            cagg["clusters"] += 1
            out.evaluations += r["draws_acked"] + r["publishes_acked"]
            for k in ("draws_acked", "publishes_acked", "history_entries"):
                cagg[k] += r.get(k, 0)
            for v in r["violations"]:
                out.violation(v["signature"], v["witness"])
            for sh in r["shapes"]:
                out.shape(sh)
        out.extra["cluster_part"] = cagg
        with ThreadPoolExecutor(max_workers=2) as ex:
            list(ex.map(lambda r: import_part(out, wd, seed, restart_after_import=r), (False, True)))
        out.min_nontrivial = 5
        out.assumptions = ["gaps are allowed; ids of requests that were in flight when the node was killed are never observed and not counted",
                           "logical time = driver steps (one driver per node), so no wall-clock comparison is involved",
                           "cluster part: ids may have gaps and need not be ordered ACROSS nodes (each node caches its own 100-id ranges); they must be unique cluster-wide and increasing per drawing node and per key history"]
        return out.finish()
    finally:
        shutil.rmtree(wd, ignore_errors=True)


def replay(path):
    w = json.load(open(path))
    common.build()
    wd = common.workdir("c19r")
    try:
        a = w["witness"].get("args") or [w["witness"]["history_seed"], 40, 13]
        r = one_history((wd, a[0], a[1], a[2]))
        print(json.dumps(r, indent=1, default=str)[:3000])
        if r.get("violations"):
            print("VIOLATION property=C19 replay=%s" % path)
            return 1
        return 0
    finally:
        shutil.rmtree(wd, ignore_errors=True)
