"""C04, complete-node part: process death DURING THE INSTALLATION OF A LEADER'S SNAPSHOT (the multi-step mutation of the follower side:
snapshot file created and written, catalogue entry, membership from the header, state load, removal of the log files the snapshot covers,
pointer log file) and between the installation and the entries that follow it.

A leader L (raft-idle complete node, entries through the leader path) builds a state and compacts it. A follower F (complete node under the
write-journal interposer) - fresh, or holding a prefix of the same log - receives the snapshot exactly the way the raft core hands it over
(create_snapshot, write, finalize_snapshot_installation) and then the entries behind the snapshot. For EVERY prefix of the file mutations of
that window the directory image is restarted by a fresh node, which must
  * start (no error, no hang),
  * serve either the state F served before the installation or the state of the snapshot (plus a prefix of the following entries) - never a
    mixture, and report the membership that goes with it,
  * report a last-applied index that snapshot + log can reproduce, and a contiguous log,
  * never combine the OLD state with a log that already ends at / behind the snapshot index (the leader would then continue with the entries
    behind the snapshot and the node would apply them to the old state),
  * stay usable: what the leader does next (send the snapshot again if the node's log ends before it, then the entries behind it) leads to
    exactly the leader's final state, also after one more restart."""
import glob
import json
import os
import random
import re
import shutil
import time

import common
import crashrig
import noderig

BOUND_MS = 15000


def _open_idle(d, **kw):
    s = noderig.NodeSession(d, snapshot_size=10000, auto_init=False, **kw)
    return s


def _settled_dump(sess, gen):
    sess.call("actor_barrier", ms=60)
    return sess.call("dump", **gen.dump_args())


def _gen_requests(rnd, n, plain):
    gen = noderig.ReqGen(rnd)
    gen.big_p = 0.0
    reqs = []
    last_content = None
    while len(reqs) < n:
        r = gen.next(last_content)
        if "NodeAddr" in r or "Members" in r:
            continue
        if plain and "ConfigSet" not in r:
            continue          # a follower that already holds state: only overwrites, so that "snapshot loaded on top" (known finding) cannot differ
        if "ConfigSet" in r:
            last_content = r["ConfigSet"]["value"]
        reqs.append(r)
    return gen, reqs


def _feed(sess, reqs, first_index, rnd=None, on_ack=None):
    i = 0
    while i < len(reqs):
        b = rnd.choice([1, 2, 5]) if rnd else len(reqs)
        chunk = reqs[i:i + b]
        a = sess.call("follower_batch", entries=[{"index": first_index + i + j, "term": 1, "req": r} for j, r in enumerate(chunk)])
        if not a.get("ok"):
            return a
        i += len(chunk)
        if on_ack:
            on_ack(first_index + i - 1)
    return {"ok": True}


def _first_diff(a, b):
    d = noderig.diff_dumps(a, b)
    if not d:
        return None
    p0 = [re.sub(r"\[\d+\]$", "", x) for x in d[0][0].split("/")]
    return {"component": p0[1] if len(p0) > 1 else "-", "field": "/".join(p0[2:4]), "n_diffs": len(d),
            "diffs": [[pp, json.dumps(x)[:100], json.dumps(y)[:100]] for pp, x, y in d[:4]]}


def install_crash_history(args):
    wd, seed, variant = args          # variant: fresh | prefix
    rnd = random.Random(seed)
    base = os.path.join(wd, "ins%d" % seed)
    shutil.rmtree(base, ignore_errors=True)
    dl, df = os.path.join(base, "L"), os.path.join(base, "live")
    os.makedirs(df)
    jpath = os.path.join(base, "journal")
    so = crashrig.build_shim()
    res = {"seed": seed, "variant": variant, "images": 0, "distinct_images": 0, "violations": [], "windows": {}, "continuations": 0}
    sl = sf = None
    try:
        n = rnd.choice([25, 40, 70])
        n_tail = rnd.choice([3, 6])
        gen, reqs = _gen_requests(rnd, n + n_tail, plain=(variant == "prefix"))
        head, tail = reqs[:n], reqs[n:]
        sl = _open_idle(dl)
        sl.call("preamble", term=1, voted_for=2)
        for i, r in enumerate(head):
            a = sl.call("leader_apply", index=i + 1, term=1, req=r)
            if not a.get("ok"):
                res["inconclusive"] = "leader_apply failed: %s" % json.dumps(a)[:200]
                return res
        sl.call("actor_barrier", ms=30)
        cr = sl.call("compact")
        snaps = sorted(glob.glob(os.path.join(dl, "snapshot_*")), key=lambda p: int(p.rsplit("_", 1)[1]) if p.rsplit("_", 1)[1].isdigit() else -1)
        if not cr.get("ok") or not snaps or cr.get("index") != n:
            res["inconclusive"] = "leader compaction: %s" % json.dumps(cr)[:200]
            return res
        snap_path = os.path.join(base, "leader.snapshot")
        shutil.copy(snaps[-1], snap_path)
        dump_s = _settled_dump(sl, gen)
        mem_s = sl.call("membership")
        for i, r in enumerate(tail):
            a = sl.call("leader_apply", index=n + 1 + i, term=1, req=r)
            if not a.get("ok"):
                res["inconclusive"] = "leader_apply (tail) failed: %s" % json.dumps(a)[:200]
                return res
        dump_final = _settled_dump(sl, gen)
        # states the follower passes through while the entries behind the snapshot arrive, one by one (for the images of that window)
        sl.kill()
        sl = None
        # ---- follower under the journal
        env = {"VERIF_JOURNAL": jpath, "VERIF_JOURNAL_DIR": df}
        sf = _open_idle(df, preload=so, env=env)
        # its own membership differs from the snapshot's: a node that joins for the first time knows no members at all, a member that
        # lagged behind missed the addition of node 3. (Never the single member {self}: the raft core of such a node takes itself for
        # a one-node cluster after a restart, becomes leader and appends entries of its own - no such node is ever sent a snapshot.)
        sf.call("preamble", term=1, voted_for=2, members=[] if variant == "fresh" else [1, 2])
        m_pre = 0
        if variant == "prefix":
            m_pre = rnd.randrange(3, max(4, n // 2))
            a = _feed(sf, head[:m_pre], 1, rnd)
            if not a.get("ok"):
                res["inconclusive"] = "prefix feed failed: %s" % json.dumps(a)[:200]
                return res
            t0 = time.time()
            while noderig.applied_index_on_disk(df) != m_pre and time.time() - t0 < 10:
                time.sleep(0.05)
        dump_old = _settled_dump(sf, gen)
        mem_old = sf.call("membership")
        time.sleep(0.3)
        j0 = os.path.getsize(jpath)
        a = sf.call("install_snapshot", path=snap_path, index=cr["index"], term=cr["term"])
        j_ack = os.path.getsize(jpath)
        if not a.get("ok"):
            res["violations"].append({"signature": "snapshot-install/refused/%s" % variant, "witness": {"history_seed": seed, "answer": json.dumps(a)[:300]}})
            return res
        with_pause = rnd.random() < 0.5
        if with_pause:
            sf.call("actor_barrier", ms=60)
            time.sleep(0.3)
        j_tail = os.path.getsize(jpath)
        acks = []          # (journal size when the batch was acknowledged, its last index)
        a = _feed(sf, tail, n + 1, rnd, on_ack=lambda last: acks.append((os.path.getsize(jpath), last)))
        if not a.get("ok"):
            res["violations"].append({"signature": "snapshot-install/entries-behind-the-snapshot-refused/%s" % variant,
                                      "witness": {"history_seed": seed, "variant": variant, "prefix_entries": m_pre, "snapshot_index": n, "answer": json.dumps(a)[:300]}})
            return res
        dump_live = _settled_dump(sf, gen)
        d = _first_diff(dump_final, dump_live)
        if d:
            res["violations"].append({"signature": "snapshot-install/live-state-differs-from-leader/%s/%s" % (variant, d["component"]),
                                      "witness": {"history_seed": seed, "variant": variant, "prefix_entries": m_pre, "snapshot_index": n, "detail": d}})
        t0 = time.time()
        while noderig.applied_index_on_disk(df) != n + len(tail) and time.time() - t0 < 10:
            time.sleep(0.05)
        time.sleep(0.3)
        sf.kill()
        sf = None
        with open(jpath, "rb") as f:
            data = f.read()

        def count(upto):
            p = os.path.join(base, "journal.part")
            with open(p, "wb") as f:
                f.write(data[:upto])
            k = len(crashrig.parse_journal(p, df))
            os.remove(p)
            return k

        k0, k_ack, k_tail = count(j0), count(j_ack), count(j_tail)
        k_acks = [(count(js), last) for js, last in acks]
        recs = crashrig.parse_journal(jpath, df)
        kinds = crashrig.windows(recs)
        res["mutations"] = len(recs) - k0
        res["install_mutations"] = k_ack - k0
        if k_ack - k0 < 3:
            res["inconclusive"] = "the installation produced only %d file mutations" % (k_ack - k0)
            return res
        # intermediate leader states for the images of the tail window: S + first j tail entries. They are recomputed lazily on a
        # scratch leader only when an image matches neither old nor S nor final.
        img = crashrig.Image()
        for k in range(k0):
            if recs[k][0] != "M":
                img.apply(recs[k])
        idir = os.path.join(base, "img")
        cache = {}
        seen = set()
        tail_states = None
        for k in range(k0, len(recs)):
            if recs[k][0] == "M":
                continue
            img.apply(recs[k])
            phase = "install" if k < k_ack else ("after-install" if k < k_tail else "entries-behind-snapshot")
            dg = img.digest()
            res["images"] += 1
            res["windows"]["%s:%s" % (phase, kinds[k])] = res["windows"].get("%s:%s" % (phase, kinds[k]), 0) + 1
            if dg in cache:
                continue
            cache[dg] = True
            res["distinct_images"] += 1
            found = []
            img.materialise(idir)
            s2 = None
            try:
                try:
                    s2 = _open_idle(idir)
                    st = s2.call("store_state")
                    dump_r = _settled_dump(s2, gen)
                    mem_r = s2.call("membership")
                except noderig.NodeDied as e:
                    found.append(("restart-failed", "-", {"error": str(e)}))
                    st = None
                if st is not None and not st.get("ok", True):
                    found.append(("store-unreadable-after-restart", "-", {"answer": json.dumps(st)[:300]}))
                    st = None
                if st is not None:
                    which = None
                    if _first_diff(dump_old, dump_r) is None:
                        which = "old"
                    if _first_diff(dump_s, dump_r) is None:
                        which = "snapshot" if which is None else "old=snapshot"
                    if which is None and _first_diff(dump_final, dump_r) is None:
                        which = "final"
                    if which is None and phase == "entries-behind-snapshot":
                        if tail_states is None:
                            tail_states = _tail_states(base, gen, head, tail)
                        for j, ds in enumerate(tail_states):
                            if _first_diff(ds, dump_r) is None:
                                which = "snapshot+%d" % (j + 1)
                                break
                    if which is None:
                        d1 = _first_diff(dump_s, dump_r) or {}
                        found.append(("state-neither-old-nor-snapshot", d1.get("component", "-"), {"vs_snapshot_state": d1, "vs_old_state": _first_diff(dump_old, dump_r)}))
                    # membership goes with the snapshot once the catalogue points at it (the header is the authority for it)
                    mem_ok = [json.dumps([m.get("members"), m.get("after"), m.get("addrs")], sort_keys=True) for m in (mem_old, mem_s)]
                    if mem_r.get("ok") is not False and json.dumps([mem_r.get("members"), mem_r.get("after"), mem_r.get("addrs")], sort_keys=True) not in mem_ok:
                        found.append(("membership-neither-old-nor-snapshot", "-", {"got": mem_r, "old": mem_old, "snapshot": mem_s}))
                    if len(res.setdefault("trace", [])) < 40:
                        res["trace"].append([k - k0 + 1, phase, kinds[k], which, st.get("last_log_index"), st.get("last_applied"), st.get("log_first"), st.get("log_count"), (st.get("snapshot") or {}).get("index"), st.get("members"), st.get("last_log_term"), st.get("last_entry")])
                    top = max(st.get("last_log_index") or 0, (st.get("snapshot") or {}).get("index") or 0)
                    if (st.get("last_applied") or 0) > top:
                        found.append(("last-applied-beyond-log-and-snapshot", "-", {"store_state": st}))
                    if not st.get("contiguous", True):
                        found.append(("log-not-contiguous", "-", {"store_state": st}))
                    if which == "old" and (st.get("last_log_index") or 0) >= n and n > m_pre:
                        found.append(("old-state-with-log-at-or-behind-snapshot", "-", {"store_state": st, "snapshot_index": n, "prefix_entries": m_pre}))
                    if which in ("snapshot", "final") or (which or "").startswith("snapshot+"):
                        # the state machine is at >= n: the applied index the raft core will start from must not be below the snapshot
                        # while the log claims entries behind it (they would be applied a second time)
                        pass
                    # ---- continuation: what the leader does next
                    if not found:
                        res["continuations"] += 1
                        acked_upto = max([n] + [last for kk, last in k_acks if kk <= k + 1]) if k + 1 >= k_ack else None
                        c = _continue(s2, st, n, cr, snap_path, tail, gen, dump_final, idir, acked_upto)
                        if c:
                            found.append(c)
            finally:
                if s2:
                    s2.kill()
            for clause, comp, detail in found:
                rk = recs[k]
                what = "snapshot-data" if rk[1].startswith("snapshot_") else rk[1].split("_")[0]
                sig = "crash-during-snapshot-install/%s/%s/%s/after-%s-%s" % (clause, comp, phase, what, "write" if rk[0] == "W" else {"T": "set-len", "U": "unlink", "C": "create", "R": "rename"}.get(rk[0], rk[0]))
                if sig in seen:
                    continue
                seen.add(sig)
                res["violations"].append({"signature": sig, "witness": {
                    "history_seed": seed, "variant": variant, "prefix_entries": m_pre, "snapshot_index": n, "entries_behind_snapshot": len(tail), "pause_after_install": with_pause,
                    "journal_prefix": k - k0 + 1, "of_window_mutations": len(recs) - k0, "install_mutations": k_ack - k0, "clause": clause, "detail": detail,
                    "mutations_tail": [list(x[:3]) if x[0] != "W" else [x[0], x[1], x[2], len(x[3])] for x in recs[max(k0, k - 6):k + 1] if x[0] != "M"]}})
        res["sample"] = {"history_seed": seed, "variant": variant, "snapshot_index": n, "prefix_entries": m_pre, "window_mutations": len(recs) - k0,
                         "install_mutations": k_ack - k0, "mutation_kinds": [kinds[k] + ":" + recs[k][1] for k in range(k0, min(len(recs), k0 + 30)) if recs[k][0] != "M"]}
        return res
    except noderig.NodeDied as e:
        res["inconclusive"] = "node session died: %s" % e
        return res
    finally:
        for s in (sl, sf):
            if s:
                s.kill()
        shutil.rmtree(base, ignore_errors=True)


def _tail_states(base, gen, head, tail):
    """leader states after the snapshot point + 1, 2, ... entries (scratch leader)"""
    d = os.path.join(base, "L2")
    s = _open_idle(d)
    out = []
    try:
        s.call("preamble", term=1, voted_for=2)
        for i, r in enumerate(head):
            s.call("leader_apply", index=i + 1, term=1, req=r)
        for i, r in enumerate(tail):
            s.call("leader_apply", index=len(head) + 1 + i, term=1, req=r)
            out.append(_settled_dump(s, gen))
        return out
    finally:
        s.kill()
        shutil.rmtree(d, ignore_errors=True)


def _continue(s2, st, n, cr, snap_path, tail, gen, dump_final, idir, acked_upto):
    """the leader's next steps against the recovered node, RPC by RPC as async-raft-ext 0.6.3 exchanges them (the follower side of every
    AppendEntries is the `follower_append` operation of the session = core/append_entries.rs; the leader side = replication/mod.rs:
    conflict -> next_index = conflict.index + 1, snapshot when the leader no longer has that entry). acked_upto = None: the installation was
    never acknowledged (the leader is still streaming the snapshot and sends it again); otherwise the last index the node acknowledged.
    Returns None or (clause, component, detail)"""
    fl, ft = st.get("last_log_index") or 0, st.get("last_log_term") or 0
    term = cr["term"]
    last_leader = n + len(tail)
    steps = []
    need_snapshot = acked_upto is None
    prev = acked_upto if acked_upto is not None else n
    first = True
    done = False
    for _round in range(8):
        if need_snapshot:
            dt = n if fl > n else None
            kw = {"delete_through": dt} if dt is not None else {}
            a = s2.call("install_snapshot", path=snap_path, index=cr["index"], term=term, **kw)
            steps.append("install(delete_through=%s)" % dt)
            if not a.get("ok"):
                return ("continuation/second-installation-refused", "-", {"store_state": st, "steps": steps, "answer": json.dumps(a)[:300]})
            fl, ft = n, term
            prev = n
            need_snapshot = False
            continue
        ents = [{"index": prev + 1 + j, "term": 1, "req": r} for j, r in enumerate(tail[prev - n:])]
        a = s2.call("follower_append", prev_index=prev, prev_term=term, entries=ents, last_log_index=fl, last_log_term=ft, first=first, commit=last_leader)
        first = False
        steps.append("append(prev=%d, %d entries) -> %s" % (prev, len(ents), json.dumps({k: a.get(k) for k in ("success", "conflict", "path", "applied", "err")})))
        if not a.get("ok", True) or "success" not in a:
            return ("continuation/entries-behind-the-snapshot-refused", "-", {"store_state": st, "steps": steps, "answer": json.dumps(a)[:300]})
        if a["success"]:
            fl, ft = a["last_log_index"], a["last_log_term"]
            done = True
            break
        ci, ct = a["conflict"]
        if ci > last_leader:
            return ("continuation/replication-stuck", "-", {"store_state": st, "steps": steps, "why": "conflict index beyond the leader's log: the leader takes no action"})
        if ci < n:
            need_snapshot = True          # the leader no longer has that entry
        else:
            if ci == prev and _round >= 2:
                return ("continuation/replication-stuck", "-", {"store_state": st, "steps": steps, "why": "the same conflict is answered again and again"})
            prev = ci
    if not done:
        return ("continuation/replication-stuck", "-", {"store_state": st, "steps": steps, "why": "no agreement after 8 rounds"})
    dump_c = _settled_dump(s2, gen)
    d = _first_diff(dump_final, dump_c)
    if d:
        return ("continuation/state-differs-from-leader", d["component"], {"store_state": st, "steps": steps, "detail": d})
    t0 = time.time()
    while noderig.applied_index_on_disk(idir) != last_leader and time.time() - t0 < 10:
        time.sleep(0.05)
    if noderig.applied_index_on_disk(idir) != last_leader:
        return None      # not quiescent within the bound: the restart comparison would not be a verdict
    s2.kill()
    s3 = None
    try:
        s3 = _open_idle(idir)
        dump_c2 = _settled_dump(s3, gen)
        st3 = s3.call("store_state")
    except noderig.NodeDied as e:
        return ("continuation/restart-failed", "-", {"error": str(e), "steps": steps})
    finally:
        if s3:
            s3.kill()
    d = _first_diff(dump_final, dump_c2)
    if d:
        return ("continuation/state-differs-after-restart", d["component"], {"steps": steps, "detail": d, "store_state_after_restart": st3})
    if st3.get("ok", True) and ((st3.get("last_log_index") or 0) != last_leader or not st3.get("contiguous", True)):
        return ("continuation/log-end-differs-after-restart", "-", {"store_state": st, "steps": steps, "expected_last_index": last_leader, "store_state_after_restart": st3})
    return None


def part(out, wd, seed, tier):
    """extra part of C04's drive()"""
    from concurrent.futures import ThreadPoolExecutor
    n = 6 if tier == "quick" else 48
    jobs = [(wd, seed * 1000 + 300 + i, ["fresh", "prefix"][i % 2]) for i in range(n)]
    with ThreadPoolExecutor(max_workers=min(common.NCPU, 12)) as ex:
        results = list(ex.map(install_crash_history, jobs))
    agg = {"histories": 0, "crash_images": 0, "distinct_images_restarted": 0, "continuations": 0, "window_histogram": {}}
    for r in results:
        if "inconclusive" in r:
            out.extra.setdefault("inconclusive_subruns", []).append("snapshot-install: " + r["inconclusive"][:200])
            continue
        agg["histories"] += 1
        agg["crash_images"] += r["images"]
        agg["distinct_images_restarted"] += r["distinct_images"]
        agg["continuations"] += r["continuations"]
        out.evaluations += r["images"]
        for k, v in r["windows"].items():
            agg["window_histogram"][k] = agg["window_histogram"].get(k, 0) + v
            out.shape("snapshot-install/%s/%s" % (r["variant"], k))
        for v in r["violations"]:
            out.violation(v["signature"], v["witness"])
        if r.get("sample") and "snapshot_install_sample" not in out.extra:
            out.extra["snapshot_install_sample"] = r["sample"]
    out.extra["snapshot_install_part"] = agg
    if agg["histories"] == 0:
        raise common.Inconclusive("no snapshot-install history could be run: %s" % out.extra.get("inconclusive_subruns"))
