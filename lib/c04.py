"""C04 — the raft store is crash-consistent at every file-write boundary (fault enumeration); also hosts C05's crash part."""
import json
import os
import random
import shutil
from concurrent.futures import ThreadPoolExecutor

import common
import crashrig
import c02
from common import Outcome


def enumerate_history(args):
    wd, seed, n_ops, profile, stride, which = args
    rnd = random.Random(seed)
    hwd = os.path.join(wd, "h%d" % seed)
    os.makedirs(hwd, exist_ok=True)
    res = {"seed": seed, "profile": profile, "images": 0, "distinct_images": 0, "mutations": 0, "violations": [], "windows": {}, "features": []}
    try:
        base = c02.probe_base(hwd)
        gen = crashrig.MetaGen(rnd, base, profile)
        ops = gen.generate(n_ops)
        res["features"] = sorted(gen.features)
        try:
            recs, table = crashrig.run_journaled(hwd, ops)
        except crashrig.SessionDied as e:
            res["inconclusive"] = "live session died: %s" % e
            return res
        kinds = crashrig.windows(recs)
        res["mutations"] = sum(1 for r in recs if r[0] != "M")
        img = crashrig.Image()
        markers = []
        cache = {}
        idir = os.path.join(hwd, "img")
        seen_sigs = set()
        last_mut_kind = "start"
        for k, rec in enumerate(recs):
            if rec[0] == "M":
                markers.append(rec[1])
            else:
                img.apply(rec)
                last_mut_kind = kinds[k]
            if stride > 1 and rec[0] != "M" and (k % stride) and not (kinds[k].startswith(("create", "unlink", "set-len", "index-")) or k + 1 == len(recs)):
                continue
            dg = img.digest()
            if dg not in cache:
                img.materialise(idir)
                cache[dg] = crashrig.recover(idir)
                res["distinct_images"] += 1
            r = cache[dg]
            res["images"] += 1
            res["windows"][last_mut_kind] = res["windows"].get(last_mut_kind, 0) + 1
            found = []
            if which in ("C04", "both"):
                found += [("C04",) + x for x in crashrig.check_image(table, markers, r)]
                found += [("C04",) + x for x in crashrig.check_applied(table, markers, r)]
                found += [("C04",) + x for x in crashrig.check_snapshot(table, markers, r)]
            if which in ("C05", "both"):
                found += [("C05",) + x for x in crashrig.check_meta(table, markers, r)]
            # a crash between a record write and the write of the log file's index entry that belongs to it: the recovered store is
            # driven on (one index interval of further appends, quiescent reopen)
            nxt = next((kinds[j] for j in range(k + 1, len(recs)) if kinds[j] != "marker"), None)
            if which in ("C04", "both") and rec[0] != "M" and kinds[k] == "log-data" and nxt == "log-index-area" and r.get("recovered") and ("cont", dg) not in cache:
                img.materialise(idir)
                cache[("cont", dg)] = crashrig.continue_after_recovery(idir)
                res["continuations"] = res.get("continuations", 0) + 1
                if cache[("cont", dg)]:
                    found.append(("C04",) + cache[("cont", dg)])
            for prop, clause, detail in found:
                inflight = None
                if markers and markers[-1].startswith("S"):
                    inflight = table[int(markers[-1].split()[1])][0]["op"]
                last_marker_op = table[int(markers[-1].split()[1])][0]["op"] if markers else None
                # one signature per (violated clause, operation in flight / last acknowledged); the kind of the last file
                # mutation before the cut is part of the witness
                sig = "%s/%s" % (clause, ("in-flight:" + inflight) if inflight else ("acked:%s" % last_marker_op))
                # the listed compaction-pointer defect is identified by its cause, not by where the markers happen to stand (the catalogue
                # rewrite is fire-and-forget and may land after the acknowledgement or after the next operation has started): the cut lies
                # after "unlink log_x, create log_x" of the SAME file name and before the next write of the catalogue file, and the
                # recovered log steps back right after the new pointer
                if prop == "C04" and clause == "log-not-contiguous" and isinstance(detail, dict) and detail.get("prev", 0) > detail.get("at", 0) and pointer_file_reused_before_catalogue(recs, k):
                    sig = "log-not-contiguous/pointer-file-reused-before-catalogue-rewrite"
                key = (prop, sig)
                if key in seen_sigs:
                    continue
                seen_sigs.add(key)
                res["violations"].append({"property": prop, "signature": sig, "witness": {
                    "history_seed": seed, "profile": profile, "n_ops": n_ops, "journal_prefix": k + 1, "of": len(recs), "clause": clause, "detail": detail, "last_mutation_kind": last_mut_kind,
                    "markers_tail": markers[-4:], "mutations_tail": [list(x[:3]) if x[0] != "W" else [x[0], x[1], x[2], len(x[3])] for x in recs[max(0, k - 5):k + 1] if x[0] != "M"],
                    "ops_tail": [table[int(m.split()[1])][0] if len(json.dumps(table[int(m.split()[1])][0])) < 300 else {"op": table[int(m.split()[1])][0]["op"]} for m in markers[-3:] if m[0] == "S"]}})
        if len(ops) < 25:
            res["sample"] = ops
        return res
    finally:
        shutil.rmtree(hwd, ignore_errors=True)



def pointer_file_reused_before_catalogue(recs, k):
    """True when journal prefix recs[:k+1] ends inside the window 'unlink f; create f (same name); ... ' with no write of the
    catalogue file ("index") after the re-creation"""
    unlinked = set()
    open_window = None
    for x in recs[:k + 1]:
        if x[0] == "U":
            unlinked.add(x[1])
        elif x[0] == "C" and x[1] in unlinked and x[1].startswith("log_"):
            open_window = x[1]
        elif x[0] == "W" and x[1] == "index" and not (x[2] == 0 and len(x[3]) <= 8):
            # (the 8-byte write at offset 0 is the last-applied index, not the catalogue)
            open_window = None
            unlinked.clear()
    return open_window is not None


def rollover_history(args):
    """fill a log file (2027 index entries) so that the store rolls over to the next file; crash images are taken densely
    around every catalogue rewrite / file creation / set_len of the second half of the journal"""
    wd, seed, which = args
    rnd = random.Random(seed)
    hwd = os.path.join(wd, "ro%d" % seed)
    os.makedirs(hwd, exist_ok=True)
    res = {"seed": seed, "profile": "rollover", "images": 0, "distinct_images": 0, "mutations": 0, "violations": [], "windows": {}, "features": ["rollover"]}
    try:
        ops = [{"op": "save_hard_state", "term": 1, "voted_for": 1}, {"op": "save_member", "members": [1], "addrs": {"1": "127.0.0.1:9848"}}]
        idx = 0
        bsz = rnd.choice([100, 128, 300])
        while idx < 259456 + 400:
            ops.append({"op": "batch", "entries": [[idx + j + 1, 1, 0, crashrig.BLANK] for j in range(bsz)]})
            idx += bsz
        ops.append({"op": "save_hard_state", "term": 2, "voted_for": 1})
        ops.append({"op": "append", "index": idx + 1, "term": 2, "uid": 77, "len": 40})
        try:
            recs, table = crashrig.run_journaled(hwd, ops)
        except crashrig.SessionDied as e:
            res["inconclusive"] = "live session died: %s" % e
            return res
        kinds = crashrig.windows(recs)
        res["mutations"] = sum(1 for r in recs if r[0] != "M")
        hot = [k for k, kd in enumerate(kinds) if k > 200 and (kd.startswith(("create:", "unlink:", "set-len", "index-record")))]
        focus = set()
        for k in hot:
            focus.update(range(max(0, k - 25), min(len(recs), k + 26)))
        focus.update(range(max(0, len(recs) - 30), len(recs)))
        res["focus_windows"] = len(hot)
        img = crashrig.Image()
        markers = []
        cache = {}
        idir = os.path.join(hwd, "img")
        seen = set()
        last_mut_kind = "start"
        for k, rec in enumerate(recs):
            if rec[0] == "M":
                markers.append(rec[1])
            else:
                img.apply(rec)
                last_mut_kind = kinds[k]
            if k not in focus:
                continue
            dg = img.digest()
            if dg not in cache:
                img.materialise(idir)
                cache[dg] = crashrig.recover(idir, tail=900)
                res["distinct_images"] += 1
            r = cache[dg]
            res["images"] += 1
            res["windows"]["rollover:" + last_mut_kind] = res["windows"].get("rollover:" + last_mut_kind, 0) + 1
            found = [("C04",) + x for x in crashrig.check_image(table, markers, r)] + [("C04",) + x for x in crashrig.check_applied(table, markers, r)] + [("C05",) + x for x in crashrig.check_meta(table, markers, r)]
            for prop, clause, detail in found:
                sig = "%s/rollover/after:%s" % (clause, last_mut_kind)
                if (prop, sig) in seen:
                    continue
                seen.add((prop, sig))
                res["violations"].append({"property": prop, "signature": sig, "witness": {"history_seed": seed, "profile": "rollover", "journal_prefix": k + 1, "of": len(recs), "clause": clause, "detail": detail, "markers_tail": markers[-4:]}})
        return res
    finally:
        shutil.rmtree(hwd, ignore_errors=True)


def drive(pid, tier, seed, which, profile_mix, rule, extra_part=None):
    common.build()
    crashrig.build_shim()
    wd = common.workdir(pid.lower())
    out = Outcome(pid, tier, seed, level="fault_enumeration")
    out.rule = rule
    try:
        n_hist = 32 if tier == "quick" else 320
        jobs = []
        for i in range(n_hist):
            profile = profile_mix[i % len(profile_mix)]
            jobs.append((wd, seed * 100000 + i + (5000 if pid == "C05" else 0), [10, 18, 30][i % 3], profile, 1, which))
        n_roll = (0 if tier == "quick" else 6) if pid == "C04" else 0   # a roll-over history costs ~2 min: thorough only
        with ThreadPoolExecutor(max_workers=common.NCPU) as ex:
            rf = [ex.submit(rollover_history, (wd, seed * 100000 + 70000 + i, which)) for i in range(n_roll)]
            results = list(ex.map(enumerate_history, jobs)) + [f.result() for f in rf]
        agg = {"crash_images_evaluated": 0, "distinct_directory_images_recovered": 0, "file_mutations_journaled": 0, "window_histogram": {}}
        for r in results:
            if "inconclusive" in r:
                out.extra.setdefault("inconclusive_subruns", []).append(r["inconclusive"][:300])
                continue
            out.evaluations += r["images"]
            agg["crash_images_evaluated"] += r["images"]
            agg["distinct_directory_images_recovered"] += r["distinct_images"]
            agg["file_mutations_journaled"] += r["mutations"]
            agg["continuations_after_recovery"] = agg.get("continuations_after_recovery", 0) + r.get("continuations", 0)
            for k, v in r["windows"].items():
                agg["window_histogram"][k] = agg["window_histogram"].get(k, 0) + v
                out.shape("%s/%s" % (k, "+".join(f for f in r["features"] if f in ("truncate", "snapshot+pointer", "reopen")) or "plain"))
            for v in r["violations"]:
                if v["property"] == pid:
                    out.violation(v["signature"], v["witness"])
            if "sample" in r and len(out.samples) < 2:
                out.samples.append({"history_seed": r["seed"], "ops": r["sample"], "images": r["images"]})
        if not out.samples:
            out.samples.append({"note": "histories are longer than 25 ops", "example_seed": results[0]["seed"], "images": results[0]["images"]})
        out.extra.update(agg)
        if extra_part is not None:
            extra_part(out, wd, seed, tier)
        out.exhaustive = True
        out.extra["exhaustive_scope"] = "every prefix of the journal of file mutations (write, set_len, unlink, create, rename) of each explored history, marker positions included"
        out.min_nontrivial = 8
        out.assumptions = ["crash model of the property: process death, each write call atomic, applied in the order the interposer saw them",
                           "an acknowledged delete_logs_from is performed by the log actor later (fire-and-forget): it is required only once a later log write has been acknowledged",
                           "entries at or below a submitted compaction pointer may be absent"]
        return out.finish()
    finally:
        shutil.rmtree(wd, ignore_errors=True)


def run(tier, seed):
    rule = ("seeded store-layer histories (appends, batches, truncations, hard-state / membership / address saves, last-applied saves, snapshot "
            "build + compaction pointer, reopen) executed by the real FileStore actor chain under an LD_PRELOAD write-journal interposer that also "
            "orders the session's SUBMIT/ACK markers; for EVERY prefix of the journal the directory image is materialised and opened by a fresh "
            "process running the real recovery code; oracle: recovery succeeds, log contiguous, only submitted entries, every acknowledged entry "
            "present (unless behind an acknowledged cut / below a pointer), last-applied <= max(log end, snapshot end). non-trivial image = image "
            "after a file mutation or marker; distinct = (kind of the last mutation before the cut, history feature set)")
    import c04_install
    rule += ("; complete-node part: a follower (complete node under the interposer, fresh or holding a log prefix) is handed a leader's snapshot "
             "through create_snapshot / finalize_snapshot_installation and then the entries behind it; every prefix of that window's file mutations "
             "is restarted by a fresh node: it must start, serve the old or the snapshot state (never a mixture), with matching membership, a "
             "reproducible applied index, a contiguous log, never the old state under a log that ends behind the snapshot, and the leader's next "
             "steps (snapshot again if needed, then the entries) must lead to the leader's final state, also after one more restart")
    return drive("C04", tier, seed, "C04", ["mixed", "snap", "meta", "cutidx"], rule, extra_part=c04_install.part)


def replay(path):
    w = json.load(open(path))
    print(json.dumps(w, indent=1)[:4000])
    common.build()
    wd = common.workdir("c04r")
    try:
        wt = w["witness"]
        r = enumerate_history((wd, wt["history_seed"], wt.get("n_ops", 18), wt.get("profile", "mixed"), 1, "both"))
        hit = [v for v in r["violations"] if v["signature"] == w["signature"]]
        print(json.dumps(hit[:1], indent=1)[:2000])
        if hit:
            print("VIOLATION property=%s replay=%s" % (w.get("property", "C04"), path))
            return 1
        return 0
    finally:
        shutil.rmtree(wd, ignore_errors=True)
