"""C06 — Cluster: acknowledged config writes are never lost; all nodes converge (safety + bounded progress, B = 30 s).

Rig B: 3 real `rnacos` processes (procrig.Cluster), small RNACOS_RAFT_SNAPSHOT_LOG_SIZE so that compaction happens during the run,
12 concurrent clients (3 gRPC + 9 HTTP, three of them pinned to one node each; through leader and followers), a seeded nemesis (kill -9 / restart, SIGSTOP / SIGCONT of the
leader, of one follower, of both followers, kill of the leader while the followers are stopped; directed node-to-node links held and released:
the leader's links to both followers, the leader's link to one follower, one follower's link to the leader), a metrics poller per node
(/nacos/v1/raft/metrics every 0.1 s: role / term / leader time line).  Every client call is recorded at the client boundary
{i, proc, op, key, value, node, via, t_call, t_ret, res} with one monotonic clock; res = ok (acknowledged) | fail (answered with an
error) | indet (time-out / connection error).  Only `ok` operations bind the oracle; everything else stays open for ever.

Afterwards: heal (SIGCONT, restart dead nodes), wait for convergence (poll every second, bound B), read every key and every append
key's change history (console API `/rnacos/api/console/config/history`) from every node.  The oracle `check_history` works offline
on the recorded history (it is what `replay` re-runs on a saved witness).

Signatures
  acked-write-lost/acker=<A>/fault=<F>               oracle (2)/(4a): an acknowledged write is, on every node, neither the final content nor superseded
        by an operation that is not real-time-before it / is missing in every node's change history
  acked-write-on-some-nodes-only/acker=<A>/fault=<F>   oracle (4a)+(4b): an acknowledged publish is in the change history of some nodes, missing on others
     A = who decided (the addressed node if it was leader, else the leader it knew and routed to), from the metrics time line (0.1 s):
        bootstrap-leader      regime 1: the node that initialised the cluster, leader in the SAME term ever since, around the whole call
                              (async-raft-ext keeps the joined members as non-voters in that leader's table: it commits alone)
        elected-leader        regime 2: a leader elected later, leader in one term around the whole call
        not-leader-at-answer  the deciding node was not (or no longer) leader when the success answer was given: deposed while the write
                              was in flight, restarted, or a stale leader address (errors of client_write are dropped with .ok())
     F = class of the nemesis fault closest to the write (overlapping it, else starting <= 2 s after the answer, else the last one before):
        leader (SIGSTOP / kill -9 of the leader, also while the followers are stopped) | followers (both followers SIGSTOPped)
        | follower (one follower stopped / killed / restarted) | none;   the exact kind is in the witness (near_fault)
  acked-without-quorum/acker=<bootstrap-leader|elected-leader>   oracle (5): a write addressed to the leader >= 0.3 s after both followers
        were SIGSTOPped was acknowledged before the first SIGCONT (regime 2 control: such writes wait / time out)
  unacked-write-on-some-nodes-only                   oracle (4b): the same for a publish that was not acknowledged
  nodes-differ/<content|temporary-value-stuck-on-routing-follower|history-order-or-ids>          oracle (1)/(4b) after the convergence wait
  not-converged-within-30s/<no-single-leader|node-unreachable|contents-still-changing>            oracle (1), bounded progress
  raft-core-shut-down/<message>                      oracle (1): a node's log shows `fatal storage error, shutting down` of the raft core (the process
        keeps serving its frozen state and never takes part in an election again)
  read-of-unwritten-value                            oracle (3)
  append-history/<order-contradicts-real-time|ids-not-increasing|unwritten-value|duplicate-entry|unreadable>    oracle (4c,4d)
  node-state-differs-after-snapshot-install          the differing node received an InstallSnapshot stream during the run (root cause shared with
        C08: the snapshot's records are never loaded); such a node is compared with the others under this signature only
  single-node/acked-early-publish-not-served | single-node/publish-refused-after-start-up
"""
import json
import os
import random
import shutil
import threading
import time
from concurrent.futures import ThreadPoolExecutor

import common
import grpcrig
import procrig
from common import Inconclusive, Outcome

B = 30.0
CLIENT_TIMEOUT = 10.0
GROUP = "c06"
REG_KEYS = ["r%d" % i for i in range(4)]
APPEND_KEYS = ["a%02d" % i for i in range(16)]
APPEND_MAX = 90
N_CLIENTS = 12
N_GRPC_CLIENTS = 3
N_PINNED = 3          # HTTP clients that always talk to the same node (one per node): keep writing to a leader whose followers are stopped
NEAR_S = 2.0
INF = float("inf")
now = time.monotonic


def install_local_findings():
    """accept <verif>/known_findings.local.json next to the committed file (helper-agent clones; harmless when absent)"""
    p = os.path.join(common.VERIF, "known_findings.local.json")
    if not os.path.exists(p) or getattr(common, "_local_findings_installed", False):
        return
    base = common.load_findings

    def merged():
        d = base()
        try:
            loc = json.load(open(p))
        except ValueError:
            return d
        return {"known": list(d.get("known", [])) + list(loc.get("known", [])), "fixed": list(d.get("fixed", [])) + list(loc.get("fixed", []))}

    common.load_findings = merged
    common._local_findings_installed = True


# ------------------------------------------------------------------------------------------------------------------ recording
class Recorder:
    def __init__(self):
        self.lock = threading.Lock()
        self.ops = []
        self.faults = []
        self.timeline = []       # [t, node, state, term, leader, last_log_index, last_applied] or [t, node, None...]
        self.events = []         # [t, what, node]

    def begin(self, proc, op, key, value, node, via):
        rec = {"proc": proc, "op": op, "key": key, "value": value, "node": node, "via": via, "t_call": now(), "t_ret": None, "res": "indet"}
        with self.lock:
            rec["i"] = len(self.ops)
            self.ops.append(rec)
        return rec

    @staticmethod
    def end(rec, res, detail=None, read=None):
        if read is not None:
            rec["read"] = read
        if detail:
            rec["detail"] = str(detail)[:160]
        rec["res"] = res
        rec["t_ret"] = now()

    def event(self, what, node=None):
        with self.lock:
            self.events.append([round(now(), 4), what, node])

    def sample(self, node, m):
        t = round(now(), 3)
        with self.lock:
            if m:
                self.timeline.append([t, node, m.get("state"), m.get("current_term"), m.get("current_leader"), m.get("last_log_index"), m.get("last_applied")])
            else:
                self.timeline.append([t, node, None, None, None, None, None])


# ------------------------------------------------------------------------------------------------------------------ one cluster
class ClusterRun:
    def __init__(self, wd, name, seed, snap, schedule_s, first_change=None):
        self.wd = os.path.join(wd, name)
        os.makedirs(self.wd, exist_ok=True)
        self.name, self.seed, self.snap, self.schedule_s = name, seed, snap, schedule_s
        self.first_change = first_change
        self.rnd = random.Random(seed)
        self.rec = Recorder()
        self.cluster = None
        self.stop_clients = threading.Event()
        self.stop_poll = threading.Event()
        self.append_budget = {k: APPEND_MAX for k in APPEND_KEYS}
        self.block = threading.Lock()
        self.log_off = {}
        self.grpcs = []
        self.notes = []
        self.boot = None
        self.tokens = {}

    # ---- node helpers
    def node(self, nid):
        return self.cluster.nodes[nid - 1]

    def start_node(self, nd, wait=True):
        try:
            self.log_off[nd.id] = os.path.getsize(nd.log_path)
        except OSError:
            self.log_off[nd.id] = 0
        self.tokens.pop(nd.id, None)
        nd.start(wait=wait, timeout=40)
        self.rec.event("start", nd.id)

    def installed_snapshot(self, nd):
        """did this node receive a snapshot (InstallSnapshot stream) at any time during the run? read from its own log.
        (C08: the records of an installed snapshot are never loaded and the node's next own compaction makes the loss permanent)"""
        try:
            with open(nd.log_path, "rb") as f:
                return f.read().count(b"filestore create_snapshot")
        except OSError:
            return 0

    def fatal_lines(self, nd):
        """distinct `fatal storage error` messages of the raft core in this node's log (the core shuts down, the process keeps serving)"""
        out = []
        try:
            with open(nd.log_path, "rb") as f:
                for line in f:
                    if b"fatal storage error" in line:
                        msg = line.decode("utf-8", "replace").split("error=", 1)[-1].split(" id=")[0].strip()
                        if msg not in out:
                            out.append(msg)
        except OSError:
            pass
        return out[:5]

    def roles(self):
        out = {}
        for nd in self.cluster.nodes:
            m = nd.metrics() if nd.alive() and not nd.stopped else None
            out[nd.id] = (m or {}).get("state") if m else ("stopped" if nd.alive() else "dead")
        return out

    def find_leader(self, wait=12.0):
        t0 = now()
        while now() - t0 < wait:
            ld = [nd for nd in self.cluster.nodes if nd.alive() and not nd.stopped and (nd.metrics() or {}).get("state") == "Leader"]
            if len(ld) == 1:
                # a leader that is really followed by at least one other live node
                for o in self.cluster.nodes:
                    if o is not ld[0] and o.alive() and not o.stopped and (o.metrics() or {}).get("current_leader") == ld[0].id:
                        return ld[0]
            time.sleep(0.3)
        return None

    # ---- clients
    def pick_append(self, rnd):
        with self.block:
            ks = [k for k, v in self.append_budget.items() if v > 0]
            if not ks:
                return None
            k = rnd.choice(ks)
            self.append_budget[k] -= 1
            return k

    def http_op(self, rec, nd):
        key, op = rec["key"], rec["op"]
        try:
            if op == "pub":
                r = nd.post("/nacos/v1/cs/configs", form={"dataId": key, "group": GROUP, "content": rec["value"]}, timeout=CLIENT_TIMEOUT)
                if r.status == 200 and r.text().strip() == "true":
                    return self.rec.end(rec, "ok")
                return self.rec.end(rec, "fail", "%s %s" % (r.status, r.text()[:100]))
            if op == "rm":
                r = nd.delete("/nacos/v1/cs/configs", params={"dataId": key, "group": GROUP}, timeout=CLIENT_TIMEOUT)
                if r.status == 200 and r.text().strip() == "true":
                    return self.rec.end(rec, "ok")
                return self.rec.end(rec, "fail", "%s %s" % (r.status, r.text()[:100]))
            r = nd.get("/nacos/v1/cs/configs", params={"dataId": key, "group": GROUP}, timeout=CLIENT_TIMEOUT)
            if r.status == 200:
                return self.rec.end(rec, "ok", read=r.text())
            if r.status == 404 and "not exist" in r.text():
                return self.rec.end(rec, "ok", read=None)
            return self.rec.end(rec, "fail", "%s %s" % (r.status, r.text()[:100]))
        except (OSError, procrig.httpclient.HTTPException) as e:
            return self.rec.end(rec, "indet", type(e).__name__)

    def grpc_conn(self, st, nd):
        """open (once) the bi-stream of this client to this node; None when it cannot be opened now"""
        if st.get("g") is None:
            st["g"] = grpcrig.GrpcClient(nd.grpc_addr, self.wd, name="grpcc-%s" % st["proc"])
            st["conns"] = set()
            with self.block:
                self.grpcs.append(st["g"])
        cn = "n%d" % nd.id
        if cn in st["conns"]:
            return cn
        try:
            r = st["g"].cmd("open_stream", timeout=25, conn=cn, addr=nd.grpc_addr, report=[])
        except Inconclusive:
            self.drop_grpc(st)
            return None
        if r.get("ok") and r.get("registered"):
            st["conns"].add(cn)
            return cn
        try:
            st["g"].cmd("disconnect", timeout=5, conn=cn)
        except Inconclusive:
            self.drop_grpc(st)
        return None

    def drop_grpc(self, st):
        g = st.get("g")
        st["g"] = None
        if g is not None:
            try:
                g.stop(abrupt=True)
            except Exception:
                pass

    def grpc_op(self, rec, nd, st, cn):
        key, op = rec["key"], rec["op"]
        body = {"dataId": key, "group": GROUP, "tenant": ""}
        rtype = {"pub": "ConfigPublishRequest", "rm": "ConfigRemoveRequest", "get": "ConfigQueryRequest"}[op]
        if op == "pub":
            body["content"] = rec["value"]
        try:
            r = st["g"].request(cn, rtype, body, timeout_ms=int(CLIENT_TIMEOUT * 1000))
        except Inconclusive as e:
            self.rec.end(rec, "indet", "grpc-client: %s" % e)
            self.drop_grpc(st)
            return
        if not r.get("ok"):
            self.rec.end(rec, "indet", r.get("error"))
            st["conns"].discard(cn)
            try:
                st["g"].cmd("disconnect", timeout=5, conn=cn)
            except Inconclusive:
                self.drop_grpc(st)
            return
        if r.get("error_code") == 301:    # connection unknown to a restarted server: refused before any processing
            self.rec.end(rec, "fail", "301 unregistered")
            st["conns"].discard(cn)
            try:
                st["g"].cmd("disconnect", timeout=5, conn=cn)
            except Inconclusive:
                self.drop_grpc(st)
            return
        if op == "get":
            b = r.get("body") or {}
            if r.get("result_code") == 200 and r.get("type") == "ConfigQueryResponse":
                return self.rec.end(rec, "ok", read=b.get("content"))
            if b.get("errorCode") == 300:
                return self.rec.end(rec, "ok", read=None)
            return self.rec.end(rec, "fail", "%s %s" % (r.get("type"), r.get("message")))
        want = "ConfigPublishResponse" if op == "pub" else "ConfigRemoveResponse"
        if r.get("result_code") == 200 and r.get("type") == want:
            return self.rec.end(rec, "ok")
        self.rec.end(rec, "fail", "%s %s %s" % (r.get("type"), r.get("result_code"), r.get("message")))

    def client(self, cid, via, pinned=None):
        rnd = random.Random(self.seed * 1000 + cid)
        proc = "c%d" % cid
        st = {"proc": proc, "g": None, "conns": set()}
        n = 0
        try:
            while not self.stop_clients.is_set():
                nd = self.node(pinned) if pinned else rnd.choice(self.cluster.nodes)
                x = rnd.random()
                if x < 0.22:
                    op, key = "get", rnd.choice(REG_KEYS + APPEND_KEYS)
                elif x < 0.52:
                    op, key = "pub", self.pick_append(rnd)
                    if key is None:
                        op, key = "pub", rnd.choice(REG_KEYS)
                elif x < 0.9:
                    op, key = "pub", rnd.choice(REG_KEYS)
                else:
                    op, key = "rm", rnd.choice(REG_KEYS)
                value = None
                if op == "pub":
                    n += 1
                    value = "%s%s-%d" % (self.name, proc, n)
                if via == "grpc":
                    cn = self.grpc_conn(st, nd)
                    if cn is None:
                        if op == "pub" and key in self.append_budget:
                            with self.block:
                                self.append_budget[key] += 1
                        time.sleep(0.2)
                        continue
                    rec = self.rec.begin(proc, op, key, value, nd.id, via)
                    self.grpc_op(rec, nd, st, cn)
                else:
                    rec = self.rec.begin(proc, op, key, value, nd.id, via)
                    self.http_op(rec, nd)
                time.sleep(rnd.uniform(0.1, 0.4))
        finally:
            self.drop_grpc(st)

    def poller(self, nd):
        while not self.stop_poll.is_set():
            m = None
            if nd.alive():
                try:
                    r = procrig.http(nd.http_port, "GET", "/nacos/v1/raft/metrics", timeout=1.0)
                    m = r.json() if r.status == 200 else None
                except (OSError, procrig.httpclient.HTTPException):
                    m = None
            self.rec.sample(nd.id, m)
            self.stop_poll.wait(0.1)

    # ---- nemesis
    def fault(self, kind, victims, roles, t0, t1, **kw):
        f = {"kind": kind, "victims": victims, "roles": roles, "t0": t0, "t1": t1}
        f.update(kw)
        self.rec.faults.append(f)

    def make_schedule(self):
        """seeded list of steps; victims are resolved by role when the step runs"""
        rnd = self.rnd
        S = []
        S.append(("pause", rnd.uniform(3.0, 5.0)))
        # regime 1: the bootstrap leader has never lost leadership
        S.append((rnd.choice(["stop-follower", "kill-follower", "restart-follower"]), rnd.uniform(1.5, 3.5)))
        S.append(("pause", rnd.uniform(2.0, 3.5)))
        first_change = rnd.choice(["followers-then-kill-leader", "followers-then-kill-leader", "followers-resume-then-kill-leader", "followers-resume-then-stop-leader"])
        first_change = self.first_change or first_change
        if first_change == "followers-then-kill-leader":
            S.append(("stop-followers", rnd.uniform(3.0, 5.0), True))
        else:
            S.append(("stop-followers", rnd.uniform(3.0, 5.0), False))
            S.append(("pause", rnd.uniform(2.0, 3.0)))
            S.append(("kill-leader", rnd.uniform(2.0, 5.0)) if "kill" in first_change else ("stop-leader", rnd.uniform(5.5, 8.0)))
        S.append(("pause", rnd.uniform(3.0, 5.0)))
        # regime 2: after the first leader change
        kinds = ["stop-leader", "stop-followers", "kill-leader", "kill-follower", "restart-follower", "stop-follower", "stop-leader", "stop-followers",
                 "stall-leader-out", "stall-follower-link", "stall-follower-requests"]
        rnd.shuffle(kinds)
        for k in kinds:
            if k.startswith("stall-"):
                S.append((k, rnd.uniform(3.0, 6.5)))
            elif k == "stop-leader":
                S.append((k, rnd.uniform(3.0, 8.0)))
            elif k == "stop-followers":
                S.append((k, rnd.uniform(3.0, 6.0), rnd.random() < 0.35))
            elif k == "kill-leader":
                S.append((k, rnd.uniform(1.0, 5.0)))
            else:
                S.append((k, rnd.uniform(1.0, 4.0)))
            S.append(("pause", rnd.uniform(2.5, 5.0)))
        return S

    def run_step(self, step):
        kind = step[0]
        if kind == "pause":
            time.sleep(step[1])
            return
        leader = self.find_leader(12.0)
        roles = self.roles()
        if leader is None:
            self.notes.append("no leader with a follower within 12 s before step %s (roles %s)" % (step, roles))
            time.sleep(2.0)
            return
        followers = [nd for nd in self.cluster.nodes if nd is not leader]
        rnd = self.rnd
        role_of = lambda nds: [roles.get(n.id) for n in nds]
        if kind == "stop-leader":
            t0 = now()
            leader.sigstop()
            self.rec.event("sigstop", leader.id)
            time.sleep(step[1])
            leader.sigcont()
            self.rec.event("sigcont", leader.id)
            self.fault("leader-stopped", [leader.id], role_of([leader]), t0, now())
        elif kind == "kill-leader":
            t0 = now()
            leader.kill()
            self.rec.event("kill", leader.id)
            time.sleep(step[1])
            self.start_node(leader)
            self.fault("leader-killed", [leader.id], role_of([leader]), t0, now())
        elif kind in ("stop-follower", "kill-follower", "restart-follower"):
            v = rnd.choice(followers)
            t0 = now()
            if kind == "stop-follower":
                v.sigstop()
                self.rec.event("sigstop", v.id)
                time.sleep(step[1])
                v.sigcont()
                self.rec.event("sigcont", v.id)
                self.fault("follower-stopped", [v.id], role_of([v]), t0, now())
            elif kind == "kill-follower":
                v.kill()
                self.rec.event("kill", v.id)
                time.sleep(step[1])
                self.start_node(v)
                self.fault("follower-killed", [v.id], role_of([v]), t0, now())
            else:
                v.kill()
                self.rec.event("kill", v.id)
                self.start_node(v)
                self.fault("follower-restarted", [v.id], role_of([v]), t0, now())
        elif kind.startswith("stall-") and self.cluster.fabric is not None:
            # one or two directed node-to-node links are held and then released (bytes delayed, never dropped): leader changes
            # without any process fault, appends / votes / forwarded writes delivered late
            fab = self.cluster.fabric
            if kind == "stall-leader-out":          # the leader's requests reach no follower (and the answers to them are held too)
                links, victims, fk = [(leader.id, v.id) for v in followers], followers, "leader-links-stalled"
            elif kind == "stall-follower-link":     # one follower hears nothing from the leader: it starts elections with higher terms
                v = rnd.choice(followers)
                links, victims, fk = [(leader.id, v.id)], [v], "follower-link-stalled"
            else:                                   # what one follower sends to the leader (forwarded writes, votes) arrives late
                v = rnd.choice(followers)
                links, victims, fk = [(v.id, leader.id)], [v], "follower-requests-stalled"
            t0 = now()
            try:
                for a, b in links:
                    fab.stall(a, b)
                self.rec.event("link-stall:%s" % ",".join("%d>%d" % l for l in links), leader.id)
                time.sleep(step[1])
            finally:
                for a, b in links:
                    fab.release(a, b)
            self.rec.event("link-release:%s" % ",".join("%d>%d" % l for l in links), leader.id)
            self.fault(fk, [x.id for x in victims], role_of(victims), t0, now(), links=links, leader=leader.id)
        elif kind == "stop-followers":
            t0 = now()
            for v in followers:
                v.sigstop()
                self.rec.event("sigstop", v.id)
            time.sleep(step[1])
            tk = None
            if step[2]:
                tk = now()
                leader.kill()
                self.rec.event("kill", leader.id)
            for v in followers:
                v.sigcont()
                self.rec.event("sigcont", v.id)
            t1 = now()
            self.fault("followers-stopped", [v.id for v in followers], role_of(followers), t0, t1)
            if step[2]:
                time.sleep(rnd.uniform(3.0, 6.0))
                self.start_node(leader)
                self.fault("leader-killed-while-followers-stopped", [leader.id], role_of([leader]), tk, now())

    def nemesis(self, schedule):
        t_end = now() + self.schedule_s
        for step in schedule:
            if now() > t_end:
                break
            self.run_step(step)

    # ---- final reads
    def console_token(self, nd):
        tok = self.tokens.get(nd.id)
        if tok:
            return tok
        tok, _ = nd.console_login(wait=5.0)
        self.tokens[nd.id] = tok
        return tok

    def read_node(self, nd, histories=True):
        """{"content": {key: value|None}, "history": {key: [[id, content], ...] oldest first}} or raises OSError"""
        res = {"content": {}, "history": {}}
        for k in REG_KEYS + APPEND_KEYS:
            r = nd.get("/nacos/v1/cs/configs", params={"dataId": k, "group": GROUP}, timeout=5)
            if r.status == 200:
                res["content"][k] = r.text()
            elif r.status == 404:
                res["content"][k] = None
            else:
                res["content"][k] = "<error %s %s>" % (r.status, r.text()[:60])
        if histories:
            tok = self.console_token(nd)
            if not tok:
                res["history_error"] = "console login refused"
                return res
            for k in APPEND_KEYS:
                r = nd.console("GET", "/rnacos/api/console/config/history", tok, params={"dataId": k, "group": GROUP, "pageNo": 1, "pageSize": 1000}, timeout=5)
                j = r.json() if r.status == 200 else None
                if j is None or "list" not in j:
                    self.tokens.pop(nd.id, None)
                    res["history_error"] = "%s %s" % (r.status, r.text()[:80])
                    continue
                res["history"][k] = [[it.get("id"), it.get("content")] for it in reversed(j["list"])]
        return res

    def converge(self, label):
        """poll every second up to B: all nodes reachable, one agreed leader, identical contents of every key on every node, twice in a row.
        returns (seconds | None, reason when not converged, last metrics)"""
        t0 = now()
        prev = None
        reason = "node-unreachable"
        while True:
            ms = {nd.id: nd.metrics() for nd in self.cluster.nodes}
            ok = all(ms.values())
            if ok:
                leaders = {m.get("current_leader") for m in ms.values()}
                if len(leaders) != 1 or None in leaders or sum(1 for m in ms.values() if m.get("state") == "Leader") != 1:
                    ok, reason = False, "no-single-leader"
            if ok:
                try:
                    reads = {nd.id: self.read_node(nd, histories=False)["content"] for nd in self.cluster.nodes}
                    cur = json.dumps(reads, sort_keys=True)
                    if len({json.dumps(v, sort_keys=True) for v in reads.values()}) != 1:
                        reason = "contents-differ"
                    elif cur != prev:
                        reason = "contents-still-changing"
                    else:
                        return now() - t0, None, ms
                    prev = cur
                except (OSError, procrig.httpclient.HTTPException):
                    reason = "node-unreachable"
            else:
                prev = None
            if now() - t0 > B:
                return None, reason, ms
            time.sleep(1.0)

    def final_read(self):
        for attempt in range(3):
            before = {nd.id: (nd.metrics() or {}).get("last_log_index") for nd in self.cluster.nodes}
            reads = {}
            for nd in self.cluster.nodes:
                try:
                    reads[str(nd.id)] = self.read_node(nd)
                except (OSError, procrig.httpclient.HTTPException) as e:
                    reads[str(nd.id)] = {"error": "%s" % type(e).__name__}
            after = {nd.id: (nd.metrics() or {}).get("last_log_index") for nd in self.cluster.nodes}
            if before == after:
                return reads
            time.sleep(1.5)
        return reads

    # ---- the whole run
    def run(self):
        env = {"RNACOS_RAFT_SNAPSHOT_LOG_SIZE": str(self.snap), "RUST_LOG": "warn,rnacos::raft=info", "RNACOS_HTTP_WORKERS": "2"}
        self.cluster = procrig.Cluster(self.wd, 3, env=env, fabric=True)
        threads = []
        hist = {"name": self.name, "seed": self.seed, "snap": self.snap, "passes": []}
        try:
            for nd in self.cluster.nodes:
                self.log_off[nd.id] = 0
            self.cluster.start()
            ld = self.cluster.leader()
            m = ld.metrics() if ld else None
            if not m:
                raise Inconclusive("no leader right after formation")
            self.boot = {"leader": ld.id, "term": m.get("current_term")}
            hist["boot"] = self.boot
            pollers = [threading.Thread(target=self.poller, args=(nd,), daemon=True) for nd in self.cluster.nodes]
            for t in pollers:
                t.start()
            for cid in range(N_CLIENTS):
                via = "grpc" if cid < N_GRPC_CLIENTS else "http"
                pinned = cid - N_GRPC_CLIENTS + 1 if N_GRPC_CLIENTS <= cid < N_GRPC_CLIENTS + N_PINNED else None
                t = threading.Thread(target=self.client, args=(cid, via, pinned), daemon=True)
                t.start()
                threads.append(t)
            schedule = self.make_schedule()
            hist["schedule"] = schedule
            self.nemesis(schedule)
            time.sleep(1.0)
            self.stop_clients.set()
            for t in threads:
                t.join(CLIENT_TIMEOUT + 40)
            if any(t.is_alive() for t in threads):
                raise Inconclusive("a client thread did not end")
            # ---- heal
            if self.cluster.fabric is not None:
                self.cluster.fabric.release()
                hist["link_fabric"] = self.cluster.fabric.stats
            for nd in self.cluster.nodes:
                if nd.alive():
                    nd.sigcont()
                else:
                    self.start_node(nd)
            self.rec.event("healed")
            conv_s, reason, ms = self.converge("final")
            reads = self.final_read()
            snap_nodes = [nd.id for nd in self.cluster.nodes if self.installed_snapshot(nd)]
            if conv_s is None and reason != "contents-differ":
                # keep what the nodes logged last: needed to tell an election livelock from a raft core that has stopped
                hist["log_tails"] = {str(nd.id): [l for l in nd.tail_log(6000).splitlines() if "actix_web" not in l][-25:] for nd in self.cluster.nodes}
            hist["passes"].append({"pass": 1, "converged_after_s": conv_s, "not_converged_reason": reason, "metrics": {str(k): v for k, v in ms.items()},
                                   "reads": reads, "snapshot_installed_during_run": snap_nodes})
            self.stop_poll.set()
            for t in pollers:
                t.join(3)
            hist["fatal_log_lines"] = {str(nd.id): self.fatal_lines(nd) for nd in self.cluster.nodes}
            hist["compactions"] = {str(nd.id): max([int(p.split("_")[1]) for p in os.listdir(nd.dir) if p.startswith("snapshot_") and p.split("_")[1].isdigit()] or [0])
                                   for nd in self.cluster.nodes}
        finally:
            self.stop_clients.set()
            self.stop_poll.set()
            if self.cluster:
                self.cluster.kill_all()
            for g in list(self.grpcs):
                try:
                    g.stop(abrupt=True)
                except Exception:
                    pass
        hist["ops"] = self.rec.ops
        hist["faults"] = self.rec.faults
        hist["timeline"] = compress_timeline(self.rec.timeline)
        hist["events"] = self.rec.events
        hist["notes"] = self.notes
        return hist


def compress_timeline(tl):
    """metrics samples -> spans [t_first, t_last, node, state, term, leader]: consecutive samples of one node with the same (state, term,
    leader); state None = the node did not answer (dead or SIGSTOPped).  Between two spans (<= 0.1 s normally) the state is unknown."""
    out, cur = [], {}
    for s in sorted(tl):
        key = (s[2], s[3], s[4])
        c = cur.get(s[1])
        if c is not None and (c[3], c[4], c[5]) == key:
            c[1] = s[0]
        else:
            c = [s[0], s[0], s[1], s[2], s[3], s[4]]
            cur[s[1]] = c
            out.append(c)
    return out


# ------------------------------------------------------------------------------------------------------------------ oracle (offline)
def t_ret_of(op):
    return op["t_ret"] if op["res"] == "ok" and op["t_ret"] is not None else INF


def spans_of(timeline, node):
    return [x for x in timeline if x[2] == node]


LOOKAHEAD_S = 0.35


def acker_of(hist, op):
    """(bootstrap-leader yes|no, leadership held|changed|unknown, leader id) of the node that decided about `op`: the addressed node if it
    was leader when it started processing the request, else the leader it knew then (requests are routed to it).  Read from the metrics
    spans (0.1 s sampling).  `held` = the deciding node has a Leader span that began before the decision and either covers the answer or is
    followed by no contrary evidence (a span of the same process with another state / term beginning up to 0.35 s after the answer); a
    kill / restart of it between decision and answer = changed.  Decisions taken inside a sampling gap are judged by the older span."""
    tl, boot, events = hist["timeline"], hist.get("boot") or {}, hist.get("events") or []
    tc = op["t_call"]
    tr = op["t_ret"] if op["t_ret"] is not None else tc
    # the routing decision is taken when the addressed node starts processing: at the call, or when it is resumed if it was SIGSTOPped then
    td = tc
    stops = [e for e in events if e[2] == op["node"] and e[1] in ("sigstop", "sigcont") and e[0] <= tr]
    before_call = [e for e in stops if e[0] <= tc]
    if before_call and before_call[-1][1] == "sigstop":
        conts = [e[0] for e in stops if e[1] == "sigcont" and e[0] > tc]
        td = conts[0] if conts else tr
    own = [x for x in spans_of(tl, op["node"]) if x[3] is not None and x[0] <= td]
    if not own:
        return "no", "unknown", None
    view = own[-1]
    leader = op["node"] if view[3] == "Leader" else view[5]
    if leader is None:
        # the view is sampled every 0.1 s: a node that learnt its leader between the last sample and the call shows it in the next one
        nxt = [x for x in spans_of(tl, op["node"]) if x[3] is not None and td < x[0] <= td + LOOKAHEAD_S and (x[3] == "Leader" or x[5] is not None)]
        if nxt:
            view = nxt[0]
            leader = op["node"] if view[3] == "Leader" else view[5]
    if leader is None:
        return "no", "changed", None            # the addressed node knew no leader and still answered with success
    ls = spans_of(tl, leader)
    # the addressed node's own view (term T, leader L) is evidence that L was leader of term T when the view was sampled, even if
    # the poller of L itself caught L's Leader state a few tens of milliseconds later (one sampling period)
    lead = [x for x in ls if x[3] == "Leader" and (x[0] <= td or (view[3] != "Leader" and x[4] == view[4] and x[0] <= td + LOOKAHEAD_S))]
    if not lead:
        return "no", "changed", leader
    S = lead[-1]
    is_boot = leader == boot.get("leader") and S[4] == boot.get("term")
    yes = "yes" if is_boot else "no"
    if any(x[3] is not None and x is not S and S[0] < x[0] <= td for x in ls):
        return yes, "changed", leader           # it had already been seen in another state before the decision
    if any(e[1] in ("kill", "start") and e[2] == leader and S[0] <= e[0] <= tr for e in events):
        return yes, "changed", leader
    if S[1] >= tr:
        return yes, "held", leader
    t_cut = min([e[0] for e in events if e[1] in ("kill", "start") and e[2] == leader and e[0] > tr] or [INF])
    contrary = [x for x in ls if x[3] is not None and S[1] < x[0] <= min(tr + LOOKAHEAD_S, t_cut) and (x[3], x[4]) != ("Leader", S[4])]
    return yes, ("changed" if contrary else "held"), leader


FAULT_PRIO = ["leader-killed-while-followers-stopped", "followers-stopped", "leader-stopped", "leader-killed", "leader-links-stalled", "follower-killed", "follower-restarted",
              "follower-stopped", "follower-link-stalled", "follower-requests-stalled"]


def near_fault(hist, op):
    """kind of the fault closest to the operation: overlapping its call..answer interval, else starting <= 2 s after the answer, else the
    last fault that ended before the call (leaderless periods of > 10 s after a fault were observed)"""
    tc = op["t_call"]
    tr = op["t_ret"] if op["t_ret"] is not None else tc + CLIENT_TIMEOUT
    over, before, after = [], [], []
    for f in hist["faults"]:
        if f["t0"] <= tr and tc <= f["t1"]:
            over.append(f["kind"])
        elif 0 <= f["t0"] - tr <= NEAR_S:
            before.append(f["kind"])
        elif f["t1"] <= tc:
            after.append((f["t1"], f["kind"]))
    for l in (over, before):
        if l:
            return sorted(l, key=FAULT_PRIO.index)[0]
    if after:
        return max(after)[1]
    return "none"


FAULT_CLASS = {"leader-killed-while-followers-stopped": "leader", "leader-stopped": "leader", "leader-killed": "leader", "followers-stopped": "followers",
               "follower-stopped": "follower", "follower-killed": "follower", "follower-restarted": "follower", "none": "none",
               # link stalls are classed by the role of the node they cut off (the exact kind is in the witness)
               "leader-links-stalled": "leader", "follower-link-stalled": "follower", "follower-requests-stalled": "follower"}


def lost_sig(hist, op, symptom="acked-write-lost", on_majority=False):
    """symptom / who acknowledged (the regime) / class of the fault around the write.
    on_majority: the write is served by a majority of the nodes, i.e. it WAS committed, whatever happened to the deciding leader a few
    milliseconds after its answer; the class "not-leader-at-answer" (success answered without a commit) does not apply then and the
    write is attributed to the regime of the leader that decided it (what is missing on the minority is the dependency's apply loss)"""
    boot, held, leader = acker_of(hist, op)
    if on_majority and leader is not None:
        held = "held"
    acker = "not-leader-at-answer" if held != "held" else "bootstrap-leader" if boot == "yes" else "elected-leader"
    nf = near_fault(hist, op)
    return "%s/acker=%s/fault=%s" % (symptom, acker, FAULT_CLASS[nf]), {"acking_leader": leader, "bootstrap_leader": boot, "leadership": held, "near_fault": nf}


def no_quorum_acks(hist):
    """writes addressed to the leader, called >= 0.3 s after both followers were stopped: acknowledged before the first SIGCONT (violations),
    versus not acknowledged inside the window (the control: the request waits for the quorum)"""
    out = {"acked": [], "waited": {"bootstrap-leader": 0, "elected-leader": 0}}
    events = hist.get("events") or []
    for f in hist["faults"]:
        if f["kind"] not in ("followers-stopped", "leader-links-stalled"):
            continue
        leader = ({1, 2, 3} - set(f["victims"])).pop()
        # links held: nothing the leader sends reaches a follower before the release (f.t1), so no quorum can answer before it
        conts = [e[0] for e in events if e[1] == "sigcont" and e[2] in f["victims"] and e[0] >= f["t0"]] if f["kind"] == "followers-stopped" else []
        kills = [e[0] for e in events if e[1] == "kill" and e[2] == leader and e[0] >= f["t0"]]
        t_end = min(conts + [f["t1"]])
        for o in hist["ops"]:
            if o["op"] == "get" or o["node"] != leader or o["t_call"] < f["t0"] + 0.3 or o["t_call"] > t_end - 0.1:
                continue
            boot, held, ld = acker_of(hist, o)
            regime = "bootstrap-leader" if boot == "yes" else "elected-leader"
            if o["res"] == "ok" and o["t_ret"] < t_end - 0.02:
                if ld == leader and held == "held":
                    out["acked"].append((o, regime))
            elif ld == leader and (o["t_ret"] is None or o["t_ret"] >= t_end - 0.02) and not (kills and kills[0] < t_end and o["res"] != "ok"):
                out["waited"][regime] += 1
    return out


def check_history(hist, pass_index=None):
    """returns [(signature, witness)] — pure function of the recorded history"""
    V = []
    ops = hist["ops"]
    by_key, by_value = {}, {}
    for o in ops:
        by_key.setdefault(o["key"], []).append(o)
        if o["op"] == "pub":
            by_value[o["value"]] = o
    ctx = {"cluster": hist["name"], "seed": hist["seed"], "snap": hist["snap"], "boot": hist.get("boot"), "faults": hist["faults"],
           "timeline": hist["timeline"], "events": hist.get("events"), "schedule": hist.get("schedule")}

    def wit(key, extra):
        w = {"key": key, "ops_on_key": [o for o in by_key.get(key, []) if o["op"] != "get"][-400:]}
        w.update(extra)
        w.update(ctx)
        return w

    # (3) reads
    for o in ops:
        if o["op"] == "get" and o["res"] == "ok" and o.get("read") is not None:
            w = by_value.get(o["read"])
            if w is None or w["key"] != o["key"] or not (w["t_call"] < o["t_ret"]):
                V.append(("read-of-unwritten-value", wit(o["key"], {"read": o, "writer": w})))
    # (5) "a request that could not be committed is answered with an error, not with success": a write that the leader received AND
    # acknowledged strictly inside a window in which both followers were SIGSTOPped cannot have been seen by a quorum
    for o, regime in no_quorum_acks(hist)["acked"]:
        V.append(("acked-without-quorum/acker=%s" % regime, wit(o["key"], {"acked": o, "clause": "(5) acknowledged while both followers were SIGSTOPped"})))
    # (1) a node whose raft core has shut down after a fatal storage error can never converge again
    for n, msgs in sorted((hist.get("fatal_log_lines") or {}).items()):
        for m in msgs:
            slug = "".join(c if c.isalnum() else "-" for c in m.lower()).strip("-")[:60]
            V.append(("raft-core-shut-down/%s" % slug, dict(ctx, node=n, message=m, final_metrics=(hist["passes"][0]["metrics"] if hist["passes"] else None))))
    passes = hist["passes"] if pass_index is None else [hist["passes"][pass_index]]
    for p in passes:
        snap_nodes = set(p.get("snapshot_installed_during_run") or [])
        tag = "final-read"
        # (1) bounded progress
        if p["converged_after_s"] is None and p["not_converged_reason"] in ("no-single-leader", "node-unreachable", "contents-still-changing"):
            # ("contents-differ" after B is reported per key below, by the final read)
            V.append(("not-converged-within-30s/%s" % p["not_converged_reason"], dict(ctx, metrics=p["metrics"], log_tails=hist.get("log_tails"), when=tag)))
        reads = p["reads"]
        bad = [n for n, r in reads.items() if "error" in r]
        if bad:
            V.append(("not-converged-within-30s/node-unreachable", dict(ctx, nodes=bad, when=tag)))
        nodes = [n for n in sorted(reads) if "error" not in reads[n]]
        judged = [n for n in nodes if int(n) not in snap_nodes]
        # nodes caught up by snapshot install: differential against the other nodes only
        for n in nodes:
            if int(n) in snap_nodes and judged:
                ref = reads[judged[0]]
                missing = [k for k in ref["content"] if ref["content"][k] is not None and reads[n]["content"].get(k) is None]
                differs = [k for k in ref["content"] if ref["content"][k] != reads[n]["content"].get(k) and k not in missing]
                hd = [k for k in ref.get("history", {}) if ref["history"][k] != reads[n].get("history", {}).get(k)]
                if missing or differs or hd:
                    sym = "configs-missing" if missing else "content-differs" if differs else "history-differs"
                    V.append(("node-state-differs-after-snapshot-install",
                              {"node": n, "what": sym, "reference_node": judged[0], "missing_keys": missing[:8], "different_keys": differs[:8], "history_differs": hd[:8],
                               "cluster": hist["name"], "seed": hist["seed"], "snap": hist["snap"], "when": tag}))
        if not judged:
            continue
        for k in REG_KEYS + APPEND_KEYS:
            kops = by_key.get(k, [])
            acked = [o for o in kops if o["op"] in ("pub", "rm") and o["res"] == "ok"]
            vals = {n: reads[n]["content"].get(k) for n in judged}
            if any(isinstance(v, str) and v.startswith("<error") for v in vals.values()):
                V.append(("final-read-failed", {"key": k, "values": vals, "when": tag}))
                continue
            # (1) equality of the contents
            if len(set(vals.values())) > 1:
                # a value that only the follower through which it was written still serves = the temporary value was never replaced
                cls = "content"
                counts = {}
                for v in vals.values():
                    counts[v] = counts.get(v, 0) + 1
                for n, v in vals.items():
                    w = by_value.get(v) if v is not None else None
                    if w is not None and counts[v] == 1 and str(w["node"]) == n and w.get("res") != "ok":
                        # the value of a publish that was NOT acknowledged, served only by the node it was sent through: a
                        # provisional value that was never taken back. (A node that still serves an ACKNOWLEDGED older value
                        # simply did not apply later entries: that is plain divergence, class "content".)
                        ab, held, ld = acker_of(hist, w)
                        if ld is not None and str(ld) != n:
                            cls = "temporary-value-stuck-on-routing-follower"
                V.append(("nodes-differ/%s" % cls, wit(k, {"final": vals, "key_class": "register" if k in REG_KEYS else "append", "when": tag})))
            # (2) acknowledged later write lost (on every judged node)
            lost_on = {}
            for n in judged:
                v = vals[n]
                if v is not None:
                    F = by_value.get(v)
                    if F is None or F["key"] != k:
                        V.append(("read-of-unwritten-value", wit(k, {"final": v, "node": n, "when": tag})))
                        continue
                    tF = t_ret_of(F)
                    lost = [a for a in acked if a is not F and a["t_call"] > tF]
                else:
                    removes = [o for o in kops if o["op"] == "rm"]
                    lim = max([t_ret_of(r) for r in removes] or [-INF])
                    lost = [a for a in acked if a["op"] == "pub" and a["t_call"] > lim]
                for a in lost:
                    lost_on.setdefault(a["i"], set()).add(n)
            everywhere = [a for a in acked if lost_on.get(a["i"]) == set(judged)]
            for a in everywhere[:20]:
                sig, x = lost_sig(hist, a)
                V.append((sig, wit(k, dict(x, lost=a, final=vals, when=tag, clause="(2) acknowledged write is later than the write that produced the final content"))))
            if k not in APPEND_KEYS:
                continue
            # (4) append keys
            hs = {n: reads[n].get("history", {}).get(k) for n in judged}
            if any(h is None for h in hs.values()):
                # (the console login is a raft write: without a leader the histories cannot be read; that case is reported as not-converged)
                if any(v is not None for v in vals.values()) and p["converged_after_s"] is not None:
                    V.append(("append-history/unreadable", {"key": k, "errors": {n: reads[n].get("history_error") for n in judged}, "when": tag, "cluster": hist["name"]}))
                continue
            sets = {n: {c for _, c in h} for n, h in hs.items()}
            union = set().union(*sets.values())
            common_ = set.intersection(*sets.values())
            for c in sorted(union - common_)[:20]:
                w = by_value.get(c)
                have = sorted(n for n in judged if c in sets[n])
                if w is None:
                    continue
                x = {"write": w, "in_history_of": have, "missing_on": sorted(set(judged) - set(have)), "acker": acker_of(hist, w), "near_fault": near_fault(hist, w), "when": tag}
                if w["res"] == "ok":
                    # the write is in the change history of the very leader that decided it: that leader DID commit and apply it (in its
                    # own view), however soon after its answer it was killed or deposed - the class "not-leader-at-answer" (success
                    # answered without a commit) does not apply; the write belongs to the regime of that leader, like a write a majority serves
                    decided = x["acker"][2]
                    sig, y = lost_sig(hist, w, "acked-write-on-some-nodes-only", on_majority=len(have) * 2 > 3 or (decided is not None and str(decided) in [str(h) for h in have]))
                    V.append((sig, wit(k, dict(x, **y))))
                else:
                    V.append(("unacked-write-on-some-nodes-only", wit(k, x)))
            if union == common_ and len({json.dumps(h) for h in hs.values()}) > 1:
                V.append(("nodes-differ/history-order-or-ids", wit(k, {"histories": hs, "when": tag})))
            for a in acked:
                if a["op"] == "pub" and a["value"] not in union and a["i"] not in {x["i"] for x in everywhere[:20]}:
                    sig, x = lost_sig(hist, a)
                    V.append((sig, wit(k, dict(x, lost=a, history_tail=hs[judged[0]][-5:], when=tag, clause="(4) acknowledged publish missing in the change history of every node"))))
            done = set()
            for n in judged:
                h = hs[n]
                js = json.dumps(h)
                if js in done:
                    continue
                done.add(js)
                cvals = [c for _, c in h]
                ids = [i for i, _ in h]
                if len(set(cvals)) != len(cvals):
                    V.append(("append-history/duplicate-entry", wit(k, {"history": h, "node": n, "when": tag})))
                unknown = [c for c in cvals if c not in by_value or by_value[c]["key"] != k]
                if unknown:
                    V.append(("append-history/unwritten-value", wit(k, {"history": h, "node": n, "unknown": unknown[:5], "when": tag})))
                if any(b <= a for a, b in zip(ids, ids[1:])):
                    V.append(("append-history/ids-not-increasing", wit(k, {"history": h, "node": n, "when": tag})))
                present = [by_value[c] for c in cvals if c in by_value]
                worst = None
                min_ret_later = None      # (smallest answer time among the entries listed later, that entry)
                for i in range(len(present) - 1, -1, -1):
                    a = present[i]
                    if min_ret_later is not None and min_ret_later[0] < a["t_call"]:
                        worst = (min_ret_later[1], a)
                        break
                    tr = t_ret_of(a)
                    if min_ret_later is None or tr < min_ret_later[0]:
                        min_ret_later = (tr, a)
                if worst:
                    V.append(("append-history/order-contradicts-real-time", wit(k, {"listed_later_but_acked_first": worst[0], "listed_earlier_but_called_after": worst[1],
                                                                                       "history": h, "node": n, "when": tag})))
    return V


# ------------------------------------------------------------------------------------------------------------------ single node
def single_node_case(wd, name, seed, preload):
    """publish in the first milliseconds after process start; an acknowledged publish must be served"""
    rnd = random.Random(seed)
    nd = procrig.Node(wd, 1, env={"RNACOS_RAFT_SNAPSHOT_LOG_SIZE": "40", "RUST_LOG": "warn"}, name=name)
    res = {"name": name, "preload": preload, "acked": [], "attempts": 0, "violations": []}
    try:
        if preload:
            nd.start()
            for i in range(preload):
                nd.post("/nacos/v1/cs/configs", form={"dataId": "pre%d" % i, "group": GROUP, "content": "pre-%d" % i})
            time.sleep(rnd.uniform(0.0, 0.3))
            nd.kill()
        nd.start(wait=False)
        t_up = now()
        t_first_answer = None
        i = 0
        while now() - t_up < 20:
            if not nd.alive():
                raise Inconclusive("single node exited at start-up: %s" % nd.tail_log())
            i += 1
            key, val = "early%d" % i, "%s-e%d" % (name, i)
            tc = now()
            try:
                r = nd.post("/nacos/v1/cs/configs", form={"dataId": key, "group": GROUP, "content": val}, timeout=CLIENT_TIMEOUT)
            except (OSError, procrig.httpclient.HTTPException):
                time.sleep(0.002)
                continue
            res["attempts"] += 1
            if t_first_answer is None:
                t_first_answer = tc
            if r.status == 200 and r.text().strip() == "true":
                res["acked"].append({"key": key, "value": val, "ms_after_first_answer": round((tc - t_first_answer) * 1000, 1), "ms_after_spawn": round((tc - t_up) * 1000, 1)})
            else:
                res.setdefault("refused", []).append([round((tc - t_first_answer) * 1000, 1), r.status, r.text()[:80]])
            if now() - t_first_answer > 0.25:
                break
        if t_first_answer is None:
            raise Inconclusive("single node never answered: %s" % nd.tail_log())
        time.sleep(2.0)
        # positive control: a publish long after start-up is accepted and served
        r = nd.post("/nacos/v1/cs/configs", form={"dataId": "late", "group": GROUP, "content": name + "-late"}, timeout=CLIENT_TIMEOUT)
        g = nd.get("/nacos/v1/cs/configs", params={"dataId": "late", "group": GROUP})
        if not (r.status == 200 and g.status == 200 and g.text() == name + "-late"):
            res["violations"].append(("single-node/publish-refused-after-start-up", {"publish": [r.status, r.text()[:100]], "read": [g.status, g.text()[:100]], "case": res}))
        for a in res["acked"]:
            g = nd.get("/nacos/v1/cs/configs", params={"dataId": a["key"], "group": GROUP})
            a["served"] = g.text() if g.status == 200 else None
            if a["served"] != a["value"]:
                res["violations"].append(("single-node/acked-early-publish-not-served", {"acked": a, "read": [g.status, g.text()[:100]], "preload": preload, "log_tail": nd.tail_log(600)}))
                break
        if preload:
            g = nd.get("/nacos/v1/cs/configs", params={"dataId": "pre0", "group": GROUP})
            res["pre0"] = g.text() if g.status == 200 else None
        return res
    finally:
        nd.kill()


# ------------------------------------------------------------------------------------------------------------ uncommitted tail
def uncommitted_tail_case(wd, name, seed):
    """directed schedule for the clause "two nodes never settle on different contents": an ELECTED leader (leadership has moved away
    from the bootstrap node first) loses both followers (SIGSTOP), receives writes that cannot be committed (not acknowledged: they
    exist in its own log only), is killed; the followers resume, elect a new leader and commit other writes; the old leader
    restarts. Whatever raft then does with the old leader's log tail, all three nodes must agree on every key afterwards: the
    tail is either discarded everywhere or committed everywhere - a node that replays it into its state machine on its own serves
    a value the cluster never agreed on."""
    rnd = random.Random(seed)
    res = {"name": name, "violations": [], "evaluations": 0, "facts": {}}
    cl = procrig.Cluster(os.path.join(wd, name), 3, env={"RNACOS_RAFT_SNAPSHOT_LOG_SIZE": "400", "RUST_LOG": "warn"})
    P = "/nacos/v1/cs/configs"

    def put(nd, key, val, timeout=CLIENT_TIMEOUT):
        try:
            r = nd.post(P, form={"dataId": key, "group": GROUP, "content": val}, timeout=timeout)
            return "ok" if r.status == 200 and r.text().strip() == "true" else "fail"
        except (OSError, procrig.httpclient.HTTPException):
            return "indet"

    def read(nd, key):
        try:
            r = nd.get(P, params={"dataId": key, "group": GROUP}, timeout=4)
        except (OSError, procrig.httpclient.HTTPException):
            return "<no answer>"
        return r.text() if r.status == 200 else None if r.status == 404 else "<status %s>" % r.status

    def wait_leader(nodes, bound, exclude=None):
        t0 = now()
        while now() - t0 < bound:
            for nd in nodes:
                m = nd.metrics() if nd.alive() and not nd.stopped else None
                if m and m.get("state") == "Leader" and nd is not exclude:
                    return nd
            time.sleep(0.2)
        return None
    try:
        cl.start()
        boot = cl.leader()
        if boot is None:
            raise Inconclusive("no leader after formation")
        for i in range(3):
            if put(boot, "ut-pre%d" % i, "pre-%d" % i) != "ok":
                raise Inconclusive("warm-up publish refused")
        # regime 2: leadership leaves the bootstrap node
        boot.sigstop()
        others = [n for n in cl.nodes if n is not boot]
        L = wait_leader(others, 20)
        boot.sigcont()
        if L is None:
            raise Inconclusive("no new leader while the bootstrap leader was stopped")
        time.sleep(2.5)
        L = wait_leader(cl.nodes, 15)
        if L is None:
            raise Inconclusive("no leader after the bootstrap leader resumed")
        res["facts"]["bootstrap_leader"], res["facts"]["elected_leader"] = boot.id, L.id
        if put(L, "ut-mid", "mid") != "ok":
            raise Inconclusive("publish through the elected leader refused")
        followers = [n for n in cl.nodes if n is not L]
        # let the followers APPLY what has been committed so far (the commit index travels with the next heartbeat): entries that are
        # committed but not yet applied when the leader changes are the dependency's known loss and not this scenario's subject
        time.sleep(2.5)
        for f in followers:
            f.sigstop()
        time.sleep(0.4)
        # writes that cannot be committed
        tail = []
        n_tail = rnd.choice([1, 3, 6])
        acked_without_quorum = []
        for i in range(n_tail):
            key, val = "ut-tail%d" % i, "%s-never-committed-%d" % (name, i)
            a = put(L, key, val, timeout=1.5)
            tail.append((key, val, a))
            res["evaluations"] += 1
            if a == "ok":
                acked_without_quorum.append(key)
        if rnd.random() < 0.5:
            a = put(L, "ut-pre0", "%s-never-committed-overwrite" % name, timeout=1.5)
            tail.append(("ut-pre0", "%s-never-committed-overwrite" % name, a))
        L.kill()
        for f in followers:
            f.sigcont()
        N = wait_leader(followers, 25)
        if N is None:
            raise Inconclusive("the two resumed nodes elected no leader within 25 s")
        committed = []
        for i in range(rnd.choice([1, 4])):
            if put(N, "ut-new%d" % i, "new-%d" % i) == "ok":
                committed.append("ut-new%d" % i)
        if not committed:
            raise Inconclusive("the new leader committed nothing")
        time.sleep(rnd.uniform(0.2, 2.0))
        L.start(wait=True, timeout=40)
        # bounded convergence: all three answer the same for every key
        keys = sorted({k for k, _, _ in tail} | set(committed) | {"ut-mid", "ut-pre1"})
        deadline = now() + B
        views = None
        while True:
            views = {k: [read(nd, k) for nd in cl.nodes] for k in keys}
            ms = [nd.metrics() or {} for nd in cl.nodes]
            same = all(len(set(map(str, v))) == 1 for v in views.values())
            caught_up = len({m.get("last_applied") for m in ms}) == 1 and all(m.get("last_applied") is not None for m in ms)
            if (same and caught_up) or now() > deadline:
                break
            time.sleep(1.0)
        res["evaluations"] += len(keys) * 3
        res["facts"].update({"tail": [[k, a] for k, _, a in tail], "committed_by_new_leader": committed, "new_leader": N.id,
                             "last_applied": [m.get("last_applied") for m in ms], "terms": [m.get("current_term") for m in ms]})
        differing = {k: v for k, v in views.items() if len(set(map(str, v))) != 1}
        if acked_without_quorum:
            res["violations"].append(("acked-without-quorum/acker=elected-leader", {"keys": acked_without_quorum, "facts": res["facts"]}))
        elif differing and any("<" in str(x) for v in differing.values() for x in v):
            raise Inconclusive("a node did not answer the final reads: %s" % differing)
        elif differing:
            tk = {k for k, _, _ in tail}
            dt = {k: v for k, v in differing.items() if k in tk}
            do = {k: v for k, v in differing.items() if k not in tk}
            if dt:
                res["violations"].append(("uncommitted-tail/nodes-differ-on-a-write-that-was-never-acknowledged",
                                          {"views_[n1,n2,n3]": dt, "old_leader": L.id, "facts": res["facts"], "old_leader_log_tail": L.tail_log(800)}))
            if do:
                # an ACKNOWLEDGED write of the warm-up served by some nodes only: the elected-leader regime of the general oracle
                res["violations"].append(("acked-write-on-some-nodes-only/acker=elected-leader/fault=leader",
                                          {"views_[n1,n2,n3]": do, "old_leader": L.id, "facts": res["facts"], "scenario": "uncommitted-tail (leader killed while the followers were stopped)"}))
        res["shape"] = "uncommitted-tail/%d-entries/%s" % (n_tail, "old-leader-was-bootstrap-node" if L is boot else "old-leader-elected-later")
        return res
    finally:
        cl.kill_all()
        shutil.rmtree(os.path.join(wd, name), ignore_errors=True)


# ------------------------------------------------------------------------------------------------------------------ driver
RULE = ("per cluster: 3 real nodes, snapshot threshold {40,400}, %d clients (%d gRPC) publishing unique values / removing / reading through random nodes, "
        "a seeded nemesis schedule (kill -9, SIGSTOP, restart, directed links held and released) with faults before and after the first leader change; history recorded at the client boundary with one monotonic "
        "clock + role/term time line; heal; convergence wait (bound %ds); final contents and change histories of every key from every node; offline "
        "oracle clauses (1)-(5) of DESIGN.md C06. evaluations = client operations (+ single-node early publishes). distinct_nontrivial = distinct "
        "(fault kind, victim role just before it, client writes in flight at that moment yes/no) that really happened" % (N_CLIENTS, N_GRPC_CLIENTS, int(B)))


def inflight_at(ops, t):
    for o in ops:
        if o["op"] != "get" and o["t_call"] < t and (o["t_ret"] is None or o["t_ret"] > t):
            return True
    return False


RETRIED = []


def one_cluster(args):
    wd, name, seed, snap, schedule_s, first_change = args
    last = None
    for attempt in (0, 1):
        cr = ClusterRun(wd, "%s%s" % (name, "r" if attempt else ""), seed + attempt * 7919, snap, schedule_s, first_change)
        try:
            return cr.run()
        except Inconclusive as e:
            last = str(e)
            RETRIED.append("%s attempt %d: %s" % (name, attempt, last[:300]))
            common.log("C06 cluster %s attempt %d inconclusive: %s" % (name, attempt, last[:300]))
        finally:
            shutil.rmtree(cr.wd, ignore_errors=True)
    return {"inconclusive": last, "name": name}


def absorb(out, hist):
    dump = os.environ.get("VERIF_C06_DUMP")        # debugging aid: keep the complete recorded histories
    if dump:
        os.makedirs(dump, exist_ok=True)
        with open(os.path.join(dump, "%s.json" % hist.get("name")), "w") as f:
            json.dump(hist, f, default=str)
    if "inconclusive" in hist:
        out.extra.setdefault("inconclusive_subruns", []).append("%s: %s" % (hist["name"], hist["inconclusive"][:300]))
        return
    ops = hist["ops"]
    out.evaluations += len(ops)
    st = out.extra.setdefault("op_results", {})
    for o in ops:
        k = "%s/%s/%s" % (o["op"], o["via"], o["res"])
        st[k] = st.get(k, 0) + 1
    for f in hist["faults"]:
        for role in f["roles"]:
            out.shape("%s/%s/in-flight-writes=%s" % (f["kind"], role, "yes" if inflight_at(ops, f["t0"]) else "no"))
    V = check_history(hist)
    for sig, w in V:
        out.violation(sig, w)
    nq = no_quorum_acks(hist)
    ctl = out.extra.setdefault("writes_to_the_leader_while_both_followers_were_stopped", {"acknowledged_inside_the_window": {}, "answered_only_after_resume_or_timed_out": {}})
    for o, regime in nq["acked"]:
        ctl["acknowledged_inside_the_window"][regime] = ctl["acknowledged_inside_the_window"].get(regime, 0) + 1
    for regime, n in nq["waited"].items():
        ctl["answered_only_after_resume_or_timed_out"][regime] = ctl["answered_only_after_resume_or_timed_out"].get(regime, 0) + n
    terms = [s[4] for s in hist["timeline"] if s[4] is not None]
    summ = {"cluster": hist["name"], "snap": hist["snap"], "ops": len(ops), "acked_writes": sum(1 for o in ops if o["op"] != "get" and o["res"] == "ok"),
            "indeterminate": sum(1 for o in ops if o["res"] == "indet"), "faults": [[f["kind"], f["victims"], round(f["t1"] - f["t0"], 1)] for f in hist["faults"]],
            "terms_seen": [min(terms), max(terms)] if terms else None, "compactions_per_node": hist.get("compactions"),
            "passes": [{"pass": p["pass"], "converged_after_s": p["converged_after_s"] and round(p["converged_after_s"], 1), "reason": p["not_converged_reason"],
                        "snapshot_installed_during_run": p["snapshot_installed_during_run"]} for p in hist["passes"]],
            "violation_signatures": sorted({s for s, _ in V}), "fatal_log_lines": hist.get("fatal_log_lines"), "notes": hist.get("notes"),
            "link_fabric": {k: (hist.get("link_fabric") or {}).get(k) for k in ("connections", "connections_held", "bytes_held_released", "unknown_source", "by_link")}}
    out.extra.setdefault("clusters", []).append(summ)
    if len(out.samples) < 4:
        out.samples.append({"cluster": hist["name"], "some_ops": ops[100:104], "a_fault": hist["faults"][:2]})


def run(tier, seed):
    common.build(need_bin=True)
    install_local_findings()
    wd = common.workdir("c06")
    out = Outcome("C06", tier, seed)
    out.rule = RULE
    try:
        rounds, par, sched = (1, 2, 62.0) if tier == "quick" else (5, 5, 75.0)
        n_single = 6 if tier == "quick" else 30
        rnd = random.Random(seed)
        sres = []

        def singles():
            for i in range(n_single):
                try:
                    sres.append(single_node_case(wd, "sn%d" % i, seed * 100 + i, preload=0 if i % 2 == 0 else 30))
                except Inconclusive as e:
                    sres.append({"inconclusive": str(e)[:300]})

        ts = threading.Thread(target=singles, daemon=True)
        ts.start()
        utres = []

        def tails():
            for i in range(1 if tier == "quick" else 6):
                try:
                    utres.append(uncommitted_tail_case(wd, "ut%d" % i, seed * 1000 + 500 + i))
                except Inconclusive as e:
                    utres.append({"inconclusive": str(e)[:300]})
                except OSError as e:
                    utres.append({"inconclusive": repr(e)[:300]})
        tt = threading.Thread(target=tails, daemon=True)
        tt.start()
        for rd in range(rounds):
            # the first cluster of every round always drives the probed regime-1 scenario (bootstrap leader, both followers stopped, leader killed)
            jobs = [(wd, "k%d%d" % (rd, i), seed * 10007 + rd * 101 + i, 40 if (i + rd) % 2 == 0 else 400, sched, "followers-then-kill-leader" if i == 0 else None)
                    for i in range(par)]
            with ThreadPoolExecutor(max_workers=par) as ex:
                for hist in ex.map(one_cluster, jobs):
                    absorb(out, hist)
        ts.join(120)
        tt.join(200 if tier == "quick" else 900)
        ut = {"runs": 0, "facts": []}
        for r in utres:
            if "inconclusive" in r:
                out.extra.setdefault("inconclusive_subruns", []).append("uncommitted-tail: " + r["inconclusive"])
                continue
            ut["runs"] += 1
            out.evaluations += r["evaluations"]
            ut["facts"].append(r["facts"])
            for sig, w in r["violations"]:
                out.violation(sig, w)
            if not r["violations"] and r.get("shape"):
                out.shape(r["shape"])
        out.extra["uncommitted_tail_scenarios"] = ut
        early = 0
        for r in sres:
            if "inconclusive" in r:
                out.extra.setdefault("inconclusive_subruns", []).append("single: " + r["inconclusive"])
                continue
            out.evaluations += r["attempts"]
            early += len(r["acked"])
            for sig, w in r["violations"]:
                out.violation(sig, w)
            if r["acked"]:
                out.shape("single-node/early-publish/%s" % ("fresh" if not r["preload"] else "restart-with-data"))
        if RETRIED:
            out.extra["inconclusive_attempts_retried"] = RETRIED[:20]
        out.extra["single_node_early_publishes_acked"] = early
        out.extra["single_node_first_ack_ms_after_first_answer"] = sorted(r["acked"][0]["ms_after_first_answer"] for r in sres if r.get("acked"))[:40]
        out.assumptions = [
            "operations answered with an error, timed out or cut by a connection error are indeterminate for ever (may take effect at any later time)",
            "t_call/t_ret are taken in the driver around the whole client call (for gRPC around the child-process round trip): intervals are never narrower than the real ones",
            "B = 30 s counted from the moment all nodes are resumed/restarted and all clients have ended",
            "node-to-node traffic runs through a byte-preserving forwarder (lib/linkproxy.py); directed links are held 3-6.5 s and released (delay, never loss): leader changes without a process fault, late delivery of appends / votes / forwarded writes; lossy partitions are not simulated",
            "a node that received an InstallSnapshot stream during the run is compared with the others under its own signature (C08's root cause) and left out of the other clauses",
        ]
        out.min_nontrivial = 6 if tier == "quick" else 12
        return out.finish()
    finally:
        shutil.rmtree(wd, ignore_errors=True)


def replay(path):
    """offline: re-derive the signature from the saved witness (the operation, the operations on its key, faults, events and the role/term time
    line are part of it).  Schedules of a multi-process rig are not replayable exactly; `VERIF_SEED=<seed> ./check C06 <tier>` re-runs the same
    seeded nemesis schedule and client mix."""
    w = json.load(open(path))
    wit = w.get("witness") or {}
    sig = w.get("signature", "")
    show = {k: wit.get(k) for k in ("cluster", "seed", "snap", "key", "lost", "write", "final", "in_history_of", "missing_on", "node", "when", "clause", "acking_leader",
                                     "bootstrap_leader", "leadership", "near_fault", "schedule") if k in wit}
    print(json.dumps(show, indent=1, default=str)[:4000])
    op = wit.get("lost") or wit.get("write")
    sym = sig.split("/")[0]
    if op and sym in ("acked-write-lost", "acked-write-on-some-nodes-only") and "faults" in wit:
        hist = {"faults": wit["faults"], "timeline": wit["timeline"], "boot": wit.get("boot"), "events": wit.get("events") or []}
        again, _ = lost_sig(hist, op, sym, on_majority=sym == "acked-write-on-some-nodes-only" and (len(wit.get("in_history_of") or []) * 2 > 3 or str(wit.get("acking_leader")) in [str(h) for h in (wit.get("in_history_of") or [])]))
        print("re-derived signature:", again)
        known = {(k.get("property"), k.get("signature")) for k in common.load_findings().get("known", [])}
        if again != sig and ("C06", again) in known:
            print("KNOWN-FINDING: property=C06 %s (the recorded witness is classified under this listed signature by the current oracle)" % again)
            return 0
        if again == sig:
            print("VIOLATION property=C06 replay=%s" % path)
            return 1
        return 0
    print("witness shown as recorded (no offline re-derivation for this symptom)")
    print("VIOLATION property=C06 replay=%s" % path)
    return 1
