"""C05 — raft vote, term, membership and node addresses are durable and never regress (history part + crash-point part)."""
import json
import c04


def run(tier, seed):
    rule = ("store-layer histories biased to save_hard_state / SaveMember / AddNodeAddr (records that shrink and grow) interleaved with the other "
            "writers of the same index file (catalogue rewrites by roll-over / pointer insertion, snapshot catalogue, last-applied header) and reopen; "
            "run under the write-journal interposer; for every journal prefix the image is recovered by the real code and the reported term/vote, "
            "membership and node addresses must be the last ACKNOWLEDGED value (or a later submitted one). non-trivial image = image after a file "
            "mutation or marker; distinct = (kind of last mutation before the cut, history feature set)")
    return c04.drive("C05", tier, seed, "C05", ["meta", "meta", "mixed", "snap"], rule)


def replay(path):
    return c04.replay(path)
