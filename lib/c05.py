"""C05 — raft vote, term, membership and node addresses are durable and never regress (history part + crash-point part)."""
import json
import os
import random
import shutil
from concurrent.futures import ThreadPoolExecutor

import c04
import common
import noderig

RECOVER_BOUND_MS = 15000


def apply_path_history(args):
    """membership and node addresses as a RUNNING NODE saves them: `NodeAddr` / `Members` requests go through raft.client_write of a
    complete single node (leader apply path), are replayed from the log after a restart (start-up replay path) or restored from
    a snapshot header (after a compaction), next to ordinary writes. After every step the store must serve, for every node id,
    the address of the last ACKNOWLEDGED NodeAddr request - also for ids that are not (yet) voters - and the member list [1]."""
    wd, seed, n_ops = args
    rnd = random.Random(seed)
    d = os.path.join(wd, "ap%d" % seed)
    shutil.rmtree(d, ignore_errors=True)
    res = {"seed": seed, "ops": 0, "checks": 0, "restarts": 0, "compactions": 0, "shapes": set()}
    sess = None
    try:
        sess = noderig.NodeSession(d, snapshot_size=10000)
        b = sess.call("barrier", min_index=1, bound_ms=RECOVER_BOUND_MS)
        if not b.get("ok"):
            res["inconclusive"] = "initial barrier failed: %s" % b
            return res
        model = {}
        last_index = 0
        trace = []
        since = []          # what happened since the previous check (signature material)

        def check(where):
            m = sess.call("raft_meta")
            if m.get("err") or "node_addrs" not in m:
                return {"symptom": "raft-meta-unreadable", "detail": m}
            res["checks"] += 1
            for nid, addr in sorted(model.items()):
                got = m["node_addrs"].get(str(nid))
                if got != addr:
                    return {"symptom": "address-not-the-acknowledged-one", "node_id": nid, "acknowledged": addr, "served": got, "where": where,
                            "served_table": m["node_addrs"], "members": m.get("members")}
            if m.get("members") != [1]:
                return {"symptom": "membership-not-the-acknowledged-one", "acknowledged": [1], "served": m.get("members"), "where": where}
            return None

        v = None
        for i in range(n_ops):
            x = rnd.random()
            if x < 0.35:
                nid = rnd.choice([2, 3, 4, 7])
                addr = "10.%d.%d.%d:%d" % (rnd.randrange(256), rnd.randrange(256), rnd.randrange(256), rnd.randrange(1, 65535)) if rnd.random() < 0.7 else "n%d.%s.example:%d" % (nid, "x" * rnd.randrange(0, 60), rnd.randrange(1, 65535))
                r = sess.write({"NodeAddr": {"id": nid, "addr": addr}})
                kind = "NodeAddr"
                if r.get("ok"):
                    model[nid] = addr
            elif x < 0.5:
                r = sess.write({"Members": [1]})
                kind = "Members"
            elif x < 0.85:
                r = sess.write({"ConfigSet": {"key": "k%d\x02g" % rnd.randrange(4), "value": "v%d" % i, "config_type": None, "desc": None, "history_id": 0,
                                              "history_table_id": None, "op_time": 1700000000000 + i, "op_user": None}})
                kind = "ConfigSet"
            elif x < 0.93:
                sess.call("barrier", min_index=last_index, bound_ms=RECOVER_BOUND_MS)
                r = sess.call("compact")
                kind = "compact"
                if r.get("ok"):
                    res["compactions"] += 1
            else:
                sess.call("barrier", min_index=last_index, bound_ms=RECOVER_BOUND_MS)
                if not noderig.settle_on_disk(sess, d):
                    res["inconclusive"] = "applied index did not reach the index file"
                    return res
                mt = sess.call("metrics")
                sess.kill()
                sess = noderig.NodeSession(d, snapshot_size=10000)
                b2 = sess.call("barrier", min_index=mt.get("last_log_index", 0), bound_ms=RECOVER_BOUND_MS)
                if not b2.get("ok"):
                    res["inconclusive"] = "restart barrier failed: %s" % b2
                    return res
                res["restarts"] += 1
                kind, r = "restart", {"ok": True}
            if kind in ("NodeAddr", "Members", "ConfigSet") and r.get("ok"):
                last_index = max(last_index, r.get("index", 0))
            res["ops"] += 1
            trace.append(kind)
            since.append(kind)
            if kind in ("Members", "restart", "compact", "NodeAddr") and model:
                v = check("after-%s" % kind)
                if v:
                    break
                res["shapes"].add("apply-path/%s-with-%d-learner-addresses%s" % (kind, min(len(model), 3), "/after-compaction" if "compact" in trace else ""))
                since = []
        if v:
            cls = "after-restart" if "restart" in since else "after-%s" % since[-1] if since else "-"
            if "restart" in since and "compact" in trace:
                cls = "after-restart-from-snapshot"
            v["trace_tail"] = trace[-25:]
            v["history_seed"] = seed
            v["n_ops"] = n_ops
            res["violation"] = {"signature": "apply-path/%s/%s" % (v["symptom"], cls), "witness": v}
        return res
    except noderig.NodeDied as e:
        res["inconclusive"] = "node session died: %s" % e
        return res
    finally:
        if sess:
            sess.kill()
        shutil.rmtree(d, ignore_errors=True)
        res["shapes"] = sorted(res["shapes"])


def apply_path_part(out, wd, seed, tier):
    n = 24 if tier == "quick" else 300
    jobs = [(wd, seed * 100000 + 30000 + i, [25, 60][i % 2]) for i in range(n)]
    with ThreadPoolExecutor(max_workers=common.NCPU) as ex:
        rs = list(ex.map(apply_path_history, jobs))
    agg = {"histories": 0, "ops": 0, "checks": 0, "restarts": 0, "compactions": 0}
    for r in rs:
        if "inconclusive" in r:
            out.extra.setdefault("inconclusive_subruns", []).append("apply-path: " + r["inconclusive"][:250])
            continue
        agg["histories"] += 1
        for k in ("ops", "checks", "restarts", "compactions"):
            agg[k] += r[k]
        out.evaluations += r["checks"]
        for s in r["shapes"]:
            out.shape(s)
        if "violation" in r:
            out.violation(r["violation"]["signature"], r["violation"]["witness"])
    out.extra["apply_path_layer"] = agg


def run(tier, seed):
    rule = ("store-layer histories biased to save_hard_state / SaveMember / AddNodeAddr (records that shrink and grow) interleaved with the other "
            "writers of the same index file (catalogue rewrites by roll-over / pointer insertion, snapshot catalogue, last-applied header) and reopen; "
            "run under the write-journal interposer; for every journal prefix the image is recovered by the real code and the reported term/vote, "
            "membership and node addresses must be the last ACKNOWLEDGED value (or a later submitted one). non-trivial image = image after a file "
            "mutation or marker; distinct = (kind of last mutation before the cut, history feature set). Apply-path layer: NodeAddr / Members "
            "requests through raft.client_write of a complete single node next to other writes, compactions and quiescent restarts; after every "
            "such step the store must serve the last acknowledged address of every node id (voter or not) and the member list")
    return c04.drive("C05", tier, seed, "C05", ["meta", "meta", "mixed", "snap"], rule, extra_part=apply_path_part)


def replay(path):
    w = json.load(open(path))
    if str(w.get("signature", "")).startswith("apply-path/"):
        common.build()
        wd = common.workdir("c05r")
        try:
            r = apply_path_history((wd, w["witness"]["history_seed"], w["witness"].get("n_ops", 25)))
            print(json.dumps(r, indent=1, default=str)[:3000])
            if "violation" in r:
                print("VIOLATION property=C05 replay=%s" % path)
                return 1
            return 0
        finally:
            shutil.rmtree(wd, ignore_errors=True)
    return c04.replay(path)
