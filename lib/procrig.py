"""Rig B: the real rnacos binary as 1..n processes on loopback, driven as clients do (HTTP via http.client)."""
import http.client as httpclient
import json
import os
import signal
import socket
import subprocess
import time
import urllib.parse

import common


def free_ports(n):
    socks, ports = [], []
    for _ in range(n):
        s = socket.socket()
        s.bind(("127.0.0.1", 0))
        socks.append(s)
        ports.append(s.getsockname()[1])
    for s in socks:
        s.close()
    return ports


class Resp:
    def __init__(self, status, body, headers):
        self.status, self.body, self.headers = status, body, headers

    def json(self):
        try:
            return json.loads(self.body)
        except Exception:
            return None

    def text(self):
        return self.body.decode("utf-8", "replace")


def http(port, method, path, params=None, body=None, headers=None, timeout=10, form=None, raw_path=False):
    """one request on a fresh connection; `path` is sent verbatim (no normalisation) so odd spellings reach the server"""
    h = dict(headers or {})
    if params:
        path = path + ("&" if "?" in path else "?") + urllib.parse.urlencode(params)
    data = None
    if form is not None:
        data = urllib.parse.urlencode(form).encode()
        h.setdefault("Content-Type", "application/x-www-form-urlencoded")
    elif body is not None:
        data = body if isinstance(body, bytes) else json.dumps(body).encode()
        h.setdefault("Content-Type", "application/json")
    c = httpclient.HTTPConnection("127.0.0.1", port, timeout=timeout)
    try:
        c.putrequest(method, path, skip_host=False, skip_accept_encoding=True)
        for k, v in h.items():
            c.putheader(k, v)
        if data is not None:
            c.putheader("Content-Length", str(len(data)))
        c.endheaders()
        if data is not None:
            c.send(data)
        r = c.getresponse()
        b = r.read()
        return Resp(r.status, b, dict(r.getheaders()))
    finally:
        c.close()


class Node:
    def __init__(self, wd, node_id=1, env=None, join=None, auto_init=None, name=None, binary=None):
        self.id = node_id
        self.name = name or "n%d" % node_id
        self.dir = os.path.join(wd, self.name)
        os.makedirs(self.dir, exist_ok=True)
        self.http_port, self.grpc_port, self.console_port = free_ports(3)
        self.env_extra = dict(env or {})
        self.join = join
        self.auto_init = auto_init if auto_init is not None else (join is None)
        self.binary = binary or common.RNACOS
        self.p = None
        self.log_path = os.path.join(wd, self.name + ".log")
        self.stopped = False
        self.advertise = None      # address other nodes are told to use (a link-fabric proxy port), default: the gRPC port
        self.after_start = None    # callback(node) once the process exists (the link fabric learns the new pid)

    @property
    def grpc_addr(self):
        return "127.0.0.1:%d" % self.grpc_port

    @property
    def raft_addr(self):
        return self.advertise or self.grpc_addr

    def start(self, wait=True, timeout=30):
        e = {k: v for k, v in os.environ.items() if not k.startswith("RNACOS_")}
        e.update({
            "RNACOS_DATA_DIR": self.dir,
            "RNACOS_HTTP_PORT": str(self.http_port),
            "RNACOS_GRPC_PORT": str(self.grpc_port),
            "RNACOS_HTTP_CONSOLE_PORT": str(self.console_port),
            "RNACOS_RAFT_NODE_ID": str(self.id),
            "RNACOS_RAFT_NODE_ADDR": self.raft_addr,
            "RNACOS_RAFT_AUTO_INIT": "true" if self.auto_init else "false",
            "RNACOS_CONSOLE_ENABLE_CAPTCHA": "false",
            "RNACOS_NAMING_PERPETUAL_INSTANCE_PROBE_INTERVAL_SECOND": "0",
            "RNACOS_HTTP_WORKERS": "2",
            "RUST_LOG": os.environ.get("VERIF_NODE_LOG", "warn"),
        })
        if self.join:
            e["RNACOS_RAFT_JOIN_ADDR"] = self.join
        e.update(self.env_extra)
        self.logf = open(self.log_path, "ab")
        self.p = subprocess.Popen([self.binary, "-e", "/nonexistent-env-file"], env=e, stdout=self.logf, stderr=self.logf, cwd=self.dir)
        self.stopped = False
        if self.after_start is not None:
            self.after_start(self)
        if wait:
            self.wait_ready(timeout)
        return self

    def wait_ready(self, timeout=30):
        t0 = time.time()
        while time.time() - t0 < timeout:
            if self.p.poll() is not None:
                raise common.Inconclusive("node %s exited at start-up (exit %s): %s" % (self.name, self.p.returncode, self.tail_log()))
            try:
                r = http(self.http_port, "GET", "/nacos/v1/raft/metrics", timeout=2)
                if r.status in (200, 403):
                    return
            except OSError:
                pass
            time.sleep(0.1)
        raise common.Inconclusive("node %s not ready after %ss: %s" % (self.name, timeout, self.tail_log()))

    def tail_log(self, n=1500):
        try:
            return open(self.log_path, "rb").read()[-n:].decode("utf-8", "replace")
        except OSError:
            return ""

    def alive(self):
        return self.p is not None and self.p.poll() is None

    def kill(self):
        if self.p and self.p.poll() is None:
            try:
                self.p.send_signal(signal.SIGCONT)
                self.p.kill()
            except Exception:
                pass
            self.p.wait()
        try:
            self.logf.close()
        except Exception:
            pass

    def sigstop(self):
        if self.alive():
            self.p.send_signal(signal.SIGSTOP)
            self.stopped = True

    def sigcont(self):
        if self.alive():
            self.p.send_signal(signal.SIGCONT)
            self.stopped = False

    def restart(self, wait=True, timeout=30):
        self.kill()
        return self.start(wait, timeout)

    # ---- client helpers
    def get(self, path, params=None, **kw):
        return http(self.http_port, "GET", path, params=params, **kw)

    def post(self, path, form=None, **kw):
        return http(self.http_port, "POST", path, form=form, **kw)

    def delete(self, path, params=None, **kw):
        return http(self.http_port, "DELETE", path, params=params, **kw)

    def metrics(self):
        try:
            r = self.get("/nacos/v1/raft/metrics", timeout=3)
            return r.json() if r.status == 200 else None
        except OSError:
            return None

    def api_login(self, user="admin", password="admin", wait=8.0):
        t0 = time.time()
        while True:
            r = self.post("/nacos/v1/auth/login", form={"username": user, "password": password})
            j = r.json() or {}
            tok = j.get("accessToken")
            if (tok and tok != "AUTH_DISABLED") or time.time() - t0 > wait or tok == "AUTH_DISABLED":
                return tok
            time.sleep(0.2)

    def console_login(self, user="admin", password="admin", wait=8.0):
        """returns (session token, last response); the token is accepted as cookie `token=<t>` or header `Token: <t>`.
        The built-in admin user is created a few hundred ms after start-up, hence the bounded retry."""
        import base64
        t0 = time.time()
        while True:
            r = http(self.console_port, "POST", "/rnacos/api/console/v2/login/login",
                     form={"username": user, "password": base64.b64encode(password.encode()).decode()})
            j = r.json() or {}
            tok = (j.get("data") or {}).get("token") if j.get("success") else None
            if tok or time.time() - t0 > wait:
                return tok, r
            time.sleep(0.2)

    def console(self, method, path, token=None, params=None, form=None, body=None, headers=None, carrier="cookie", **kw):
        h = dict(headers or {})
        if token is not None:
            if carrier == "cookie":
                h["Cookie"] = "token=%s" % token
            else:
                h["Token"] = token
        return http(self.console_port, method, path, params=params, form=form, body=body, headers=h, **kw)


class Cluster:
    def __init__(self, wd, n=3, env=None, fabric=False):
        """fabric=True: node-to-node traffic runs through lib/linkproxy.LinkFabric (self.fabric) so that single directed
        links can be stalled and released; clients still talk to the nodes' own ports"""
        self.wd = wd
        self.nodes = []
        self.fabric = None
        first = Node(wd, 1, env=env, auto_init=True)
        self.nodes.append(first)
        for i in range(2, n + 1):
            self.nodes.append(Node(wd, i, env=env, join=first.grpc_addr, auto_init=False))
        if fabric:
            import linkproxy
            self.fabric = linkproxy.FabricProcess({nd.id: nd.grpc_port for nd in self.nodes}).start()
            for nd in self.nodes:
                nd.advertise = self.fabric.addr(nd.id)
                nd.after_start = lambda _n: self.fabric is not None and self.fabric.set_pids(
                    {x.id: (x.p.pid if x.p is not None and x.p.poll() is None else None) for x in self.nodes})
            for nd in self.nodes[1:]:
                nd.join = first.raft_addr

    def start(self, settle=8):
        self.nodes[0].start()
        time.sleep(1.0)
        for nd in self.nodes[1:]:
            nd.start()
        self.wait_formed(settle + 20)
        return self

    def wait_formed(self, timeout=30):
        t0 = time.time()
        want = len(self.nodes)
        while time.time() - t0 < timeout:
            ms = [n.metrics() for n in self.nodes]
            if all(m for m in ms):
                leaders = {m.get("current_leader") for m in ms}
                sizes = {len((m.get("membership_config") or {}).get("members") or []) for m in ms}
                if len(leaders) == 1 and None not in leaders and sizes == {want}:
                    return True
            time.sleep(0.3)
        raise common.Inconclusive("cluster did not form in %ss: %s" % (timeout, [n.metrics() for n in self.nodes]))

    def leader(self):
        for n in self.nodes:
            m = n.metrics() if n.alive() and not n.stopped else None
            if m and m.get("state") == "Leader":
                return n
        return None

    def kill_all(self):
        for n in self.nodes:
            n.kill()
        if self.fabric is not None:
            self.fabric.close()
            self.fabric = None
