"""C13 — ephemeral HTTP instances expire without heartbeats, never while heart-beating (bounded progress, H=3 s, T=4 s)."""
import json
import os
import shutil
import subprocess
import threading
import time

import common
import procrig
from common import Outcome

H, T, TICK, SLACK = 3.0, 4.0, 2.0, 1.5
NODE_DETECT = 15.0 + 3.0      # InnerNodeManage: 15 s without sign of life, checked every 3 s
SYNC = 3.0                    # owner -> other nodes (ClusterInstanceDelayNotifyActor batches), generous


def _shards(tier, seed, wd):
    if tier == "quick":
        shards, runs = 2, 1
    else:
        shards, runs = 16, 4
    return common.run_vh_shards("c13", shards, ["--runs", runs, "--instances", 400], wd, 60 + 40 * runs, seed)


def run(tier, seed):
    common.build(need_bin=True)
    wd = common.workdir("c13")
    try:
        out = Outcome("C13", tier, seed)
        # the same restated property through the public HTTP API of one real node, concurrently with the actor rig
        rn = {}
        rn_thread = threading.Thread(target=_real_node_guarded, args=(rn, os.path.join(wd, "rn"), seed), daemon=True)
        rn_thread.start()
        out.rule = ("stand-alone real NamingActor (own system thread, AppSysConfig injected through a BeanFactory: health time-out 0 s + 3 s, "
                    "instance time-out 1 s + 3 s, own 2 s timer, real wall clock); ~400 seeded instance timelines per run executed "
                    "concurrently (register, beats with period 0.5/1/2/2.4 s, silence, resume at chosen distances from H and T, replace / "
                    "deregister+register while an expiry entry is queued, flip ephemeral<->persistent, switch owner HTTP<->gRPC, copies "
                    "synced from owner node 2 then ClusterRefreshProcessRange take-over); every 250 ms QueryAllInstanceList and the "
                    "healthy-only QueryList of every service. Oracle on RECORDED call/ack times: healthy+present before last_call+H "
                    "(present before last_call+T); not healthy after last_ack+H+2 s+1.5 s; absent after last_ack+T+2 s+1.5 s; taken-over "
                    "instances: max(last_ack+H, takeover_ack)+2+1.5 resp. max(last_ack+T, takeover_ack)+2*2+1.5; persistent and gRPC-owned "
                    "always present+healthy; observations between the bands, or overlapping an operation in flight, are ignored. "
                    "Second layer (both tiers, concurrently): one real rnacos process driven over the HTTP open API only (register, beat, "
                    "persistent<->ephemeral flips; GET instance/list every 100 ms), same rules. Third layer (thorough): real 3-node cluster, "
                    "silent instances must disappear on every node; owner node SIGKILLed together with its clients, survivors must expire what "
                    "they take over (bound += 15 s liveness + 3 s tick). "
                    "evaluations = timelines executed and judged; distinct_nontrivial = distinct (timeline kind, collapsed observed "
                    "H/U/A sequence) of timelines in which an expiry was pending and at least one observation was judged")
        try:
            reports = _shards(tier, seed, wd)
        except common.Inconclusive as e:
            common.log("C13 first attempt inconclusive (%s); retrying once" % str(e)[:200])
            reports = _shards(tier, seed, wd)
        m = common.merge_reports(reports)
        out.absorb(m)
        runs = max(1, m["counters"].get("runs", 1))
        out.extra["max_lag_ms_mean_per_run"] = round(m["counters"].get("max_lag_ms_sum", 0) / runs, 1)
        out.extra["bounds_ms"] = {"H": 3000, "T": 4000, "tick": 2000, "slack": 1500, "early_eps": 20, "stall_guard": 400}
        out.min_nontrivial = 12
        out.assumptions = ["time-outs shortened through AppSysConfig (naming_health_timeout=0, naming_instance_timeout=1000 ms; the actor adds 3 s); "
                           "the default 15 s / 30 s values run the same code with other constants",
                           "late-side findings of a run in which a query or the observer itself lagged > 400 ms are dropped (counted), "
                           "early-side findings are sound regardless of stalls",
                           "every service has one always-healthy anchor instance, so the protection threshold (all instances unhealthy -> all "
                           "listed healthy) does not blur the healthy-only list; healthy-only observations are skipped when the anchor is not healthy"]
        if m["counters"].get("runs_with_stall", 0) * 2 > runs and not m["violations"]:
            raise common.Inconclusive("more than half of the runs saw a scheduling stall > 400 ms")
        rn_thread.join(90)
        if rn_thread.is_alive() or "error" in rn:
            common.log("C13 real-node layer inconclusive (%s); retrying once" % str(rn.get("error", "still running"))[:300])
            rn = {}
            _real_node_guarded(rn, os.path.join(wd, "rn2"), seed + 7)
            if "error" in rn:
                raise common.Inconclusive("real-node layer: %s" % rn["error"][:500])
        _absorb_real_node(out, rn)
        mass_expiry_part(out, wd, seed, 22 if tier == "quick" else 60)
        if tier == "thorough":
            aged_cluster_restart_part(out, wd, seed)
            try:
                cluster_layer(out, wd, seed)
            except common.Inconclusive as e:
                common.log("C13 cluster layer inconclusive (%s); retrying once" % str(e)[:300])
                try:
                    cluster_layer(out, wd + "-b", seed + 1)
                except common.Inconclusive as e2:
                    out.extra["cluster_layer"] = {"status": "inconclusive", "reason": str(e2)[:500]}
                finally:
                    shutil.rmtree(wd + "-b", ignore_errors=True)
        return out.finish()
    finally:
        shutil.rmtree(wd, ignore_errors=True)


def _mass_register(port, svc, lo, hi):
    """registrations lo..hi-1 of one service over 8 keep-alive connections (runs in its own process)"""
    import http.client
    import urllib.parse

    def th(a, b):
        c = http.client.HTTPConnection("127.0.0.1", port, timeout=15)
        for i in range(a, b):
            body = urllib.parse.urlencode({"serviceName": svc, "ip": "10.%d.%d.%d" % (50 + i // 65536, (i // 256) % 256, i % 256), "port": "80", "ephemeral": "true"})
            c.request("POST", "/nacos/v1/ns/instance", body, {"Content-Type": "application/x-www-form-urlencoded"})
            c.getresponse().read()
    n = 8
    step = (hi - lo + n - 1) // n
    ts = [threading.Thread(target=th, args=(lo + k * step, min(hi, lo + (k + 1) * step))) for k in range(n)]
    [t.start() for t in ts]
    [t.join() for t in ts]


def mass_expiry_part(out, wd, seed, flip_observe_s=22):
    """many instances per service: more instances than one 2 s check round handles (budget 10 000) fall silent together. The owner
    works them off over several rounds; whatever it expires must also disappear on every other node (bounded)."""
    import multiprocessing
    N = 10400
    H, T = 3, 5
    env = {"RNACOS_NAMING_HEALTH_TIMEOUT_SECOND": str(H), "RNACOS_NAMING_INSTANCE_TIMEOUT_SECOND": str(T), "RNACOS_HTTP_WORKERS": "6",
           "RNACOS_NAMING_PERPETUAL_INSTANCE_PROBE_INTERVAL_SECOND": "5"}     # TCP probe of persistent instances every 5 s (smallest accepted value)
    cl = procrig.Cluster(os.path.join(wd, "mass"), 3, env=env)
    info = {"instances": N, "H_s": H, "T_s": T}
    try:
        cl.start()
        names = ["c13m-%d-%d" % (seed, i) for i in range(12)]
        hv = _hashes(names)
        svc = names[0]
        owner = cl.nodes[hv[svc] % 3]
        others = [n for n in cl.nodes if n is not owner]
        info["owner"] = owner.id
        # persistent instances: one whose host answers the TCP probe (this node's own HTTP port) and one whose host is down (closed
        # port); the heartbeat clock must never remove either, however often the probe fails
        psvc = names[1]
        dead_port = procrig.free_ports(1)[0]
        t_pers = time.time()
        pers = {("127.0.0.1", cl.nodes[0].http_port): "host-up", ("127.0.0.1", dead_port): "host-down"}
        for (pip, pport) in pers:
            if not _register(cl.nodes[0], psvc, pip, pport, ephemeral=False):
                raise common.Inconclusive("persistent registration refused")
        # a persistent instance on a closed port, switched to ephemeral through a node that does NOT own its service, then kept
        # alive by heartbeats through that node: the heartbeat clock supervises it from now on, the TCP probe must let go of it
        fsvc = next((s for s in names[2:] if cl.nodes[hv[s] % 3] is not cl.nodes[0]), names[2])
        fport = procrig.free_ports(1)[0]
        flip = {"obs": [], "stop": threading.Event()}
        if not _register(cl.nodes[0], fsvc, "127.0.0.1", fport, ephemeral=False):
            raise common.Inconclusive("persistent registration (flip case) refused")
        time.sleep(1.0)
        if not _register(cl.nodes[0], fsvc, "127.0.0.1", fport, ephemeral=True):
            raise common.Inconclusive("switch to ephemeral refused")
        flip["t_switch"] = time.time()

        def flip_beater():
            while not flip["stop"].is_set():
                try:
                    _beat(cl.nodes[0], fsvc, "127.0.0.1", fport)
                except OSError:
                    pass
                flip["stop"].wait(1.0)

        def flip_observer():          # its own rhythm: a mark set between two beats must not hide behind the next beat
            while not flip["stop"].is_set():
                for n in cl.nodes:
                    l = _list(n, fsvc)
                    if l is not None:
                        flip["obs"].append((round(time.time() - flip["t_switch"], 1), n.id, l.get(("127.0.0.1", fport))))
                flip["stop"].wait(0.23)
        fth = threading.Thread(target=flip_beater, daemon=True)
        fth.start()
        fth2 = threading.Thread(target=flip_observer, daemon=True)
        fth2.start()
        ctx = multiprocessing.get_context("fork")
        t0 = time.time()
        P = 6
        ps = [ctx.Process(target=_mass_register, args=(owner.http_port, svc, k * N // P, (k + 1) * N // P)) for k in range(P)]
        [p.start() for p in ps]
        [p.join(60) for p in ps]
        t_reg = time.time()
        info["registration_s"] = round(t_reg - t0, 2)
        if any(p.is_alive() for p in ps) or t_reg - t0 > H - 1.0:
            for p in ps:
                if p.is_alive():
                    p.kill()
            raise common.Inconclusive("mass registration too slow for the scenario (%.1f s)" % (t_reg - t0))
        # the copies must have reached the other nodes while the instances were alive
        seen = {}
        end = t0 + H + 1.5
        while time.time() < end and len(seen) < len(others):
            for n in others:
                l = _list(n, svc)
                if l is not None and len(l) >= N and n.id not in seen:
                    seen[n.id] = round(time.time() - t0, 2)
            time.sleep(0.2)
        info["copies_complete_on_other_nodes_after_s"] = seen
        if len(seen) < len(others):
            info["status"] = "inconclusive: the other nodes did not hold all copies before the first time-out"
            out.extra["mass_expiry"] = info
            return
        # budget: ceil(N / 10000) rounds for the unhealthy marks and the same for the removals, each 2 s, plus sync and slack
        bound = T + 2.0 * 2 * 2 + 2.0 + 3.0
        deadline = t_reg + bound
        left = {}
        while True:
            left = {}
            for n in cl.nodes:
                l = _list(n, svc)
                left[n.id] = None if l is None else len(l)
            if all(v == 0 for v in left.values()) or time.time() > deadline:
                break
            time.sleep(0.5)
        info["gone_everywhere_after_s"] = round(time.time() - t_reg, 1)
        info["left_per_node"] = left
        info["bound_s"] = bound
        out.evaluations += N
        if any(v is None for v in left.values()):
            info["status"] = "inconclusive: a node did not answer"
        elif any(v for v in left.values()):
            stuck = {str(k): v for k, v in left.items() if v}
            where = "owner" if left[owner.id] else "non-owner-nodes"
            out.violation("mass-expiry/instances-left-on-%s" % where,
                          {"service": svc, "instances_registered": N, "owner_node": owner.id, "left_per_node": stuck, "waited_s": round(time.time() - t_reg, 1), "bound_s": bound,
                           "H_s": H, "T_s": T, "note": "more instances than the per-round budget (10000) fell silent together"})
        else:
            out.shape("mass-expiry/%d-instances/gone-on-all-nodes" % N)
            info["status"] = "held"
        # ---- the persistent instances, at least 3 probe periods + T after their registration
        time.sleep(max(0.0, t_pers + 3 * 5 + T + 2.5 - time.time()))
        pinfo = {}
        for n in cl.nodes:
            l = _list(n, psvc)
            pinfo[n.id] = None if l is None else {"%s:%d" % k: v for k, v in l.items()}
            if l is None:
                continue
            for k, what in pers.items():
                out.evaluations += 1
                if k not in l:
                    out.violation("persistent-instance-removed/%s" % what, {"service": psvc, "instance": "%s:%d" % k, "node": n.id, "age_s": round(time.time() - t_pers, 1),
                                                                           "probe_interval_s": 5, "T_s": T, "listed": pinfo[n.id]})
                else:
                    out.shape("persistent/%s/%s/kept" % (what, "healthy" if l[k] else "unhealthy"))
        # ---- the switched instance: heart-beating all the time (H = 3 s, beats every second), observed on every node
        time.sleep(max(0.0, flip["t_switch"] + flip_observe_s - time.time()))
        flip["stop"].set()
        fth.join(5)
        fth2.join(5)
        obs = [o for o in flip["obs"] if o[0] >= 2.0]
        bad = [o for o in obs if o[2] is not True]
        out.evaluations += len(obs)
        info["switched_instance_observations"] = len(obs)
        if len(obs) >= 20:
            if bad:
                out.violation("unhealthy-or-absent-while-heart-beating/persistent-switched-to-ephemeral-through-non-owner",
                              {"service": fsvc, "owner_node": cl.nodes[hv[fsvc] % 3].id, "switched_and_beaten_through_node": cl.nodes[0].id, "instance": "127.0.0.1:%d (closed port)" % fport,
                               "probe_interval_s": 5, "beat_period_s": 1, "H_s": H, "bad_observations_(s_after_switch,node,healthy)": bad[:10], "n_bad": len(bad), "n_observations": len(obs)})
            else:
                out.shape("flip-persistent-to-ephemeral-through-non-owner/heart-beating/healthy-on-all-nodes")
        info["persistent_instances_after_s"] = round(time.time() - t_pers, 1)
        info["persistent_listing_per_node"] = pinfo
        out.extra["mass_expiry"] = info
    except common.Inconclusive as e:
        info["status"] = "inconclusive: %s" % str(e)[:300]
        out.extra["mass_expiry"] = info
    except OSError as e:
        info["status"] = "inconclusive: %r" % e
        out.extra["mass_expiry"] = info
    finally:
        cl.kill_all()


# --------------------------------------------------------------------------------------------------- one real node, HTTP only

def _real_node_guarded(res, wd, seed):
    try:
        res.update(real_node_layer(wd, seed))
    except common.Inconclusive as e:
        res["error"] = str(e)
    except Exception as e:      # harness trouble is never a verdict
        res["error"] = "harness exception %r" % (e,)


def _judge(ops, q_call, q_ack, seen):
    """same rules as harness/src/c13.rs::demand, for HTTP-ephemeral and persistent instances; seen in {'H','U','A'}.
    Returns None (nothing demanded / ignored) or (symptom|None, mode, origin, detail)."""
    if any(a >= q_call and c <= q_ack for (_, c, a) in ops):
        return None
    done = [o for o in ops if o[2] < q_call]
    if not done:
        return None
    mode, origin, c, a = None, "never-registered", 0.0, 0.0
    for (name, oc, oa) in done:
        if name == "register-ephemeral":
            origin = {"persistent": "flipped-back-to-ephemeral", "http-ephemeral": "re-registered"}.get(mode, "registered")
            mode, c, a = "http-ephemeral", oc, oa
        elif name == "register-persistent":
            origin = "flipped-to-persistent" if mode == "http-ephemeral" else "registered-persistent"
            mode, c, a = "persistent", oc, oa
        elif name == "beat":
            if mode == "http-ephemeral":
                c, a = oc, oa
            elif mode is None:
                mode, origin, c, a = "http-ephemeral", "created-by-beat", oc, oa
    if mode == "persistent":
        return (None if seen == "H" else "expired-although-not-subject-to-heartbeat-clock", mode, origin, "%.2f s after the acknowledged %s" % (q_call - a, origin))
    applied, bad = 0, None
    rules = [(q_ack < c + T - 0.02, seen != "A", "removed-before-instance-timeout", "absent %.3f s after the call of the last refresh" % (q_ack - c)),
             (q_ack < c + H - 0.02, seen != "U", "unhealthy-before-health-timeout", "unhealthy %.3f s after the call of the last refresh" % (q_ack - c)),
             (q_call > a + T + TICK + SLACK, seen == "A", "still-present-after-instance-timeout-bound", "%.2f s after the acknowledged last refresh" % (q_call - a)),
             (q_call > a + H + TICK + SLACK, seen != "H", "still-healthy-after-health-timeout-bound", "%.2f s after the acknowledged last refresh" % (q_call - a))]
    for cond, ok, sym, detail in rules:
        if cond:
            applied += 1
            if not ok and bad is None:
                bad = (sym, detail)
    if not applied:
        return None
    return (bad[0] if bad else None, mode, origin, bad[1] if bad else "")


def real_node_layer(wd, seed):
    """One real rnacos process (H = 3 s, T = 4 s through the environment), HTTP open API only: register / beat / flip, polled every
    100 ms through GET /nacos/v1/ns/instance/list?healthyOnly=false. Each service has a steadily heart-beating anchor, because the
    list applies the protection threshold (all instances unhealthy -> all reported healthy)."""
    import random
    rnd = random.Random(seed)
    os.makedirs(wd, exist_ok=True)
    node = procrig.Node(wd, 1, env={"RNACOS_NAMING_HEALTH_TIMEOUT_SECOND": "0", "RNACOS_NAMING_INSTANCE_TIMEOUT_SECOND": "1"})
    ip = "10.4.4.4"
    svcs = ["c13r-%d-a" % seed, "c13r-%d-b" % seed]
    plan = []        # (t, op, inst)
    insts = []

    def inst(kind, svc):
        i = {"kind": kind, "svc": svc, "port": 7300 + len(insts), "ops": []}
        insts.append(i)
        return i

    def beats(i, t_from, t_to, period):
        t = t_from + period
        while t <= t_to:
            plan.append((t, "beat", i))
            t += period

    END = 14.0
    for s in svcs:
        a = inst("anchor-steady", s)
        plan.append((0.0, "register-ephemeral", a))
        beats(a, 0.0, END, 0.5)
        for _ in range(1):
            i = inst("silent", s)
            t0 = rnd.uniform(0.2, 1.5)
            plan.append((t0, "register-ephemeral", i))
            beats(i, t0, t0 + 2.0, 0.5)
        for k in range(2):
            # persistent first, then re-registered as ephemeral by a heart-beating HTTP client (k=1: silent client)
            i = inst("persistent-then-ephemeral-%s" % ("with-beats" if k == 0 else "silent"), s)
            t0 = rnd.uniform(0.2, 1.5)
            t1 = t0 + rnd.uniform(1.0, 2.5)
            plan.append((t0, "register-persistent", i))
            plan.append((t1, "register-ephemeral", i))
            if k == 0:
                beats(i, t1, t1 + 3.0, 0.5)
        i = inst("ephemeral-then-persistent-while-expiry-pending", s)
        t0 = rnd.uniform(0.2, 1.5)
        plan.append((t0, "register-ephemeral", i))
        beats(i, t0, t0 + 1.0, 0.5)
        plan.append((t0 + 1.0 + rnd.uniform(0.8, 2.6), "register-persistent", i))
    plan.sort(key=lambda x: x[0])
    polls = {s: [] for s in svcs}
    stop = threading.Event()
    errors = []
    try:
        node.start()
        time.sleep(1.0)
        start = time.time()

        def driver():
            for (t, op, i) in plan:
                d = start + t - time.time()
                if d > 0:
                    time.sleep(d)
                try:
                    c = time.time()
                    if op == "beat":
                        ok = _beat(node, i["svc"], ip, i["port"])
                    else:
                        ok = _register(node, i["svc"], ip, i["port"], ephemeral=(op == "register-ephemeral"))
                    a = time.time()
                    if ok:
                        i["ops"].append((op, c, a))
                    else:
                        errors.append(op)
                except OSError as e:
                    errors.append("%s %r" % (op, e))

        def poller():
            while not stop.is_set():
                for s in svcs:
                    c = time.time()
                    l = _list(node, s)
                    a = time.time()
                    if l is not None:
                        polls[s].append((c, a, l))
                stop.wait(0.1)

        th = [threading.Thread(target=driver, daemon=True), threading.Thread(target=poller, daemon=True)]
        for t in th:
            t.start()
        th[0].join(END + 10)
        time.sleep(max(0.0, start + END - time.time()))
        stop.set()
        th[1].join(5)
        if errors:
            raise common.Inconclusive("real-node layer: %d operations refused/failed: %s" % (len(errors), errors[:3]))
        if not node.alive():
            raise common.Inconclusive("real-node layer: node died: %s" % node.tail_log())
    finally:
        stop.set()
        node.kill()
    res = {"violations": [], "shapes": {}, "evaluations": 0, "judged": 0, "samples": []}
    lag = max((a - c) for s in svcs for (c, a, _) in polls[s]) if any(polls.values()) else 9
    res["max_poll_latency_s"] = round(lag, 3)
    anchors = {s: [i for i in insts if i["svc"] == s and i["kind"] == "anchor-steady"][0]["port"] for s in svcs}
    for i in insts:
        obs, judged = "", 0
        for (c, a, l) in polls[i["svc"]]:
            if l.get((ip, anchors[i["svc"]])) is not True:
                continue        # protection threshold may blur the flags
            seen = "A" if (ip, i["port"]) not in l else ("H" if l[(ip, i["port"])] else "U")
            if not obs.endswith(seen):
                obs += seen
            v = _judge(i["ops"], c, a, seen)
            if v is None:
                continue
            judged += 1
            sym, mode, origin, detail = v
            if sym and not (sym.startswith("still-") and lag > 0.4):
                res["violations"].append(("real-node/%s/%s/%s" % (sym, mode, origin),
                                          {"timeline": i["kind"], "service": i["svc"], "ip": ip, "port": i["port"], "rule": detail, "observed": seen,
                                           "query_s": [round(c - start, 3), round(a - start, 3)],
                                           "recorded_http_operations": [[n, round(oc - start, 3), round(oa - start, 3)] for (n, oc, oa) in i["ops"]],
                                           "env": node.env_extra,
                                           "requests": "POST /nacos/v1/ns/instance (serviceName, ip, port, ephemeral, enabled, healthy, weight); PUT /nacos/v1/ns/instance/beat; "
                                                       "GET /nacos/v1/ns/instance/list?healthyOnly=false"}))
        res["evaluations"] += 1
        res["judged"] += judged
        if judged and not i["kind"].startswith("anchor"):
            res["shapes"]["real-node %s obs=%s" % (i["kind"], obs)] = res["shapes"].get("real-node %s obs=%s" % (i["kind"], obs), 0) + 1
        if len(res["samples"]) < 2 and "persistent" in i["kind"]:
            res["samples"].append({"layer": "real-node", "timeline": i["kind"], "observed_sequence": obs, "judged_observations": judged,
                                   "recorded_http_operations": [[n, round(oc - start, 3), round(oa - start, 3)] for (n, oc, oa) in i["ops"]]})
    return res


def _absorb_real_node(out, rn):
    out.evaluations += rn.get("evaluations", 0)
    for k, v in rn.get("shapes", {}).items():
        out.shape(k, v)
    for sig, w in rn.get("violations", []):
        out.violation(sig, w)
    out.samples.extend(rn.get("samples", [])[:2])
    out.extra["real_node_layer"] = {"timelines": rn.get("evaluations"), "judged_observations": rn.get("judged"), "max_poll_latency_s": rn.get("max_poll_latency_s")}


# --------------------------------------------------------------------------------------------------- Rig B layer (thorough)

def _hashes(names):
    p = subprocess.run([common.VH, "c13", "--hash", ",".join(names)], stdout=subprocess.PIPE, stderr=subprocess.DEVNULL, text=True, timeout=30)
    if p.returncode != 0:
        raise common.Inconclusive("vh c13 --hash failed")
    return {n: int(h) for n, h in json.loads(p.stdout.strip().splitlines()[-1])}


def _register(node, svc, ip, port, ephemeral=True):
    r = node.post("/nacos/v1/ns/instance", form={"serviceName": svc, "ip": ip, "port": str(port), "ephemeral": "true" if ephemeral else "false",
                                                 "enabled": "true", "healthy": "true", "weight": "1"}, timeout=5)
    return r.status == 200 and r.text() == "ok"


def _beat(node, svc, ip, port):
    beat = json.dumps({"ip": ip, "port": port, "serviceName": "DEFAULT_GROUP@@" + svc, "cluster": "DEFAULT", "weight": 1, "metadata": {}})
    r = procrig.http(node.http_port, "PUT", "/nacos/v1/ns/instance/beat", params={"serviceName": svc, "beat": beat}, timeout=5)
    return r.status == 200


def _list(node, svc):
    """{(ip, port): healthy} as the open API reports it, or None when the node did not answer"""
    try:
        r = node.get("/nacos/v1/ns/instance/list", params={"serviceName": svc, "healthyOnly": "false"}, timeout=3)
    except OSError:
        return None
    j = r.json()
    if r.status != 200 or not isinstance(j, dict):
        return None
    return {(h.get("ip"), h.get("port")): bool(h.get("healthy")) for h in (j.get("hosts") or [])}


def _silent_expiry(out, cl, svcs, owner, hv, ip, port0, label, info):
    """all nodes alive: register through node 1 (routed to the owner), beat ~3 s through all nodes, fall silent; every node must
    drop the instance within T + tick + slack (+ sync delay on the non-owners)."""
    last_ack = {}
    for i, s in enumerate(svcs):
        if not _register(cl.nodes[0], s, ip, port0 + i):
            raise common.Inconclusive("cluster layer: HTTP registration refused")
        last_ack[s] = time.time()
    t_end = time.time() + 3.0
    while time.time() < t_end:
        for i, s in enumerate(svcs):
            if _beat(cl.nodes[i % 3], s, ip, port0 + i):
                last_ack[s] = time.time()
        time.sleep(0.7)
    t_silent = time.time()
    seen_on_owner = {s: False for s in svcs}
    gone_at = {(s, n.id): None for s in svcs for n in cl.nodes}
    bound = T + TICK + SLACK + SYNC
    while time.time() - t_silent < bound + 3.0:
        for i, s in enumerate(svcs):
            for n in cl.nodes:
                tq = time.time()
                l = _list(n, s)
                if l is None:
                    continue
                present = (ip, port0 + i) in l
                if present and n.id == owner[s]:
                    seen_on_owner[s] = True
                if not present and tq - last_ack[s] < T - 0.5 and n.id == owner[s] and seen_on_owner[s]:
                    out.violation("real-cluster/removed-before-instance-timeout/%s" % label,
                                  {"service": s, "node": n.id, "owner": owner[s], "seconds_after_last_beat_ack": round(tq - last_ack[s], 2)})
                if not present and gone_at[(s, n.id)] is None:
                    gone_at[(s, n.id)] = round(tq - last_ack[s], 2)
                if present:
                    gone_at[(s, n.id)] = None
                if present and tq - last_ack[s] > (bound if n.id != owner[s] else bound - SYNC):
                    out.violation("real-cluster/still-present-after-instance-timeout-bound/%s" % label,
                                  {"service": s, "hash_mod_3": hv[s] % 3, "node": n.id, "owner": owner[s], "observed_on": "owner-node" if n.id == owner[s] else "non-owner-node",
                                   "healthy_flag": l[(ip, port0 + i)],
                                   "seconds_after_last_beat_ack": round(tq - last_ack[s], 2), "bound_s": bound if n.id != owner[s] else bound - SYNC,
                                   "silent_window_seconds_after_first_node_start": [round(t_silent - info["t_first_node_start"], 1), round(t_silent - info["t_first_node_start"] + bound, 1)],
                                   "sequence": "POST /nacos/v1/ns/instance via node 1; PUT /nacos/v1/ns/instance/beat every 0.7 s for 3 s via nodes 1,2,3 in turn; silence; "
                                               "GET /nacos/v1/ns/instance/list?healthyOnly=false on every node every 0.25 s"})
        time.sleep(0.25)
    out.evaluations += len(svcs)
    for s in svcs:
        out.shape("real-cluster %s owner=%d" % (label, owner[s]))
    info["%s_removed_seconds_after_last_beat" % label] = {s: {str(n.id): gone_at[(s, n.id)] for n in cl.nodes} for s in svcs[:4]}


def cluster_layer(out, wd, seed):
    """Real 3-node cluster. (C) silent HTTP instances whose silence spans the one-shot naming snapshot exchange that every node
    performs 45 s after its start; (A) the same after all exchanges are over: instances expire on every node; (B) owner node killed
    together with the clients: the surviving nodes must expire the instances they take over (bound += 15 s liveness + 3 s tick)."""
    os.makedirs(wd, exist_ok=True)
    env = {"RNACOS_NAMING_HEALTH_TIMEOUT_SECOND": "0", "RNACOS_NAMING_INSTANCE_TIMEOUT_SECOND": "1"}
    cl = procrig.Cluster(wd, 3, env=env)
    info = {"status": "ran"}
    try:
        info["t_first_node_start"] = time.time()
        cl.start()
        info["t_last_node_ready"] = round(time.time() - info["t_first_node_start"], 1)
        n1, n2, n3 = cl.nodes
        names = ["c13c-%d-%d" % (seed, i) for i in range(24)]
        hv = _hashes(names)
        owner = {s: cl.nodes[hv[s] % 3].id for s in names}
        info["services_per_owner"] = {str(i): sum(1 for s in names if owner[s] == i) for i in (1, 2, 3)}
        ip = "10.2.2.2"
        # InnerNodeManage::first_query_snapshot: every node pulls a naming snapshot from its peers 1 s, 15 s and 45 s after its first
        # node list and pushes one after 30 s. (C) puts the silent window over the 45 s mark of all three nodes.
        t0 = info["t_first_node_start"]
        if time.time() - t0 > 36.0:
            raise common.Inconclusive("cluster layer: cluster formed too late for the scheduled scenarios")
        time.sleep(max(0.0, t0 + 38.5 - time.time()))
        _silent_expiry(out, cl, names[18:24], owner, hv, ip, 7200, "all-nodes-alive-silence-spans-snapshot-exchange", info)
        time.sleep(max(0.0, t0 + 58.0 - time.time()))
        # ---------------- (A) all nodes alive, no snapshot exchange pending any more
        _silent_expiry(out, cl, names[:9], owner, hv, ip, 7000, "all-nodes-alive", info)
        # ---------------- (B) kill a non-leader node together with all clients
        leader = cl.leader()
        victim = [n for n in cl.nodes if leader is None or n.id != leader.id][-1]
        survivors = [n for n in cl.nodes if n.id != victim.id]
        b_svcs = names[9:18]
        for i, s in enumerate(b_svcs):
            if not _register(survivors[0], s, ip, 7100 + i):
                raise common.Inconclusive("cluster layer: HTTP registration refused")
        stop = threading.Event()
        last_ack_b = {}

        def beater():
            while not stop.is_set():
                for i, s in enumerate(b_svcs):
                    try:
                        if _beat(survivors[i % 2], s, ip, 7100 + i):
                            last_ack_b[s] = time.time()
                    except OSError:
                        pass
                stop.wait(0.8)

        th = threading.Thread(target=beater, daemon=True)
        th.start()
        time.sleep(4.0)
        # every instance must be known on the survivors before the fault (otherwise there is nothing to take over)
        known = {s: all((ip, 7100 + i) in (_list(n, s) or {}) for n in survivors) for i, s in enumerate(b_svcs)}
        stop.set()
        th.join(5)
        t_kill = time.time()
        victim.kill()
        info["victim"] = victim.id
        info["B_known_on_survivors_before_kill"] = sum(1 for v in known.values() if v)
        bound_own = T + TICK + SLACK + SYNC
        bound_taken = NODE_DETECT + T + 2 * TICK + SLACK + SYNC
        last_seen = {}
        t0 = time.time()
        while time.time() - t0 < bound_taken + 3.0:
            for i, s in enumerate(b_svcs):
                for n in survivors:
                    tq = time.time()
                    l = _list(n, s)
                    if l is not None and (ip, 7100 + i) in l:
                        last_seen[(s, n.id)] = (round(tq - t_kill, 2), l[(ip, 7100 + i)])
            time.sleep(0.5)
        for i, s in enumerate(b_svcs):
            if not known[s] or s not in last_ack_b:
                continue
            out.evaluations += 1
            taken = owner[s] == victim.id
            out.shape("real-cluster owner-killed owner=%s" % ("victim" if taken else "survivor"))
            bound = bound_taken if taken else bound_own
            for n in survivors:
                ls = last_seen.get((s, n.id))
                if ls and ls[0] > bound:
                    out.violation("real-cluster/still-present-after-instance-timeout-bound/%s" %
                                  ("owner-node-killed-with-clients" if taken else "owner-survives-other-node-killed"),
                                  {"service": s, "hash_mod_3": hv[s] % 3, "owner_before_kill": owner[s], "killed_node": victim.id, "observed_on_node": n.id,
                                   "last_seen_seconds_after_kill": ls[0], "healthy_flag_then": ls[1], "bound_s": round(bound, 1),
                                   "env": env, "sequence": "POST /nacos/v1/ns/instance + PUT /nacos/v1/ns/instance/beat every 0.8 s for 4 s via surviving nodes; "
                                                           "SIGKILL owner and stop beating; GET /nacos/v1/ns/instance/list?healthyOnly=false on the survivors"})
        info["B_taken_over_services"] = sum(1 for s in b_svcs if owner[s] == victim.id)
        info["B_last_seen_after_kill_s"] = {"%s@n%d" % (s, nid): v for (s, nid), v in list(last_seen.items())[:12]}
        out.samples.append({"layer": "real-cluster", "victim": victim.id, "owners": {s: owner[s] for s in names[:6]},
                            "all_alive_removed_seconds_after_last_beat": info["all-nodes-alive_removed_seconds_after_last_beat"]})
        info.pop("t_first_node_start", None)
        out.extra["cluster_layer"] = info
    finally:
        cl.kill_all()


def aged_cluster_restart_part(out, wd, seed):
    """real two-node cluster whose nodes are past their start-up announcements and whose last range change lies more than a minute
    back: silent HTTP instances are registered, the node responsible for half of them is killed and restarted AT ONCE (its peer never
    marks it unavailable). It has to learn its instances back from the peer and expire them: every silent instance must be gone from
    BOTH nodes within the bound, the heart-beating ones must stay"""
    info = {}
    env = {"RNACOS_NAMING_HEALTH_TIMEOUT_SECOND": "0", "RNACOS_NAMING_INSTANCE_TIMEOUT_SECOND": "1"}      # H = 3 s, T = 4 s
    n1 = procrig.Node(os.path.join(wd, "aged"), 1, env=env, auto_init=True, name="aged1")
    n2 = procrig.Node(os.path.join(wd, "aged"), 2, env=env, join=n1.grpc_addr, auto_init=False, name="aged2")
    stop = threading.Event()
    try:
        n1.start()
        n2.start()
        t0 = time.time()
        while time.time() - t0 < 30:
            m = n2.metrics()
            if m and len((m.get("membership_config") or {}).get("members") or []) == 2 and m.get("current_leader"):
                break
            time.sleep(0.3)
        else:
            raise common.Inconclusive("two-node cluster did not form")
        time.sleep(max(0.0, t0 + 70.0 - time.time()))      # start-up announcements (0/10/30/60 s) over, ranges settled for > 60 s
        silent = ["c13aged-%d-s%d" % (seed, i) for i in range(16)]
        beaten = ["c13aged-%d-b%d" % (seed, i) for i in range(4)]

        def beater():
            while not stop.is_set():
                for i, sv in enumerate(beaten):
                    try:
                        _beat(n1, sv, "10.13.9.%d" % i, 80)
                    except OSError:
                        pass
                stop.wait(1.0)
        for i, sv in enumerate(beaten):
            _register(n1, sv, "10.13.9.%d" % i, 80)
        th = threading.Thread(target=beater, daemon=True)
        th.start()
        ok = sum(1 for i, sv in enumerate(silent) if _register(n1, sv, "10.13.8.%d" % i, 80))
        t_reg = time.time()
        if ok < len(silent):
            raise common.Inconclusive("only %d of %d registrations accepted" % (ok, len(silent)))
        time.sleep(0.7)                                   # one sync tick: both nodes hold all of them
        n2.kill()
        n2.start()
        info["node2_back_after_s"] = round(time.time() - t_reg, 1)
        # bound: T (4 s) after the registration for what node 1 supervises; for node 2's share: its restart + first snapshot exchange with
        # its peer + T + check ticks; 25 s is generous for both
        bound = 25.0
        left = None
        while time.time() - t_reg < bound:
            left = {}
            for nd in (n1, n2):
                for i, sv in enumerate(silent):
                    l = _list(nd, sv)
                    if l is None or l:
                        left.setdefault(nd.id, []).append(sv)
            if not left:
                break
            time.sleep(1.0)
        info["silent_instances_gone_after_s"] = round(time.time() - t_reg, 1) if not left else None
        out.evaluations += 2 * len(silent)
        kept = sum(1 for i, sv in enumerate(beaten) for nd in (n1, n2) if (_list(nd, sv) or {}).get(("10.13.9.%d" % i, 80)) is True)
        info["heart_beating_instances_still_healthy(node x instance)"] = kept
        if left:
            out.violation("cluster/silent-instances-never-expire/owner-restarted-at-once-in-an-aged-cluster",
                          dict(info, bound_s=bound, still_listed={str(k): v[:6] for k, v in left.items()}, n_silent=len(silent)))
        elif kept < 2 * len(beaten):
            out.violation("cluster/heart-beating-instance-lost/owner-restarted-at-once-in-an-aged-cluster", dict(info, expected=2 * len(beaten)))
        else:
            out.shape("cluster/aged-two-node-cluster/owner-restarted-at-once/silent-expired-everywhere")
    except common.Inconclusive as e:
        info["inconclusive"] = str(e)[:300]
    except OSError as e:
        info["inconclusive"] = repr(e)[:300]
    finally:
        stop.set()
        n1.kill()
        n2.kill()
    out.extra["aged_cluster_restart"] = info


def replay(path):
    w = json.load(open(path))
    print(json.dumps(w, indent=1))
    return run(w.get("tier", "quick"), int(w.get("seed", 1)))
