"""C01 — served state survives restart: snapshot plus log replay reproduces it exactly."""
import glob
import json
import os
import random
import re
import shutil
import time
from concurrent.futures import ThreadPoolExecutor

import common
import noderig
from common import Outcome

RECOVER_BOUND_MS = 15000


def req_kind(req):
    k = list(req)[0]
    v = req[k]
    if isinstance(v, dict) and "req" in v and isinstance(v["req"], dict):
        return k + "." + list(v["req"])[0]
    if isinstance(v, dict) and len(v) == 1 and k in ("TableManagerReq", "NamespaceReq"):
        return k + "." + list(v)[0]
    return k


class SeqModel:
    """what the next id of a raft sequence / table sequence must be, when known from the responses"""

    def __init__(self):
        self.next = {}

    def observe(self, req, resp):
        if "SequenceReq" in req:
            r = req["SequenceReq"]["req"]
            kind = list(r)[0]
            key = r[kind] if isinstance(r[kind], str) else r[kind][0]
            res = (resp or {}).get("SequenceResp", {}).get("resp") if isinstance(resp, dict) else None
            if kind == "NextId" and isinstance(res, dict) and "NextId" in res:
                self.next[key] = res["NextId"] + 1
            elif kind == "NextRange" and isinstance(res, dict) and "NextRange" in res:
                self.next[key] = res["NextRange"]["start"] + res["NextRange"]["len"]
            else:
                self.next.pop(key, None)


def normalise_admin_bootstrap(before, after):
    """r-nacos creates the default admin when it starts with an empty user table (documented bootstrap); that is not a
    restart difference. An admin that existed before the stop is compared like every other row."""
    tb = before.get("tables", {}).get("T_USER")
    ta = after.get("tables", {}).get("T_USER")
    if ta and "admin" in ta.get("rows", {}) and not (tb and tb.get("rows")):
        del ta["rows"]["admin"]
        ta["total"] -= 1
        if not ta["rows"] and tb is None:
            del after["tables"]["T_USER"]


def restart_compare(sess, d, gen, snap, min_index, label, seqm, env=None):
    """stop at a quiescent point, restart from the same directory, compare the served state"""
    b = sess.call("barrier", min_index=min_index, bound_ms=RECOVER_BOUND_MS)
    if not b.get("ok"):
        return sess, {"symptom": "not-quiescent-before-stop", "inconclusive": True, "detail": b}
    sess.call("actor_barrier", ms=50)     # cross-actor fire-and-forget messages (weak namespaces ...) have settled
    before = sess.call("dump", **gen.dump_args())
    m = sess.call("metrics")
    sess.call("sleep", ms=120)   # in-flight blocking file writes land
    if not noderig.settle_on_disk(sess, d):
        return sess, {"symptom": "not-quiescent-before-stop", "inconclusive": True, "detail": {"applied_on_disk": noderig.applied_index_on_disk(d), "metrics": m}}
    sess.kill()
    sess = noderig.NodeSession(d, snapshot_size=snap, env=env)
    b2 = sess.call("barrier", min_index=m.get("last_log_index", 0), bound_ms=RECOVER_BOUND_MS)
    if not b2.get("ok"):
        return sess, {"symptom": "not-recovered-within-bound", "where": label, "detail": {"barrier": b2, "before_stop": m}}
    sess.call("actor_barrier", ms=50)
    after = sess.call("dump", **gen.dump_args())
    if not after.get("ok") or not before.get("ok"):
        return sess, {"symptom": "dump-error", "inconclusive": True, "detail": [before.get("err"), after.get("err")]}
    normalise_admin_bootstrap(before, after)
    diffs = noderig.diff_dumps(before, after)
    # the instance-metadata override family is reported once and does not hide other differences of the same restart
    meta = [x for x in diffs if x[0].startswith("/naming/") and "/metadata" in x[0]]
    rest = [x for x in diffs if x not in meta]
    viols = []
    for group in (meta[:1], rest[:1]):
        if not group:
            continue
        full = meta if group is meta[:1] or (meta and group[0] == meta[0]) else rest
        parts = group[0][0].split("/")          # ['', component, item-key, field...]
        comp = parts[1] if len(parts) > 1 else "?"
        a, b2v = group[0][1], group[0][2]
        direction = "changed"
        if a in ("<absent>", None) or (isinstance(a, int) and isinstance(b2v, int) and not isinstance(a, bool) and a < b2v and parts[-1].endswith(("total", "#len"))):
            direction = "resurrected-or-added"
        elif b2v in ("<absent>", None) or (isinstance(a, int) and isinstance(b2v, int) and not isinstance(a, bool) and a > b2v and parts[-1].endswith(("total", "#len"))):
            direction = "missing"
        # field class: drop the item key (config key, instance address, user name ...) but keep what kind of field differs
        if comp == "tables":
            field = "/".join(parts[2:5])
        elif comp == "configs":
            field = re.sub(r"\[\d+\]", "[]", "/".join(parts[3:])) or "-"
        elif comp == "naming":
            field = parts[4] if len(parts) > 4 else "instance"
        elif comp == "mcp":
            field = parts[2] + "/" + (re.sub(r"\[\d+\]", "[]", "/".join(parts[4:])) or "-") if len(parts) > 3 else "/".join(parts[2:])
        else:
            field = re.sub(r"\[\d+\]", "[]", "/".join(parts[2:])) or "-"
        viols.append({"symptom": "state-differs-after-restart", "component": comp, "direction": direction, "field": field, "where": label,
                      "detail": {"diffs": [[p, json.dumps(x)[:300], json.dumps(y)[:300]] for p, x, y in full[:5]], "recovered_in_ms": b2.get("ms"), "metrics_before_stop": m}})
    if viols:
        return sess, viols
    # issued sequence counters continue where they stopped
    for key, nxt in sorted(seqm.next.items()):
        r = sess.write({"SequenceReq": {"req": {"NextId": key}}})
        got = ((r.get("resp") or {}).get("SequenceResp") or {}).get("resp", {}).get("NextId") if r.get("ok") else None
        if got is not None:
            if got != nxt:
                return sess, {"symptom": "sequence-counter-differs-after-restart", "component": "sequence", "direction": "back" if got < nxt else "forward", "field": "next_id", "where": label,
                              "detail": {"key": key, "expected_next": nxt, "got": got}}
            seqm.next[key] = got + 1
    return sess, None


def is_meta(v):
    return v.get("component") == "naming" and v.get("field") == "metadata" and not v.get("inconclusive")


def one_history(args):
    wd, seed, n_ops, snap, variant = args
    rnd = random.Random(seed)
    d = os.path.join(wd, "n%d" % seed)
    shutil.rmtree(d, ignore_errors=True)
    gen = noderig.ReqGen(rnd)
    if variant == "big-values":
        gen.big_p = 0.08
        variant = "random"
        bigv = True
    else:
        bigv = False
    seqm = SeqModel()
    res = {"seed": seed, "snap": snap, "variant": "big-values" if bigv else variant, "restarts": 0, "writes": 0, "rejected": 0}
    sess = None
    trace = []
    try:
        concurrent = variant == "concurrent-compaction"
        # slow-injection: the restarted node replays snapshot and log while the bean factory has not yet wired the actors to each
        # other (the window exists in the program - the raft store is started inside config_factory, the actors learn their
        # collaborators in factory.init() - and is seen on a loaded machine; the guarded delay hook makes it wide)
        renv = {"RNACOS_VERIF_DELAY_INJECT_MS": str(rnd.choice([150, 400, 900]))} if variant == "slow-injection" else None
        real_snap = snap if concurrent else 10000
        compact_p = 0.0 if concurrent or snap >= 10000 else 1.0 / snap
        sess = noderig.NodeSession(d, snapshot_size=real_snap)
        b = sess.call("barrier", min_index=1, bound_ms=RECOVER_BOUND_MS)
        if not b.get("ok"):
            res["inconclusive"] = "initial barrier failed: %s" % b
            return res
        res["compactions"] = 0
        last_content = None
        restart_at = set()
        if variant == "double-restart":
            restart_at = {n_ops // 2, n_ops // 2 + 1}
        elif variant == "restart-then-more":
            restart_at = {n_ops // 3, 2 * n_ops // 3}
        elif variant.startswith("tail"):
            restart_at = set()
        else:
            restart_at = {i for i in range(n_ops) if rnd.random() < 0.02}
        last_index = 0
        found = []
        for i in range(n_ops):
            req = gen.next(last_content)
            if "ConfigSet" in req:
                last_content = req["ConfigSet"]["value"]
            r = sess.write(req)
            trace.append(req_kind(req))
            if r.get("ok"):
                res["writes"] += 1
                last_index = max(last_index, r.get("index", 0))
                seqm.observe(req, r.get("resp"))
            else:
                res["rejected"] += 1
                seqm.observe(req, None)
            if compact_p and rnd.random() < compact_p:
                # a compaction placed between two writes (awaited: no apply runs concurrently with the snapshot build)
                sess.call("barrier", min_index=last_index, bound_ms=RECOVER_BOUND_MS)
                cr = sess.call("compact")
                if cr.get("ok"):
                    res["compactions"] += 1
                trace.append("<compact>")
            if i in restart_at:
                sess, v = restart_compare(sess, d, gen, real_snap, last_index, "restart@%d" % i, seqm, env=renv)
                res["restarts"] += 1
                vl = v if isinstance(v, list) else ([v] if v else [])
                found += vl
                if any(not is_meta(x) for x in vl):
                    break
        else:
            if variant.startswith("tail"):
                # a compaction, then exactly k more acknowledged writes, then the restart: the replay has to pick up
                # precisely the k entries behind the newest snapshot (k = 0, 1, 2)
                sess.call("barrier", min_index=last_index, bound_ms=RECOVER_BOUND_MS)
                cr = sess.call("compact")
                if cr.get("ok"):
                    res["compactions"] += 1
                trace.append("<compact>")
                for _ in range(int(variant[4:])):
                    req = gen.next(last_content)
                    while "ConfigSet" not in req:
                        req = gen.next(last_content)
                    last_content = req["ConfigSet"]["value"]
                    r = sess.write(req)
                    trace.append(req_kind(req))
                    if r.get("ok"):
                        res["writes"] += 1
                        last_index = max(last_index, r.get("index", 0))
                        seqm.observe(req, r.get("resp"))
                    else:
                        seqm.observe(req, None)
            sess, v = restart_compare(sess, d, gen, real_snap, last_index, "final", seqm, env=renv)
            res["restarts"] += 1
            found += v if isinstance(v, list) else ([v] if v else [])
        v = found
        snaps = sorted(int(os.path.basename(p).split("_")[1]) for p in glob.glob(os.path.join(d, "snapshot_*")))
        res["snapshots_on_disk"] = snaps
        res["max_snapshot_id"] = max(snaps) if snaps else 0
        res["kinds"] = sorted(gen.kinds)
        vs = v if isinstance(v, list) else ([v] if v else [])
        for v in vs:
            if v.get("inconclusive"):
                res["inconclusive"] = json.dumps(v)[:500]
            else:
                v["trace_tail"] = trace[-40:]
                v["history_seed"] = seed
                v["snapshot_threshold"] = snap
                v["args"] = [seed, n_ops, snap, variant]
                if concurrent:
                    # one root cause (the snapshot is not a consistent cut when applies run while it is built, the log suffix is
                    # applied twice after the restart); which component shows it depends on timing, so one signature for the scenario
                    sig = "concurrent-compaction/state-or-counter-differs-after-restart"
                elif v.get("component") == "naming" and v.get("field") == "metadata":
                    # live override map (instance_metadata_map / ns_instance_meta file) vs raft-restored metadata: the direction
                    # (older value, value back, value gone) depends only on which of the two happened to be newer
                    sig = "%s/naming/instance-metadata" % v["symptom"]
                else:
                    # a row is [md5, length]: which of the two differs first is not part of the finding
                    sig = "%s/%s/%s/%s" % (v["symptom"], v.get("component", "-"), v.get("direction", "-"), re.sub(r"\[\d+\]$", "", str(v.get("field", "-"))))
                res.setdefault("violations", []).append({"signature": sig, "witness": v})
        return res
    except noderig.NodeDied as e:
        res["inconclusive"] = "node session died: %s" % e
        return res
    finally:
        if sess:
            sess.kill()
        shutil.rmtree(d, ignore_errors=True)


def compaction_crash_history(args):
    """process death DURING a compaction of a sizeable state: a complete node runs under the write-journal interposer; the state
    is dumped at a quiescent point, then one compaction runs with nothing else going on; for the file-mutation prefixes of that
    compaction (every index / catalogue / create / unlink / set-len mutation and a sample of the snapshot writes) the directory
    image is restarted by a fresh node and must serve exactly the dumped state"""
    import crashrig
    wd, seed, n_cfg = args
    rnd = random.Random(seed)
    base = os.path.join(wd, "cc%d" % seed)
    d = os.path.join(base, "live")
    shutil.rmtree(base, ignore_errors=True)
    os.makedirs(d)
    jpath = os.path.join(base, "journal")
    so = crashrig.build_shim()
    res = {"seed": seed, "snap": 10000, "variant": "crash-during-compaction", "restarts": 0, "writes": 0, "rejected": 0, "images": 0}
    sess = None
    try:
        sess = noderig.NodeSession(d, snapshot_size=10000, preload=so, env={"VERIF_JOURNAL": jpath, "VERIF_JOURNAL_DIR": d})
        b = sess.call("barrier", min_index=1, bound_ms=RECOVER_BOUND_MS)
        if not b.get("ok"):
            res["inconclusive"] = "initial barrier failed: %s" % b
            return res
        gen = noderig.ReqGen(rnd)
        gen.big_p = 0.0
        last_index = 0
        last_content = None
        while res["writes"] < n_cfg:
            req = gen.next(last_content)
            if "ConfigSet" not in req:
                continue
            if len(req["ConfigSet"]["value"]) < 1500:
                req["ConfigSet"]["value"] += "p" * 1500       # a snapshot of several hundred KB: many writer messages per compaction
            last_content = req["ConfigSet"]["value"]
            r = sess.write(req)
            if r.get("ok"):
                res["writes"] += 1
                last_index = max(last_index, r.get("index", 0))
        sess.call("barrier", min_index=last_index, bound_ms=RECOVER_BOUND_MS)
        sess.call("actor_barrier", ms=50)
        if not noderig.settle_on_disk(sess, d):
            res["inconclusive"] = "applied index did not reach the index file"
            return res
        before = sess.call("dump", **gen.dump_args())
        time.sleep(0.3)
        j0 = os.path.getsize(jpath)
        cr = sess.call("compact")
        if not cr.get("ok"):
            res["inconclusive"] = "compaction refused: %s" % cr
            return res
        res["compactions"] = 1
        sess.call("barrier", min_index=last_index, bound_ms=RECOVER_BOUND_MS)
        time.sleep(0.4)
        sess.kill()
        sess = None
        with open(jpath, "rb") as f:
            data = f.read()
        pre = os.path.join(base, "journal.pre")
        with open(pre, "wb") as f:
            f.write(data[:j0])
        k0 = len(crashrig.parse_journal(pre, d))
        recs = crashrig.parse_journal(jpath, d)
        os.remove(pre)
        res["compaction_mutations"] = len(recs) - k0
        if len(recs) - k0 < 5:
            res["inconclusive"] = "compaction produced only %d file mutations" % (len(recs) - k0)
            return res
        # which prefixes: everything that is not a plain snapshot data write, plus a sample of those
        cand = []
        for k in range(k0, len(recs)):
            rk = recs[k]
            plain = rk[0] == "W" and rk[1].startswith("snapshot_")
            if not plain or (k - k0) % max(1, (len(recs) - k0) // 12) == 0:
                cand.append(k)
        cand = sorted(set(cand + [len(recs) - 1]))[:45]
        img = crashrig.Image()
        for k in range(k0):
            if recs[k][0] != "M":
                img.apply(recs[k])
        nxt = k0
        idir = os.path.join(base, "img")
        found = []
        for k in cand:
            while nxt <= k:
                if recs[nxt][0] != "M":
                    img.apply(recs[nxt])
                nxt += 1
            img.materialise(idir)
            s2 = None
            try:
                s2 = noderig.NodeSession(idir, snapshot_size=10000)
                b2 = s2.call("barrier", min_index=last_index, bound_ms=RECOVER_BOUND_MS)
                if not b2.get("ok"):
                    found.append({"symptom": "not-recovered-within-bound", "component": "-", "direction": "-", "field": "-", "detail": {"barrier": b2}, "k": k})
                    break
                s2.call("actor_barrier", ms=50)
                after = s2.call("dump", **gen.dump_args())
            except noderig.NodeDied as e:
                found.append({"symptom": "restart-failed", "component": "-", "direction": "-", "field": "-", "detail": {"error": str(e)}, "k": k})
                break
            finally:
                if s2:
                    s2.kill()
            res["images"] += 1
            res["restarts"] += 1
            normalise_admin_bootstrap(before, after)
            diffs = noderig.diff_dumps(before, after)
            if diffs:
                p0 = [re.sub(r"\[\d+\]$", "", x) for x in diffs[0][0].split("/")]
                found.append({"symptom": "state-differs-after-restart", "component": p0[1] if len(p0) > 1 else "-", "direction": "changed", "field": "/".join(p0[2:4]),
                              "detail": {"diffs": [[pp, json.dumps(x)[:120], json.dumps(y)[:120]] for pp, x, y in diffs[:5]], "n_diffs": len(diffs)}, "k": k})
                break
        res["kinds"] = ["ConfigSet"]
        res["max_snapshot_id"] = 1
        for v in found:
            rk = recs[v["k"]]
            v["crash_after_mutation"] = [rk[0], rk[1]] + ([rk[2], len(rk[3])] if rk[0] == "W" else list(rk[2:3]))
            v["journal_prefix"] = v["k"] - k0 + 1
            v["of_compaction_mutations"] = len(recs) - k0
            v["history_seed"] = seed
            v["n_cfg"] = n_cfg
            what = "snapshot-data" if rk[1].startswith("snapshot_") else rk[1].split("_")[0]
            res.setdefault("violations", []).append({"signature": "crash-during-compaction/%s/%s/after-%s-write" % (v["symptom"], v["component"], what), "witness": v})
        return res
    except noderig.NodeDied as e:
        res["inconclusive"] = "node session died: %s" % e
        return res
    finally:
        if sess:
            sess.kill()
        shutil.rmtree(base, ignore_errors=True)


def compaction_among_writes(args):
    """a compaction that is started while client writes are in flight (appended, some not yet applied); every write of such a burst
    creates a key of its own, so that applying an entry a second time after the restart changes nothing - what the known snapshot-cut
    defect does to these histories is invisible, and an acknowledged write that the snapshot claims but does not hold is not"""
    wd, seed, n_bursts = args
    rnd = random.Random(seed)
    d = os.path.join(wd, "caw%d" % seed)
    shutil.rmtree(d, ignore_errors=True)
    res = {"seed": seed, "snap": 10000, "variant": "compaction-among-writes-to-fresh-keys", "restarts": 0, "writes": 0, "rejected": 0, "kinds": ["ConfigSet"], "max_snapshot_id": 0}
    sess = None
    try:
        sess = noderig.NodeSession(d, snapshot_size=10000)
        b = sess.call("barrier", min_index=1, bound_ms=RECOVER_BOUND_MS)
        if not b.get("ok"):
            res["inconclusive"] = "initial barrier failed: %s" % b
            return res
        gen = noderig.ReqGen(rnd)
        seqm = SeqModel()
        last_index = 0
        n = 0
        for burst in range(n_bursts):
            reqs = []
            for _ in range(rnd.choice([8, 20, 40])):
                n += 1
                reqs.append({"ConfigSet": {"key": "caw-%d-%d\x02g%d\x02t%d" % (seed % 1000, n, n % 2, n % 3) if n % 3 else "caw-%d-%d\x02g%d" % (seed % 1000, n, n % 2),
                                           "value": "v%d-%s" % (n, "x" * rnd.choice([3, 200, 3000])), "config_type": None, "desc": None, "history_id": 0,
                                           "history_table_id": None, "op_time": 1700000000000 + n, "op_user": None}})
            r = sess.call("burst_with_compaction", reqs=reqs, compact_after=rnd.choice([1, 3, len(reqs) // 2]), lead_us=rnd.choice([0, 200, 600, 1500, 4000]))
            if not r.get("ok"):
                res["inconclusive"] = "burst failed: %s" % json.dumps(r)[:200]
                return res
            res["writes"] += r.get("acked", 0)
            res["rejected"] += r.get("refused", 0)
            last_index = max(last_index, r.get("max_index") or 0)
            if isinstance(r.get("snapshot_index"), int):
                res["max_snapshot_id"] += 1
                if r.get("min_index") and r["snapshot_index"] >= r["min_index"]:
                    res["compactions_among_writes"] = res.get("compactions_among_writes", 0) + 1
            for q in reqs:
                parts = q["ConfigSet"]["key"].split("\x02")
                gen.config_keys.add((parts[0], parts[1], parts[2] if len(parts) > 2 else ""))
            sess, v = restart_compare(sess, d, gen, 10000, last_index, "restart#%d" % burst, seqm)
            res["restarts"] += 1
            if v:
                for x in (v if isinstance(v, list) else [v]):
                    if x.get("inconclusive"):
                        res["inconclusive"] = "%s: %s" % (x["symptom"], json.dumps(x.get("detail"))[:200])
                        return res
                    x["history_seed"] = seed
                    x["bursts"] = n_bursts
                    res.setdefault("violations", []).append({"signature": "compaction-among-writes/%s/%s/%s/%s" % (x["symptom"], x.get("component", "-"), x.get("direction", "-"), x.get("field", "-")), "witness": x})
                return res
        return res
    except noderig.NodeDied as e:
        res["inconclusive"] = "node session died: %s" % e
        return res
    finally:
        if sess:
            sess.kill()
        shutil.rmtree(d, ignore_errors=True)


def interrupted_compaction(args):
    """an earlier compaction attempt was interrupted and left a partial snapshot_<next id> behind; the node restarts,
    shrinks its state, compacts again (same file name) and restarts once more"""
    wd, seed, cut_mode = args
    rnd = random.Random(seed)
    d = os.path.join(wd, "ic%d" % seed)
    shutil.rmtree(d, ignore_errors=True)
    gen = noderig.ReqGen(rnd)
    seqm = SeqModel()
    res = {"seed": seed, "snap": 30, "variant": "interrupted-compaction/" + cut_mode, "restarts": 0, "writes": 0, "rejected": 0}
    sess = None
    try:
        sess = noderig.NodeSession(d, snapshot_size=10000)
        sess.call("barrier", min_index=1, bound_ms=RECOVER_BOUND_MS)
        last_index = 0
        # phase 1: grow the state, compactions placed between writes (awaited)
        for i in range(160):
            hid = gen.hid + 1
            gen.hid = hid
            key = "big%d\x02g1" % (i % 40)
            gen.config_keys.add(("big%d" % (i % 40), "g1", ""))
            r = sess.write({"ConfigSet": {"key": key, "value": "payload-%d-" % i + "p" * rnd.randrange(200, 3000), "config_type": None, "desc": None, "history_id": hid,
                                          "history_table_id": hid + 100 if hid % 100 == 1 else None, "op_time": 1700000000000 + i, "op_user": None}})
            if r.get("ok"):
                res["writes"] += 1
                last_index = r["index"]
            if i % 50 == 49:
                sess.call("barrier", min_index=last_index, bound_ms=RECOVER_BOUND_MS)
                sess.call("compact")
        b = sess.call("barrier", min_index=last_index, bound_ms=RECOVER_BOUND_MS)
        sess.call("compact")
        sess.call("sleep", ms=200)
        snaps = sorted(glob.glob(os.path.join(d, "snapshot_*")), key=lambda p: int(p.rsplit("_", 1)[1]))
        if not snaps:
            res["inconclusive"] = "no snapshot was produced in phase 1"
            return res
        newest = snaps[-1]
        nid = int(newest.rsplit("_", 1)[1]) + 1
        sess.kill()
        data = open(newest, "rb").read()
        # the interrupted attempt: a prefix of what SnapshotWriter writes for this state, under the next snapshot id
        cut = {"most": int(len(data) * 0.9), "half": len(data) // 2, "all-but-flush": len(data)}[cut_mode]
        with open(os.path.join(d, "snapshot_%d" % nid), "wb") as f:
            f.write(data[:cut])
        res["partial_snapshot_bytes"] = cut
        # phase 2: restart, delete most of the state, compact again (shorter snapshot under the same id), restart, compare
        sess = noderig.NodeSession(d, snapshot_size=10000)
        res["restarts"] += 1
        b = sess.call("barrier", min_index=last_index, bound_ms=RECOVER_BOUND_MS)
        if not b.get("ok"):
            res["violation"] = {"signature": "not-recovered-within-bound/after-partial-snapshot", "witness": {"barrier": b}}
            return res
        for i in range(40):
            r = sess.write({"ConfigRemove": {"key": "big%d\x02g1" % i}})
            if r.get("ok"):
                last_index = r["index"]
        for i in range(40):   # enough entries for the raft core to compact on its own
            gen.hid += 1
            gen.config_keys.add(("small", "g1", ""))
            r = sess.write({"ConfigSet": {"key": "small\x02g1", "value": "s%d" % i, "config_type": None, "desc": None, "history_id": gen.hid, "history_table_id": None, "op_time": 1700001000000 + i, "op_user": None}})
            if r.get("ok"):
                last_index = r["index"]
                res["writes"] += 1
        sess.call("barrier", min_index=last_index, bound_ms=RECOVER_BOUND_MS)
        cr = sess.call("compact")
        sess.call("sleep", ms=200)
        szs = {int(p.rsplit("_", 1)[1]): os.path.getsize(p) for p in glob.glob(os.path.join(d, "snapshot_*"))}
        res["recompaction"] = cr
        res["snapshots_on_disk"] = sorted(szs)
        res["max_snapshot_id"] = max(szs) if szs else 0
        res["reused_partial_file"] = nid in szs
        sess, v = restart_compare(sess, d, gen, 10000, last_index, "after-recompaction", seqm)
        res["restarts"] += 1
        res["kinds"] = ["ConfigSet", "ConfigRemove"]
        vs = v if isinstance(v, list) else ([v] if v else [])
        for v in vs:
            if v.get("inconclusive"):
                res["inconclusive"] = json.dumps(v)[:500]
            else:
                v["history_seed"] = seed
                sig = "%s/%s/%s/interrupted-compaction-stale-tail" % (v["symptom"], v.get("component", "-"), v.get("direction", "-"))
                res.setdefault("violations", []).append({"signature": sig, "witness": v})
        return res
    except noderig.NodeDied as e:
        res["inconclusive"] = "node session died: %s" % e
        return res
    finally:
        if sess:
            sess.kill()
        shutil.rmtree(d, ignore_errors=True)


def run(tier, seed):
    common.build()
    wd = common.workdir("c01")
    out = Outcome("C01", tier, seed)
    out.rule = ("seeded sequences over all ClientRequest kinds submitted through raft.client_write on a complete in-process node "
                "(config_factory + build_share_data) with snapshot thresholds 5..60 so that the raft core compacts by itself; at "
                "quiescent stop points (recovery barrier: apply-manager round trip + last_applied == last_log_index stable 300 ms) the "
                "node is SIGKILLed and restarted from its directory and the dumps taken through the public actor queries "
                "(config GET/history/listing, namespaces, tables incl. users, MCP servers/tool specs, persistent instances) are compared, "
                "then every sequence key must continue at the expected next id; plus interrupted-compaction scenarios (partial snapshot "
                "file under the next id). non-trivial = history with >=1 restart that replayed a snapshot (>=1 compaction happened) or log; "
                "distinct = (request-kind set hash, #compactions class, variant) tuples")
    try:
        n_hist = 48 if tier == "quick" else 1500
        jobs = []
        rnd = random.Random(seed)
        for i in range(n_hist):
            snap = rnd.choice([5, 8, 13, 25, 40, 60, 10000])
            variant = rnd.choice(["random", "random", "double-restart", "restart-then-more", "concurrent-compaction"])
            jobs.append((wd, seed * 100000 + i, rnd.choice([40, 120, 300]), snap, variant))
        for i in range(2 if tier == "quick" else 40):
            jobs.append((wd, seed * 100000 + 50000 + i, 120, [10000, 25][i % 2], "big-values"))
        for i in range(3 if tier == "quick" else 30):
            jobs.append((wd, seed * 100000 + 55000 + i, [40, 120][i % 2], 10000, "tail%d" % (i % 3)))
        for i in range(6 if tier == "quick" else 60):
            jobs.append((wd, seed * 100000 + 57000 + i, [40, 120][i % 2], [10000, 13, 40][i % 3], "slow-injection"))
        ic = [(wd, seed * 100000 + 80000 + i, ["most", "half", "all-but-flush"][i % 3]) for i in range(3 if tier == "quick" else 45)]
        results = []
        with ThreadPoolExecutor(max_workers=common.NCPU) as ex:
            futs = [ex.submit(one_history, j) for j in jobs] + [ex.submit(interrupted_compaction, j) for j in ic]
            futs += [ex.submit(compaction_among_writes, (wd, seed * 100000 + 95000 + i, 3)) for i in range(6 if tier == "quick" else 60)]
            # long histories first (they take about a minute each): with a few thousand entries the snapshot writer is still draining
            # its queue when the compaction moves on, which is the window a missing flush barrier would open
            futs = [ex.submit(compaction_crash_history, (wd, seed * 100000 + 90000 + i, [1200 if tier == "quick" else 2500, 300][i % 2])) for i in range(4 if tier == "quick" else 24)] + futs
            for f in futs:
                results.append(f.result())
        # oversubscribed lane: 4 node sessions per core. Start-up is a race between the replay (apply actor, own thread), the bean
        # injection pass and the fixed start-up timers; on an idle machine one order always wins, a starved scheduler shows the others
        # (this lane found 6.1 #34 and #36). Quiescence and recovery are decided by the same barriers as everywhere else.
        n_over = 64 if tier == "quick" else 640
        over = [(wd, seed * 100000 + 60000 + i, 40, [10000, 10000, 13][i % 3], ["double-restart", "restart-then-more"][i % 2]) for i in range(n_over)]
        with ThreadPoolExecutor(max_workers=common.NCPU * 4) as ex:
            ro = list(ex.map(one_history, over))
        for r in ro:
            r["variant"] = "oversubscribed-" + r["variant"]
        out.extra["oversubscribed_lane"] = {"histories": len(ro), "sessions_in_parallel": common.NCPU * 4, "restarts": sum(r.get("restarts", 0) for r in ro),
                                            "inconclusive": sum(1 for r in ro if "inconclusive" in r)}
        results += ro
        agg = {"restarts": 0, "writes": 0, "rejected": 0, "histories_with_compaction": 0, "histories_with_3plus_compactions": 0, "kinds_seen": set()}
        for r in results:
            out.evaluations += 1
            if "inconclusive" in r:
                out.extra.setdefault("inconclusive_subruns", []).append(r["inconclusive"][:300])
                continue
            agg["restarts"] += r["restarts"]
            agg["writes"] += r["writes"]
            agg["rejected"] += r["rejected"]
            mx = r.get("max_snapshot_id", 0)
            if mx >= 1:
                agg["histories_with_compaction"] += 1
            if mx >= 3:
                agg["histories_with_3plus_compactions"] += 1
            agg["kinds_seen"].update(r.get("kinds", []))
            for vv in r.get("violations", []):
                out.violation(vv["signature"], vv["witness"])
            if "violation" in r:
                out.violation(r["violation"]["signature"], r["violation"]["witness"])
                continue
            only_meta = all(x["signature"].endswith("naming/instance-metadata") for x in r.get("violations", []))
            if r["restarts"] >= 1 and r["writes"] > 0 and only_meta:
                cclass = "c0" if mx == 0 else "c1" if mx == 1 else "c2" if mx == 2 else "c3+"
                out.shape("%s/%s/kinds%d" % (r["variant"], cclass, len(r.get("kinds", []))))
            if len(out.samples) < 3:
                out.samples.append({k: r[k] for k in ("seed", "snap", "variant", "restarts", "writes", "snapshots_on_disk", "kinds") if k in r})
        agg["kinds_seen"] = sorted(agg["kinds_seen"])
        out.extra.update(agg)
        out.min_nontrivial = 6
        out.assumptions = ["stop points are quiescent (all acknowledged writes applied and in the OS); crash points are C04's",
                           "instance last_modified/register_time/health are excluded from the dump (legitimately change on restart)",
                           "cache entries (TTL-bound) are not compared",
                           "the interrupted compaction is simulated by a prefix of the newest complete snapshot stored under the next "
                           "snapshot id, which is byte-identical to what SnapshotWriter leaves behind for the same state"]
        return out.finish()
    finally:
        shutil.rmtree(wd, ignore_errors=True)


def replay(path):
    w = json.load(open(path))
    print(json.dumps(w, indent=1)[:3000])
    seed = w["witness"].get("history_seed")
    common.build()
    wd = common.workdir("c01r")
    try:
        if "interrupted" in w["signature"]:
            r = interrupted_compaction((wd, seed, "most"))
        elif w["signature"].startswith("crash-during-compaction"):
            r = compaction_crash_history((wd, seed, w["witness"].get("n_cfg") or 300))
        else:
            a = w["witness"].get("args") or [seed, 300, w["witness"].get("snapshot_threshold", 13), "random"]
            r = one_history((wd, a[0], a[1], a[2], a[3]))
        print(json.dumps(r, indent=1)[:3000])
        if "violation" in r or r.get("violations"):
            print("VIOLATION property=C01 replay=%s" % path)
            return 1
        return 0
    finally:
        shutil.rmtree(wd, ignore_errors=True)
