"""Python side of `vh grpc-client` (harness/src/grpcc.rs): one child process, JSON lines in / out.

    g = GrpcClient(node.grpc_addr, logdir)
    g.open_stream("a")                                   # bi-stream + ConnectionSetupRequest, waits until registered
    r = g.request("a", "ConfigQueryRequest", {"dataId": "d", "group": "g", "tenant": ""}, headers={"accessToken": tok})
    r["type"], r["error_code"], r["result_code"], r["body"]
    g.events("push")                                     # server pushes seen so far (timestamped)
    g.close_stream("a", abrupt=True); g.stop()

See the command protocol at the top of grpcc.rs. Used by C16; meant to be reused by C10 / C12."""
import json
import os
import subprocess
import threading
import time

import common


class GrpcClient:
    def __init__(self, addr, logdir, name="grpcc", env_extra=None):
        self.addr = addr
        self.errf = open(os.path.join(logdir, name + ".err.log"), "ab")
        env = dict(os.environ)
        env.setdefault("RUST_LOG", "off")
        if env_extra:
            env.update(env_extra)
        self.p = subprocess.Popen([common.VH, "grpc-client", "--addr", addr], stdin=subprocess.PIPE, stdout=subprocess.PIPE,
                                  stderr=self.errf, env=env)
        self.cv = threading.Condition()
        self.answers = {}
        self.evs = []
        self.next_id = 1
        self.eof = False
        self.t = threading.Thread(target=self._reader, daemon=True)
        self.t.start()
        self._wait_event("ready", 10)

    def _reader(self):
        for line in self.p.stdout:
            try:
                v = json.loads(line)
            except ValueError:
                continue
            with self.cv:
                if "event" in v:
                    v["t_recv"] = time.time()
                    self.evs.append(v)
                elif "id" in v:
                    self.answers[v["id"]] = v
                self.cv.notify_all()
        with self.cv:
            self.eof = True
            self.cv.notify_all()

    def _wait_event(self, kind, timeout):
        end = time.time() + timeout
        with self.cv:
            while not any(e.get("event") == kind for e in self.evs):
                left = end - time.time()
                if left <= 0 or self.eof:
                    raise common.Inconclusive("vh grpc-client: no %r event within %ss" % (kind, timeout))
                self.cv.wait(left)

    def send(self, op, **kw):
        """fire a command, return its id (use wait(id) for the answer)"""
        with self.cv:
            i = self.next_id
            self.next_id += 1
        kw.update({"id": i, "op": op})
        try:
            self.p.stdin.write((json.dumps(kw) + "\n").encode())
            self.p.stdin.flush()
        except (OSError, ValueError) as e:
            raise common.Inconclusive("vh grpc-client died: %s" % e)
        return i

    def wait(self, i, timeout=15):
        end = time.time() + timeout
        with self.cv:
            while i not in self.answers:
                left = end - time.time()
                if left <= 0 or self.eof:
                    raise common.Inconclusive("vh grpc-client: no answer to command %s within %ss (eof=%s)" % (i, timeout, self.eof))
                self.cv.wait(left)
            return self.answers.pop(i)

    def cmd(self, op, timeout=15, **kw):
        return self.wait(self.send(op, **kw), timeout)

    # ---- conveniences
    def open_stream(self, conn="default", **kw):
        r = self.cmd("open_stream", conn=conn, **kw)
        if not r.get("ok"):
            raise common.Inconclusive("grpc open_stream failed: %s" % r)
        return r

    def request(self, conn, rtype, body=None, headers=None, timeout_ms=5000, **kw):
        return self.cmd("request", timeout=timeout_ms / 1000.0 + 10, conn=conn, type=rtype, body=body if body is not None else {},
                        headers=headers or {}, timeout_ms=timeout_ms, **kw)

    def close_stream(self, conn="default", abrupt=False):
        return self.cmd("close_stream", conn=conn, mode="abrupt" if abrupt else "polite")

    def events(self, kind=None, conn=None):
        with self.cv:
            return [e for e in self.evs if (kind is None or e.get("event") == kind) and (conn is None or e.get("conn") == conn)]

    def wait_push(self, pred, timeout=5.0):
        """first push event satisfying pred, or None after timeout"""
        end = time.time() + timeout
        seen = 0
        with self.cv:
            while True:
                for e in self.evs[seen:]:
                    if e.get("event") == "push" and pred(e):
                        return e
                seen = len(self.evs)
                left = end - time.time()
                if left <= 0 or self.eof:
                    return None
                self.cv.wait(left)

    def stop(self, abrupt=False):
        try:
            if self.p.poll() is None:
                if abrupt:
                    self.p.kill()
                else:
                    try:
                        self.send("exit")
                        self.p.stdin.close()
                    except Exception:
                        pass
                    try:
                        self.p.wait(timeout=3)
                    except subprocess.TimeoutExpired:
                        self.p.kill()
            self.p.wait()
        finally:
            try:
                self.errf.close()
            except Exception:
                pass
