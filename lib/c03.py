"""C03 — Raft log: truncation removes exactly the suffix; log stays appendable (driver shared with C02, truncation-biased)."""
import c02


def run(tier, seed):
    rule = ("C02's rig with the generator biased to delete-from: cut point classes {last, last-1, inside, on 128j, 128j+-1, first index of "
            "the open file, beyond the end} x re-append of shorter/equal/longer entries x optional reopen, on logs with 2- and 3-byte index "
            "deltas, compaction-pointer files and roll-over; after each cut the suffix must be unreadable, the next append accepted, and after "
            "a reopen no removed byte may parse as an entry. non-trivial = compared >=1 entry after >=1 reopen; distinct = (feature incl. cut "
            "class / crossed index entry width, files, pointer-file) tuples")
    if tier == "quick":
        return c02.drive("C03", tier, seed, "truncate", 200, 60, 6, rule, salt=50000)
    return c02.drive("C03", tier, seed, "truncate", 5000, 90, 18, rule, salt=50000)


def replay(path):
    return c02.replay(path)
