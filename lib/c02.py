"""C02 — Raft log: acknowledged entries survive reopen unchanged; none are invented (also hosts the shared driver of C03)."""
import json
import os
import random
import shutil
import time
from concurrent.futures import ThreadPoolExecutor

import common
import storerig
from common import Outcome


def probe_base(wd):
    d = os.path.join(wd, "probe")
    os.makedirs(d, exist_ok=True)
    s = storerig.Session(d)
    base = s.base
    s.kill()
    shutil.rmtree(d, ignore_errors=True)
    return base


def one_history(args):
    wd, seed, base, bias, n_ops, reopen_p = args
    rnd = random.Random(seed)
    g = storerig.Gen(rnd, base, bias)
    ops = g.generate(n_ops, reopen_p)
    hwd = os.path.join(wd, "h%d" % seed)
    os.makedirs(hwd, exist_ok=True)
    # every third history is observed SPARSELY: no read of the whole log after every operation, no probe read behind a cut - only the
    # reads of the history itself, the reopen comparisons and the final one. (The harness's own reads exercise the read path between any
    # two operations; whatever the store remembers from one read to the next is only ever stale in histories without them.)
    sparse = seed % 3 == 0
    h = storerig.History(hwd, ops, check_every=not sparse)
    if sparse:
        g.features.add("sparse-observation")
    res = {"seed": seed, "n_ops": len(ops), "features": sorted(g.features)}
    try:
        v = h.run()
    except storerig.SessionDied as e:
        res["inconclusive"] = "session died: %s" % e
        shutil.rmtree(hwd, ignore_errors=True)
        return res
    res["stats"] = h.stats
    if v:
        sops, sv, runs = storerig.shrink(hwd, ops, v, budget_s=45, check_every=not sparse)
        res["violation"] = {"signature": storerig.classify(sops, sv), "witness": {"ops": sops if len(sops) <= 60 else sops[:60], "n_ops_shrunk": len(sops), "n_ops_original": len(ops), "violation": sv, "first_violation": v, "shrink_runs": runs, "history_seed": seed, "bias": bias, "sparse_observation": sparse}}
    elif len(ops) < 40:
        res["sample"] = ops
    shutil.rmtree(hwd, ignore_errors=True)
    return res


def rollover_history(args):
    """fill the index area of a log file so that the store rolls over to log_2 (and log_3), then truncate / reopen"""
    wd, seed, base, variant = args
    rnd = random.Random(seed)
    hwd = os.path.join(wd, "r%d" % seed)
    os.makedirs(hwd, exist_ok=True)
    uid0 = rnd.randrange(1, 10**6) * 1000000
    ops = []
    n1 = 259500 + rnd.randrange(0, 300)
    # blanks (2-byte index deltas) fill the 4 KiB index area after ~259 455 records
    # 259456 = 2027 * 128 blanks fill the index area; batch sizes 64/128 make a batch end exactly on the roll-over point
    batch = {"batch-ends-at-rollover": rnd.choice([64, 128])}.get(variant, rnd.choice([0, 100, 300]))
    ops.append({"op": "append_many", "from": 1, "n": n1, "term": 1, "uid0": uid0, "lens": [storerig.BLANK], "batch": batch})
    ops.append({"op": "read", "lo": n1 - 200, "hi": n1 + 5})
    last = n1
    if variant in ("cut-in-closed", "cut-at-second-file-first", "cut-at-closed-file-last"):
        # a truncation that reaches back to / into the closed first file (an uncommitted batch spanning the roll-over);
        # the roll-over point is read from the catalogue at run time by the "@rollover" placeholder
        ops.append({"op": "delete_from", "k": "@rollover%+d" % {"cut-in-closed": -50, "cut-at-second-file-first": 0, "cut-at-closed-file-last": -1}[variant]})
        ops.append({"op": "append_many", "from": "@next", "n": 300, "term": 2, "uid0": uid0 + 500000, "lens": [10, storerig.BLANK, 200], "batch": 50})
        ops.append({"op": "reopen"})
        ops.append({"op": "append_many", "from": "@next", "n": 50, "term": 3, "uid0": uid0 + 600000, "lens": [5], "batch": 0})
        ops.append({"op": "reopen"})
        return finish_rollover(hwd, ops, seed, variant)
    if variant.startswith("cut-in-closed-short"):
        # the cut drops the second file and reaches r entries into the closed first one; fewer than r entries are re-appended
        # (none at all in the "-none" flavour), so the store does NOT roll over again before the restart: the catalogue written
        # by the truncation itself is what the reopened store has to live with
        r = rnd.choice([60, 129, 700, 3000])
        ops.append({"op": "delete_from", "k": "@rollover%+d" % -r})
        n_again = 0 if variant.endswith("-none") else rnd.randrange(1, r - 20)
        if n_again:
            ops.append({"op": "append_many", "from": "@next", "n": n_again, "term": 2, "uid0": uid0 + 500000, "lens": [10, storerig.BLANK, 200], "batch": rnd.choice([0, 7])})
        ops.append({"op": "reopen"})
        ops.append({"op": "append_many", "from": "@next", "n": 12, "term": 3, "uid0": uid0 + 600000, "lens": [5], "batch": 0})
        ops.append({"op": "reopen"})
        return finish_rollover(hwd, ops, seed, variant)
    if variant == "cut-in-open":
        k = last - rnd.randrange(1, 30)
        ops.append({"op": "delete_from", "k": k})
        last = k - 1
    ops.append({"op": "append_many", "from": last + 1, "n": 300, "term": 2, "uid0": uid0 + 500000, "lens": [10, storerig.BLANK, 200], "batch": 50})
    last += 300
    ops.append({"op": "reopen"})
    ops.append({"op": "append_many", "from": last + 1, "n": 50, "term": 3, "uid0": uid0 + 600000, "lens": [5], "batch": 0})
    last += 50
    ops.append({"op": "reopen"})
    return finish_rollover(hwd, ops, seed, variant)


def finish_rollover(hwd, ops, seed, variant):
    h = storerig.History(hwd, ops, check_every=False)
    res = {"seed": seed, "n_ops": len(ops), "features": ["rollover", variant]}
    try:
        v = h.run()
    except storerig.SessionDied as e:
        res["inconclusive"] = "session died: %s" % e
        shutil.rmtree(hwd, ignore_errors=True)
        return res
    res["stats"] = h.stats
    if v:
        res["violation"] = {"signature": "%s/rollover/%s" % (v["symptom"], variant), "witness": {"ops": ops, "violation": v, "history_seed": seed}}
    shutil.rmtree(hwd, ignore_errors=True)
    return res


def exact_step_history(args):
    """128 records whose encoded sizes add up to exactly (or next to) a varint size boundary of the index delta
    (16384 = 2^14, 2^21 is too large for a quick run), then more appends, a cut across that entry, reopen"""
    wd, seed, base, delta = args
    rnd = random.Random(seed)
    hwd = os.path.join(wd, "x%d" % seed)
    os.makedirs(hwd, exist_ok=True)
    target = 16384 + delta
    uid = rnd.randrange(1, 10**6) * 1000
    ops, sizes = [], []
    # 127 small records, the 128th absorbs the rest
    for i in range(1, 128):
        ln = rnd.choice([storerig.BLANK] * 6 + [0, 5, 11]) if sum(sizes) < 12000 else storerig.BLANK
        sizes.append(storerig.rec_size(base, i, 1, ln))
        uid += 1
        ops.append({"op": "append", "index": i, "term": 1, "uid": uid, "len": ln})
    rest = target - sum(sizes)
    ln = max(0, rest - storerig.rec_size(base, 128, 1, 0))
    for adj in (0, -1, 1, -2, 2, -3, 3):
        if ln + adj >= 0 and storerig.rec_size(base, 128, 1, ln + adj) == rest:
            ln = ln + adj
            break
    uid += 1
    ops.append({"op": "append", "index": 128, "term": 1, "uid": uid, "len": ln})
    exact = storerig.rec_size(base, 128, 1, ln) == rest
    # a body of exactly 128 bytes right behind the index entry, then reads that start after it
    for i in range(129, 141):
        l2 = rnd.choice([storerig.BLANK, 3, 40])
        if i == 130:
            for cand in range(0, 200):
                if storerig.rec_size(base, i, 1, cand) == 128 + 2:
                    l2 = cand
        uid += 1
        ops.append({"op": "append", "index": i, "term": 1, "uid": uid, "len": l2})
    ops.append({"op": "read", "lo": 133, "hi": 139})
    ops.append({"op": "reopen"})
    ops.append({"op": "read", "lo": 131, "hi": 141})
    ops.append({"op": "delete_from", "k": 120})
    uid += 1
    ops.append({"op": "append", "index": 120, "term": 2, "uid": uid, "len": 7})
    ops.append({"op": "reopen"})
    h = storerig.History(hwd, ops)
    res = {"seed": seed, "n_ops": len(ops), "features": ["index-step-%s%+d" % ("16384" if exact else "near16384", delta)]}
    try:
        v = h.run()
    except storerig.SessionDied as e:
        res["inconclusive"] = "session died: %s" % e
        shutil.rmtree(hwd, ignore_errors=True)
        return res
    res["stats"] = h.stats
    if v:
        res["violation"] = {"signature": "%s/index-step-exact%+d" % (v["symptom"], delta), "witness": {"ops_tail": ops[-8:], "n_ops": len(ops), "violation": v, "history_seed": seed, "step_bytes": target}}
    shutil.rmtree(hwd, ignore_errors=True)
    return res


def big_record_history(args):
    """one record far larger than the 1 MiB pre-allocation step of the log file (2.2 - 6 MB: a config value may be 10 MB),
    then ordinary appends behind it, reads, reopen; optionally a cut right behind the big record"""
    wd, seed, base = args
    rnd = random.Random(seed)
    hwd = os.path.join(wd, "big%d" % seed)
    os.makedirs(hwd, exist_ok=True)
    uid = rnd.randrange(1, 10**6) * 1000
    ops = []
    k = rnd.randrange(0, 20)
    idx = 0
    for _ in range(k):
        idx, uid = idx + 1, uid + 1
        ops.append({"op": "append", "index": idx, "term": 1, "uid": uid, "len": rnd.choice([storerig.BLANK, 7, 300, 70000])})
    big = rnd.randrange(2_200_000, 6_000_000)
    idx, uid = idx + 1, uid + 1
    ops.append({"op": "append", "index": idx, "term": 1, "uid": uid, "len": big})
    big_at = idx
    for _ in range(rnd.randrange(1, 6)):
        idx, uid = idx + 1, uid + 1
        ops.append({"op": "append", "index": idx, "term": 1, "uid": uid, "len": rnd.choice([storerig.BLANK, 5, 900, 1_200_000])})
    ops.append({"op": "read", "lo": max(1, big_at - 1), "hi": idx + 1})
    ops.append({"op": "reopen"})
    if rnd.random() < 0.5:
        ops.append({"op": "delete_from", "k": big_at + 1})
        uid += 1
        ops.append({"op": "append", "index": big_at + 1, "term": 2, "uid": uid, "len": 9})
        uid += 1
        ops.append({"op": "append", "index": big_at + 2, "term": 2, "uid": uid, "len": storerig.BLANK})
        ops.append({"op": "reopen"})
    h = storerig.History(hwd, ops)
    res = {"seed": seed, "n_ops": len(ops), "features": ["big-record-%dMB" % (big // 1_000_000)]}
    try:
        v = h.run()
    except storerig.SessionDied as e:
        res["inconclusive"] = "session died: %s" % e
        shutil.rmtree(hwd, ignore_errors=True)
        return res
    res["stats"] = h.stats
    if v:
        res["violation"] = {"signature": "%s/big-record" % v["symptom"], "witness": {"ops": ops, "violation": v, "history_seed": seed, "big_record_bytes": big}}
    shutil.rmtree(hwd, ignore_errors=True)
    return res


def large_suffix_history(args):
    """a removed suffix of 0.15 - 4 MB (many records), partly overwritten by a re-append of 25 - 120 % of its bytes with another
    record size, then reopen: whatever the truncation leaves behind the new end must never be read as entries again, and the
    kept / re-appended entries must all be there (the clearing of a removed tail is the part of a truncation whose cost grows
    with the tail, i.e. where a cap or a block-wise shortcut would sit)"""
    wd, seed, base = args[:3]
    quick = len(args) > 3 and args[3]
    rnd = random.Random(seed)
    hwd = os.path.join(wd, "lsx%d" % seed)
    os.makedirs(hwd, exist_ok=True)
    uid = rnd.randrange(1, 10**6) * 1000
    ops = []
    idx = 0
    for _ in range(rnd.randrange(1, 40)):
        idx, uid = idx + 1, uid + 1
        ops.append({"op": "append", "index": idx, "term": 1, "uid": uid, "len": rnd.choice([storerig.BLANK, 7, 300, 5000])})
    keep = idx
    total = rnd.choice([150_000, 700_000, 1_300_000, 2_500_000, 4_000_000])
    rec = rnd.choice([3_000, 30_000, 100_000, 300_000])
    if quick and total // rec > 120:
        # the model compares the whole log after every operation: histories of more than ~250 operations are the thorough tier's
        rec = max(rec, total // 100)
    removed = 0
    while removed < total:
        idx, uid = idx + 1, uid + 1
        n = max(1, int(rec * rnd.uniform(0.7, 1.3)))
        ops.append({"op": "append", "index": idx, "term": 1, "uid": uid, "len": n})
        removed += n
    if rnd.random() < 0.3:
        ops.append({"op": "reopen"})
    cut = keep + 1 + (rnd.randrange(0, 3) if rnd.random() < 0.5 else 0)
    ops.append({"op": "delete_from", "k": cut})
    frac = rnd.choice([0.25, 0.5, 0.8, 1.0, 1.2])
    rec2 = rec if frac == 1.0 and rnd.random() < 0.5 else rnd.choice([2_000, 20_000, 60_000, 250_000])
    if quick and removed * frac // rec2 > 120:
        rec2 = max(rec2, int(removed * frac) // 100)
    idx, again = cut - 1, 0
    while again < removed * frac:
        idx, uid = idx + 1, uid + 1
        n = max(1, int(rec2 * rnd.uniform(0.7, 1.3)))
        ops.append({"op": "append", "index": idx, "term": 2, "uid": uid, "len": n})
        again += n
    ops.append({"op": "read", "lo": max(1, cut - 2), "hi": idx + 2})
    ops.append({"op": "reopen"})
    for _ in range(rnd.randrange(1, 4)):
        idx, uid = idx + 1, uid + 1
        ops.append({"op": "append", "index": idx, "term": 3, "uid": uid, "len": rnd.choice([storerig.BLANK, 9, 40_000])})
    ops.append({"op": "reopen"})
    h = storerig.History(hwd, ops)
    res = {"seed": seed, "n_ops": len(ops), "features": ["large-suffix-%s-reappend-%d%%" % ("<1MB" if removed < 1_000_000 else ">=1MB", int(frac * 100))]}
    try:
        v = h.run()
    except storerig.SessionDied as e:
        res["inconclusive"] = "session died: %s" % e
        shutil.rmtree(hwd, ignore_errors=True)
        return res
    res["stats"] = h.stats
    if v:
        res["violation"] = {"signature": "%s/large-suffix-partly-overwritten" % v["symptom"],
                            "witness": {"ops": ops, "ops_summary": {"kept": keep, "removed_bytes": removed, "reappended_bytes": again, "cut": cut, "record_sizes": [rec, rec2]},
                                        "violation": v, "history_seed": seed}}
    shutil.rmtree(hwd, ignore_errors=True)
    return res


def drive(pid, tier, seed, bias, n_hist, n_ops, n_roll, rule, salt=0):
    common.build()
    wd = common.workdir(pid.lower())
    out = Outcome(pid, tier, seed)
    out.rule = rule
    try:
        base = probe_base(wd)
        jobs = [(wd, seed * 100000 + salt + i, base, bias, n_ops if i % 4 else n_ops * 3, 0.04 if i % 3 else 0.0) for i in range(n_hist)]
        t0 = time.time()
        results = []
        with ThreadPoolExecutor(max_workers=common.NCPU) as ex:
            futs = [ex.submit(one_history, j) for j in jobs]
            if bias == "truncate":
                variants = ["cut-in-closed", "cut-in-closed-short-reappend", "cut-at-closed-file-last", "cut-at-second-file-first", "cut-in-open", "cut-in-closed-short-none"]
            else:
                variants = ["batch-ends-at-rollover", "cut-in-closed-short-reappend", "plain", "cut-in-closed", "cut-at-closed-file-last", "cut-in-closed-short-none"]
            rfuts = [ex.submit(rollover_history, (wd, seed * 100000 + salt + 40000 + i, base, variants[(i + seed) % len(variants)])) for i in range(n_roll)]
            xfuts = [ex.submit(exact_step_history, (wd, seed * 100000 + salt + 60000 + i, base, [0, -1, 1][i % 3])) for i in range(3 if tier == "quick" else 30)]
            xfuts += [ex.submit(big_record_history, (wd, seed * 100000 + salt + 65000 + i, base)) for i in range(3 if tier == "quick" else 24)]
            xfuts += [ex.submit(large_suffix_history, (wd, seed * 100000 + salt + 67000 + i, base, tier == "quick")) for i in range(10 if tier == "quick" else 120)]
            for f in futs + rfuts + xfuts:
                results.append(f.result())
        absorb(out, results)
        out.extra["base_json_len"] = base
        out.min_nontrivial = 10
        out.assumptions = ["stop points are quiescent: every acknowledged write has reached the OS before SIGKILL (barrier round trips + 80 ms)",
                           "entries at or below the highest submitted compaction pointer / split-off index may legitimately be absent",
                           "delete_from is only issued above the highest compaction pointer (what Raft does: conflicts are above the commit index)"]
        return out.finish()
    finally:
        shutil.rmtree(wd, ignore_errors=True)


def absorb(out, results):
    agg = {"reopens": 0, "compared_entries": 0, "cuts_effective": 0, "rejected": 0, "histories_with_ptr_file": 0, "histories_multi_file": 0}
    for r in results:
        out.evaluations += 1
        if "inconclusive" in r:
            out.extra.setdefault("inconclusive_subruns", []).append(r["inconclusive"])
            continue
        st = r["stats"]
        for k in ("reopens", "compared_entries", "cuts_effective", "rejected"):
            agg[k] += st.get(k, 0)
        if st.get("ptr_files"):
            agg["histories_with_ptr_file"] += 1
        if st.get("files_max", 1) > 1:
            agg["histories_multi_file"] += 1
        if "violation" in r:
            out.violation(r["violation"]["signature"], r["violation"]["witness"])
            continue
        if st.get("compared_entries", 0) > 0 and st.get("reopens", 0) > 0:
            files = "files%d" % min(st.get("files_max", 1), 3)
            for f in r["features"] or ["plain"]:
                out.shape("%s/%s/ptr%d" % (f, files, 1 if st.get("ptr_files") else 0))
        if "sample" in r and len(out.samples) < 3:
            out.samples.append({"history_seed": r["seed"], "ops": r["sample"]})
    if not out.samples:
        out.samples.append({"note": "no short history this run; see shape_histogram", "histories": len(results)})
    out.extra.update(agg)


def run(tier, seed):
    rule = ("seeded operation histories over {append, replicate batch, delete-from, compaction pointer, read window, reopen(new process)} "
            "executed on the real FileStore actor chain; payload sizes chosen arithmetically (record end on / next to the 1024-byte scan "
            "boundary, blanks for 2-byte and ConfigSet payloads for 3-byte index deltas, >1 MiB records) plus roll-over histories of ~2.6e5 "
            "records; reference vector updated by acknowledged ops only; full comparison after every op and after every reopen. "
            "non-trivial = the history compared >=1 entry after >=1 reopen; distinct = (generator feature, files, pointer-file) tuples")
    if tier == "quick":
        return drive("C02", tier, seed, "mixed", 160, 60, 4, rule)
    return drive("C02", tier, seed, "mixed", 4000, 90, 16, rule)


def replay(path):
    w = json.load(open(path))
    common.build()
    wd = common.workdir("c02r")
    try:
        ops = w["witness"]["ops"]
        v = storerig.History(wd, ops).run()
        print(json.dumps({"replayed_ops": len(ops), "violation": v}, indent=1))
        if v:
            print("VIOLATION property=%s replay=%s" % (w.get("property", "C02"), path))
            return 1
        return 0
    finally:
        shutil.rmtree(wd, ignore_errors=True)
