#!/bin/bash
# Build the framework offline from files on disk: the vh harness (links /repo as a library) and the real rnacos binary.
set -e
cd "$(dirname "$0")"
python3 - <<'PY'
import sys, os
sys.path.insert(0, os.path.join(os.getcwd(), "lib"))
import common, crashrig
crashrig.build_shim()
common.build(need_bin=True)
print("setup ok")
PY
