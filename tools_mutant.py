#!/usr/bin/env python3
"""Run registered checks against a candidate change WITHOUT touching /repo: a slot = scratch git worktree of /repo +
a copy of /verif whose harness and checks point at that worktree (own build cache). Used to validate seeded changes
while other work is going on; the canonical procedure (git -C /repo apply ... / checkout -- .) gives the same result.

  tools_mutant.py run <slot> <patch.diff> <ID>[:tier] [<ID>[:tier] ...]   -> prints one JSON line per check
  tools_mutant.py clean <slot>
"""
import json
import os
import shutil
import subprocess
import sys
import time

VERIF = os.path.dirname(os.path.abspath(__file__))


def sh(cmd, **kw):
    return subprocess.run(cmd, stdout=subprocess.PIPE, stderr=subprocess.STDOUT, text=True, **kw)


def slot_paths(slot):
    base = "/tmp/mslot-%s" % slot
    return base, os.path.join(base, "repo"), os.path.join(base, "verif")


def ensure_slot(slot):
    base, repo, verif = slot_paths(slot)
    os.makedirs(base, exist_ok=True)
    head = sh(["git", "-C", "/repo", "rev-parse", "HEAD"]).stdout.strip()
    if not os.path.isdir(repo):
        r = sh(["git", "-C", "/repo", "worktree", "add", "--detach", repo, head])
        if r.returncode != 0:
            raise SystemExit("worktree add failed: " + r.stdout)
    else:
        sh(["git", "-C", repo, "checkout", "-q", "--", "."])
        sh(["git", "-C", repo, "clean", "-fdq"])
        sh(["git", "-C", repo, "checkout", "-q", "--detach", head])
    # copy of /verif (tracked + untracked sources, not caches)
    os.makedirs(verif, exist_ok=True)
    sh(["rsync", "-a", "--delete", "--exclude", ".cache", "--exclude", ".work", "--exclude", ".git", "--exclude", "replays", "--exclude", "evidence",
        VERIF + "/", verif + "/"])
    os.makedirs(os.path.join(verif, "evidence"), exist_ok=True)
    for f in ("harness/Cargo.toml", "miri/src/main.rs"):
        p = os.path.join(verif, f)
        s = open(p).read().replace('"/repo"', '"%s"' % repo).replace('"/repo/', '"%s/' % repo)
        open(p, "w").write(s)
    cache = os.path.join(verif, ".cache")
    if not os.path.isdir(cache):
        sh(["cp", "-a", os.path.join(VERIF, ".cache"), cache])
    return base, repo, verif


def run(slot, patch, checks):
    base, repo, verif = ensure_slot(slot)
    r = sh(["git", "-C", repo, "apply", "--whitespace=nowarn", os.path.abspath(patch)])
    if r.returncode != 0:
        print(json.dumps({"patch": patch, "error": "patch does not apply: " + r.stdout[-500:]}))
        return 2
    env = dict(os.environ)
    env["VERIF_REPO"] = repo
    results = []
    for c in checks:
        pid, _, tier = c.partition(":")
        tier = tier or "quick"
        t0 = time.time()
        p = sh(["./check", pid, tier], cwd=verif, env=env)
        lines = [l for l in p.stdout.splitlines() if l.startswith(("VIOLATION", "KNOWN-FINDING", "OK ", "INCONCLUSIVE"))]
        res = {"patch": patch, "check": pid, "tier": tier, "exit": p.returncode, "wall_s": round(time.time() - t0, 1),
               "violations": [l.split("signature=")[-1] if "signature=" in l else l for l in lines if l.startswith("VIOLATION")],
               "other": [l[:160] for l in lines if not l.startswith(("VIOLATION", "KNOWN-FINDING"))]}
        if p.returncode not in (0, 1):
            res["tail"] = p.stdout[-800:]
        print(json.dumps(res), flush=True)
        results.append(res)
    sh(["git", "-C", repo, "checkout", "-q", "--", "."])
    sh(["git", "-C", repo, "clean", "-fdq"])
    return 0


def clean(slot):
    base, repo, verif = slot_paths(slot)
    sh(["git", "-C", "/repo", "worktree", "remove", "--force", repo])
    shutil.rmtree(base, ignore_errors=True)
    sh(["git", "-C", "/repo", "worktree", "prune"])


if __name__ == "__main__":
    if len(sys.argv) >= 3 and sys.argv[1] == "clean":
        clean(sys.argv[2])
    elif len(sys.argv) >= 5 and sys.argv[1] == "run":
        sys.exit(run(sys.argv[2], sys.argv[3], sys.argv[4:]))
    else:
        print(__doc__)
        sys.exit(2)
