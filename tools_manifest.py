#!/usr/bin/env python3
"""Regenerates /verif/MANIFEST.json from the table below (run after adding a check)."""
import json, os, subprocess, sys
if "--force" not in sys.argv:
    sys.exit("tools_manifest.py: STALE - MANIFEST.json has been edited by hand since the third session (level texts of later sessions are not in the table below); running this would overwrite them. Edit MANIFEST.json directly, or pass --force.")
HERE = os.path.dirname(os.path.abspath(__file__))
ALL = ["C%02d" % i for i in range(1, 21)]

CHECKS = {
 "C08": dict(level="exploration", design="DESIGN.md 3/C08",
   text="differential monitor on real processes: a leader (+ follower) with snapshot threshold 10/25/60 receives >= 4n writes (configs in several namespaces, users) so that >= 3 compactions happened; a node then joins for the first time or a stopped follower rejoins; the scenario only counts when the follower's own log shows that a snapshot was installed; within 30 s and again after a restart of the follower every config (content, md5, type), listing totals, namespaces, users and the raft membership must equal the leader's",
   note="scenarios without an observed snapshot install are inconclusive and retried with a longer history; which of the raft core's install triggers fired is not observable",
   technique="runtime differential monitoring (follower vs leader over HTTP) with observed snapshot installation"),
 "C09": dict(level="exploration", design="DESIGN.md 3/C09",
   text="history + executable model on a stand-alone ConfigActor (namespace actor injected): seeded histories of ConfigAdd / ConfigRemove / SetFullValue / SetTmpValue over 3 tenants x 3 groups x 6 dataIds (hot keys > 100 publishes, empty / large / non-ASCII contents), GET + history after every op, every ~20 ops a sweep paging every endpoint-producible filter family at page sizes 1/2/7/100; reference model in Rust (lenient where the property is silent); failing histories shrunk by re-running the real code; thinner second layer through the real binary's HTTP API",
   note="parameter shapes no endpoint can produce are diagnostics, not violations; fuzzy filters = substring containment",
   technique="runtime monitoring of recorded histories against a reference model + differential HTTP layer"),
 "C10": dict(level="exploration", design="DESIGN.md 3/C10",
   text="long-poll part: the harness is the client of ConfigCmd::LISTENER on a stand-alone ConfigActor; ALL message orders of small scenarios (<=3 listeners, <=3 keys, <=4 changes of 6 kinds) are enumerated, larger ones sampled, a real-time family runs on the actor's own 500 ms tick; gRPC part: real binary + real bi-stream connections (vh grpc-client) subscribing / un-listening / disconnecting while configs are published and removed over HTTP and gRPC; offline oracle: every differing md5 answered immediately, every content-changing publish / remove of a listened key reaches every pending listener / connected subscriber (2 s), time-outs within deadline + tick + slack",
   note="spurious notifications allowed; late answers re-run 3x solo before they count; HTTP long-poll endpoint and cluster not exercised",
   technique="runtime monitoring with exhaustive message-order enumeration (small scenarios) + black-box monitoring of real connections"),
 "C11": dict(level="exploration", design="DESIGN.md 3/C11",
   text="invariant-at-a-hook monitor on a stand-alone NamingActor: seeded histories over every registration origin (HTTP, gRPC, cluster sync, raft), all 32 InstanceUpdateTag combinations, flips, deletes with matching/foreign/empty client ids, client removal, snapshots, range refresh, sniffing, service update/removal, real time-outs (own 2 s timer, 3 s/4 s) and the 30 s empty-service clean-up; after EVERY operation one observation = VerifNamingProbe (hook) + ~25 public queries: counters == lengths, persistent set == non-ephemeral, namespace index lists each service once, client reverse map consistent, no service dropped with instances; paged walks of the final state",
   note="observations on timed rigs are repeated when the actor's timer ran in between; uses the verif_hooks probe for the crate-private mirrors",
   technique="runtime invariant monitoring at message boundaries (hooked state probe + public queries)"),
 "C12": dict(level="exploration", design="DESIGN.md 3/C12",
   text="history + reference model: (1) stand-alone NamingActor receiving exactly the messages the gRPC / open-api / console handlers and RemoveClient build, from three connection ids and HTTP writers on overlapping keys; every query API x healthy-only x protection thresholds compared with a model of the documented rules (both outcomes accepted where the rules leave a choice); (2) real binary with real gRPC connections (one vh grpc-client process each) and HTTP clients, connections ended politely / by reset / by SIGKILL in all orders; own ephemeral instances gone within 5 s, nothing else disappears",
   note="raft round trip of persistent instances reproduced by the harness in part 1 and driven for real in part 2; time-out expiry is C13's",
   technique="runtime monitoring of recorded histories against a reference model + black-box monitoring of real connections"),
 "C13": dict(level="exploration", design="DESIGN.md 3/C13",
   text="timeline monitor on real wall-clock time: ~400 instance timelines per run (register, heartbeat periods 0.5-2.4 s, silence, resume around the time-outs, replace, ephemeral<->persistent flips, HTTP<->gRPC owner switches, take-over from a failed node) against a stand-alone NamingActor with its own 2 s tick and H=3 s / T=4 s, observed every 250 ms; oracle from RECORDED call/ack times with ambiguity bands; plus a real node over HTTP (both tiers) and a real 3-node cluster with owner kill (thorough)",
   note="bounded-progress restatement (bounds in the evidence); default 15 s/30 s constants not run; observations inside the slack bands ignored; late findings of runs with scheduling lag > 400 ms dropped and counted",
   technique="runtime monitoring of recorded timelines against time-bound oracles (real timers, no clock hook)"),
 "C14": dict(level="exploration", design="DESIGN.md 3/C14",
   text="exhaustive view enumeration: for every cluster size 1..5, every dead set and every live local node (129 views, in two id families) a real InnerNodeManage actor is driven to that view by the genuine 15 s liveness rule (peers kept alive or starved); for service keys covering every hash residue mod 60 the owner range (QueryOwnerRange / is_range), the NamingActor's range and NodeManage::route_addr must agree: exactly one owner, route == owner",
   note="exhaustive for (n<=5, dead set, local id, residue mod 60); transient windows between a status change and the next tick not judged",
   technique="exhaustive runtime enumeration of cluster views on the real actors + agreement oracle"),
 "C15": dict(level="exploration", design="DESIGN.md 3/C15",
   text="convergence monitor on real 3-process clusters: HTTP writers (register / update / deregister / beat through random nodes) and gRPC writers (connections attached to random nodes, close + re-attach) on 7 services in 2 namespaces while a seeded nemesis SIGSTOPs nodes, SIGKILLs the node holding gRPC connections (short and long outage) and a node joins late; at checkpoints all clients stop and every live node is polled until, twice in a row, all nodes return the same (ip, port, healthy, enabled, weight) sets that also equal a reference derived from the acknowledged operations (every real-time-respecting linearisation with the single-node rules), bound 60 s; gRPC ServiceQuery view compared with the HTTP view per node",
   note="operations racing with a membership change or closer together than the 500 ms sync tick are racing writers (either outcome accepted, convergence still demanded); SIGSTOP instead of network partitions; bounded-progress restatement of 'eventually'",
   technique="runtime monitoring of recorded client histories against a reference model at quiescent checkpoints, under process-level fault injection"),
 "C16": dict(level="exploration", design="DESIGN.md 3/C16",
   text="runtime black-box monitor on the real binary with RNACOS_ENABLE_OPEN_API_AUTH=true: the registered route table is discovered by observation, path spellings (case, slashes, dot segments, percent-encoding of prefix and inner segments, %2F, ;x=y, absolute form) that still reach a handler are kept, then every (route, method, spelling) x token carrier x token value {absent, empty, garbage, expired, other server's} must be answered 403 with the data fingerprint of the target unchanged, positive controls with a valid token must work; same for every gRPC data type (vh grpc-client) and the cluster-internal types with/without the cluster token",
   note="route discovery is literal-based (a route whose path appears nowhere as a string literal would be missed); HTTP/2 and smuggling not tried",
   technique="runtime black-box monitoring of the real server (enforcement sweep + state fingerprint + positive controls)"),
 "C17": dict(level="exploration", design="DESIGN.md 3/C17",
   text="function level: the repository's own UserRole::match_url_by_roles evaluated for every candidate (path, method) x every role sequence up to length 3 over {0,1,2,'',9,admin} (union, unknown-role, monotonicity checks); server level on the real binary's console port: route table discovered by observation, users for every role mix, session states {none, garbage, logged-out, expired, valid} x cookie/header, 45 effective mutating templates with admin positive controls and admin-read fingerprints before/after each role's block",
   note="exhaustive for the function cube and registered route x method x session kinds as stated in the evidence; spellings sampled; routes refused to everybody can only be shown unreachable",
   technique="exhaustive evaluation of the real permission function + runtime black-box monitoring of the real server with state fingerprints"),
 "C18": dict(level="exploration", design="DESIGN.md 3/C18",
   text="runtime monitor on the real binary's console port: data seeded in 4 namespaces with unique markers; restricted users for whitelist {all, none, A, AB, default} x blacklist {all, none, A, B} (+ disabled groups via transfer import) x roles; 65 endpoint operations of both console API versions x namespace spellings x paged walks; for a disallowed namespace the response must be a refusal, no marker may leak and the admin-read fingerprint must be unchanged; positive controls on allowed namespaces",
   note="endpoints without a working positive control are listed, not counted; subscriber listings and transfer import are not swept",
   technique="runtime black-box monitoring of the real server (marker leak detection + state fingerprint + positive controls)"),
 "C19": dict(level="exploration", design="DESIGN.md 3/C19",
   text="runtime monitor of issued ids on a complete in-process node: concurrent GetNextId bursts on 3 keys (interleaving inside the actor while ranges are fetched through raft), raw SequenceRaftReq::NextId writes and leader-path publishes (history ids), with compactions by the raft core and restarts by SIGKILL at quiescent points, right after an answer and in the middle of a burst, optionally drawing again before recovery finished; oracle over the recorded id log: no id twice per key, ids answered before a request was made are smaller, final history ids unique across keys",
   note="single node (multi-node draws ride on the cluster rig); gaps allowed; ids of requests in flight at a kill are never observed; violations are classified by the restart class between the two draws",
   technique="runtime monitoring of a recorded id log (uniqueness / monotonicity oracle) under crash-restart and concurrency stress"),
 "C20": dict(level="exploration", design="DESIGN.md 3/C20",
   text="differential runtime monitor: the repository's stream readers are run on ~10^6 (quick) / ~10^7 (thorough) seeded record streams x chunk partitions and compared with an independent reference decoder; short streams get every 2-chunk (tiny ones every 3-chunk) partition",
   note="sampled input space (exhaustive only where stated); trusts the 30-line reference decoder in harness/src/c20.rs",
   technique="runtime differential monitoring against a reference decoder (seeded + exhaustive small partitions); Miri lane in thorough"),
 "C01": dict(level="exploration", design="DESIGN.md 3/C01",
   text="differential restart monitor on a complete in-process node: seeded sequences over all ClientRequest kinds through raft.client_write, compactions placed between writes (awaited) or running concurrently (raft core's own policy), SIGKILL at quiescent points behind a recovery barrier, restart from the same directory; dumps through the public actor queries (config GET/history/listing, namespaces, users table, MCP, persistent instances) must be equal and every raft sequence must continue at the expected id; interrupted-compaction scenario with a partial snapshot file under the next id",
   note="quiescent stop points only; instance timestamps/health and TTL caches excluded; differential oracle (no behavioural model)",
   technique="runtime differential monitoring (state dump before stop vs after restart) over seeded histories and restart/compaction placements"),
 "C04": dict(level="fault_enumeration", design="DESIGN.md 3/C04",
   text="crash-point enumeration: store-layer histories (appends, batches, truncations, metadata saves, last-applied saves, snapshot build + pointer, reopen) run on the real FileStore actor chain under an LD_PRELOAD interposer that journals every write/set_len/unlink/create/rename together with the session's SUBMIT/ACK markers in one order; for EVERY journal prefix the directory image is materialised and opened by the real recovery code in a fresh process; oracle: recovery succeeds, log contiguous, only submitted entries, acknowledged entries present, last-applied reproducible",
   note="crash model of the property (process death, atomic write calls, program order); exhaustive per explored history; torn writes / fsync semantics out of scope",
   technique="fault enumeration over a syscall-level write journal + recovery by the real code + marker-derived oracle"),
 "C05": dict(level="fault_enumeration", design="DESIGN.md 3/C05",
   text="same crash-image rig on histories biased to save_hard_state / SaveMember / AddNodeAddr interleaved with the other writers of the index file and reopen; at every journal prefix the recovered term/vote must be the last acknowledged (or a later submitted) value, membership and addresses the last acknowledged value with at most the one write the index actor may still have in flight",
   note="term/vote strict; membership/address acknowledgements are 'scheduled' acknowledgements in the store's API (one-write lag allowed); final images double as the quiescent reopen comparison",
   technique="fault enumeration over a syscall-level write journal + recovery by the real code + marker-derived oracle"),
 "C06": dict(level="exploration", design="DESIGN.md 3/C06",
   text="history checker on a real 3-process cluster: 6-12 concurrent clients publish / remove unique values through random nodes over HTTP and gRPC (register keys and append keys whose server-side history acts as an append-only list) while a seeded nemesis kills / restarts / SIGSTOPs leader and followers (both regimes: before and after the first leader change); every call recorded at the client boundary with call/return times, timed-out calls stay open; role/term time line from the metrics endpoint; after healing: bounded convergence (30 s), equality across nodes, no acknowledged write lost or present on some nodes only, reads return written values, append histories identical / ordered / ids increasing; plus single-node early-publish cases",
   note="network partitions between live processes not simulated (SIGSTOP only); acknowledging-node classification limited by 0.1 s sampling; bounded-progress restatement of 'eventually'",
   technique="runtime monitoring of recorded client histories (offline checker) under process-level fault injection"),
 "C07": dict(level="exploration", design="DESIGN.md 3/C07",
   text="three-way differential monitor: one seeded committed request sequence (all state-machine ClientRequest kinds) is applied through the leader path (append + apply_entry_to_state_machine per entry), the follower path (replicate_to_log + replicate_to_state_machine in random batch splits) and the start-up replay path (restart of the follower's directory) of raft-idle in-process nodes; the three dumps taken through the public actor queries must be equal",
   note="NodeAddr/Members left out (C05); timestamps/health excluded; trusts mailbox-order barriers (one query per component actor) before dumping",
   technique="runtime differential monitoring across the three apply paths on seeded request sequences"),
 "C02": dict(level="exploration", design="DESIGN.md 3/C02",
   text="history + executable model: seeded histories of append / batch / delete-from / compaction pointer / reopen (new process) run on the real FileStore actor chain; a reference vector updated by acknowledged operations is compared with get_log_entries / get_initial_state after every step and every reopen; includes roll-over histories (2.6e5 records) and arithmetic record sizes",
   note="quiescent stop points only (crash points are C04); entries at or below a submitted compaction pointer may be absent; trusts the python model in lib/storerig.py",
   technique="runtime monitoring of recorded histories against a reference log model, failing histories shrunk by re-running the real code"),
 "C03": dict(level="exploration", design="DESIGN.md 3/C03",
   text="same rig as C02 biased to truncations: every cut-point class (last, inside, on/next to a 128-record index entry, first of file, inside an earlier file after roll-over, after a pointer file) x re-append sizes x reopen; suffix must be unreadable immediately, next append accepted, nothing resurrected after reopen",
   note="delete_from only above the highest compaction pointer (what Raft does); quiescent stop points",
   technique="runtime monitoring of recorded histories against a reference log model"),
}

REASON_PENDING = "check under construction in this session (runtime monitor specified in DESIGN.md); not claimed yet"

def main():
    hooks = subprocess.run(["git", "-C", "/repo", "log", "--format=%h %s"], capture_output=True, text=True).stdout.splitlines()
    hook_commits = [l.split()[0] for l in hooks if l.split(" ", 1)[1].startswith("verif hooks")]
    m = {
     "version": 1,
     "setup_cmd": "./setup.sh",
     "hooks": {
      "guard": "verif_hooks",
      "enable": "cargo feature: --features verif_hooks (the vh harness depends on rnacos with features=[\"verif_hooks\"]; the rnacos binary used by the process rigs is built with --features verif_hooks)",
      "baseline_off_cmd": "cd /repo && cargo nextest run --workspace --no-fail-fast --tool-config-file pb:/w/lib/nextest.toml --profile pb --test-threads 8 --offline || cargo test --workspace --no-fail-fast --offline",
      "source_commits": hook_commits,
      "add_only": True,
     },
     "engines": [
      {"name": "vh", "path": "harness", "serves_properties": sorted(CHECKS), "kind_free_text": "Rust harness linking /repo as a library: in-process rigs, session servers driven over stdin/stdout, reference oracles"},
      {"name": "check", "path": "check", "serves_properties": sorted(CHECKS), "kind_free_text": "python front-end (lib/*.py): incremental build from /repo's working tree, history generation, reference models, shrinking, evidence, known-findings matching"},
     ],
     "checks": [],
     "notes": "Verdicts are three-valued: exit 0 held on what was observed; exit 1 + VIOLATION line; exit 3 + INCONCLUSIVE line (never a VIOLATION) when the harness itself failed. known_findings.json lists recorded defects and the 'fix:' commits.",
     "not_applicable": [],
    }
    for pid in ALL:
        c = CHECKS.get(pid)
        if not c:
            m["not_applicable"].append({"property_id": pid, "reason": REASON_PENDING})
            continue
        m["checks"].append({
         "property_id": pid,
         "quick_cmd": "./check %s quick" % pid,
         "thorough_cmd": "./check %s thorough" % pid,
         "evidence_file": "evidence/%s.json" % pid,
         "replay_cmd_template": "./check %s --replay {path}" % pid,
         "engine": "vh",
         "level_claimed": {"category": c["level"], "text": c["text"], "design_ref": c["design"]},
         "level_note": c["note"],
         "technique": c["technique"],
        })
    json.dump(m, open(os.path.join(HERE, "MANIFEST.json"), "w"), indent=1)
    print("checks:", [c["property_id"] for c in m["checks"]])

if __name__ == "__main__":
    main()
