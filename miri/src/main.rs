//! Miri lane of C20: the repository's own length-prefix codec (included by path from /repo) is interpreted by Miri on small
//! seeded streams under several chunkings and compared with a reference decoder. Any UB, out-of-bounds index or overflow
//! panic aborts the run; a decode mismatch prints MISMATCH and exits 1.
#[allow(dead_code)]
#[path = "/repo/src/common/protobuf_utils.rs"]
mod protobuf_utils;

use protobuf_utils::{inner_sizeof_varint, read_varint64, read_varint64_offset, write_varint64, MessageBufReader};

struct Rng(u64);
impl Rng {
    fn next(&mut self) -> u64 {
        self.0 ^= self.0 << 13;
        self.0 ^= self.0 >> 7;
        self.0 ^= self.0 << 17;
        self.0
    }
    fn below(&mut self, n: u64) -> u64 {
        self.next() % n
    }
}

fn ref_encode(mut v: u64) -> Vec<u8> {
    let mut out = vec![];
    loop {
        let b = (v & 0x7f) as u8;
        v >>= 7;
        if v == 0 {
            out.push(b);
            return out;
        }
        out.push(b | 0x80);
    }
}

fn ref_records(bytes: &[u8]) -> Vec<(usize, usize)> {
    let mut out = vec![];
    let mut pos = 0;
    while pos < bytes.len() {
        let mut v: u64 = 0;
        let mut k = 0;
        let mut done = false;
        while pos + k < bytes.len() && k < 10 {
            let b = bytes[pos + k];
            v |= ((b & 0x7f) as u64) << (7 * k);
            k += 1;
            if b & 0x80 == 0 {
                done = true;
                break;
            }
        }
        if !done || v == 0 {
            break;
        }
        let total = k + v as usize;
        if pos + total > bytes.len() {
            break;
        }
        out.push((pos, total));
        pos += total;
    }
    out
}

fn consume(bytes: &[u8], chunks: &[usize], scan: bool) -> Vec<Vec<u8>> {
    let mut reader = MessageBufReader::new();
    let mut out = vec![];
    let mut pos = 0;
    for &c in chunks {
        if c == 0 {
            continue;
        }
        reader.append_next_buf(&bytes[pos..pos + c]);
        pos += c;
        while let Some(v) = reader.next_message_vec() {
            out.push(v.to_vec());
        }
        if scan && reader.is_empty() {
            break;
        }
    }
    out
}

fn main() {
    let seed: u64 = std::env::args().nth(1).and_then(|s| s.parse().ok()).unwrap_or(1);
    let n_streams: u64 = std::env::args().nth(2).and_then(|s| s.parse().ok()).unwrap_or(4);
    let mut r = Rng(seed.wrapping_mul(0x9E3779B97F4A7C15) | 1);
    let mut cases = 0u64;
    // varints
    for k in 0..64u32 {
        for v in [(1u64 << k).wrapping_sub(1), 1u64 << k, (1u64 << k).wrapping_add(1), u64::MAX] {
            let w = write_varint64(v);
            assert_eq!(w, ref_encode(v), "encode {}", v);
            assert_eq!(inner_sizeof_varint(v), w.len(), "sizeof {}", v);
            let mut padded = vec![0xFFu8; 3];
            padded.extend_from_slice(&w);
            padded.extend_from_slice(&[0xFF; 10]);
            assert_eq!(read_varint64_offset(&padded, 3).ok(), Some(v), "decode {}", v);
            let mut p0 = w.clone();
            p0.extend_from_slice(&[0xFF; 10]);
            assert_eq!(read_varint64(&p0).ok(), Some(v));
            cases += 1;
        }
    }
    // streams
    for _ in 0..n_streams {
        let n = 1 + r.below(6) as usize;
        let mut bytes = vec![];
        for i in 0..n {
            let len = match r.below(8) {
                0 => 1,
                1 => 127 + r.below(3) as usize,
                2 => 1020 + r.below(8) as usize,
                3 if i + 1 == n => {
                    // end exactly on the next 1024 boundary
                    let t = 1024 - (bytes.len() % 1024);
                    if t > 3 { t - 2 } else { t + 1022 }
                }
                4 => 1100 + r.below(1200) as usize,
                _ => 1 + r.below(300) as usize,
            };
            bytes.extend_from_slice(&ref_encode(len as u64));
            for j in 0..len {
                bytes.push(if j == 0 { 0x0a } else { (r.next() & 0xff) as u8 });
            }
        }
        let tail = [0usize, 1, 9, 10, 50][r.below(5) as usize];
        bytes.extend(std::iter::repeat(0u8).take(tail));
        let want = ref_records(&bytes);
        let total = bytes.len();
        let mut chunkings: Vec<Vec<usize>> = vec![vec![total]];
        let mut fixed = vec![1024; total / 1024];
        if total % 1024 > 0 {
            fixed.push(total % 1024);
        }
        chunkings.push(fixed);
        if total <= 700 {
            chunkings.push(vec![1; total]);
        }
        let mut rnd = vec![];
        let mut left = total;
        while left > 0 {
            let c = (1 + r.below(300) as usize).min(left);
            rnd.push(c);
            left -= c;
        }
        chunkings.push(rnd);
        if want.len() >= 2 {
            let cut = want[0].0 + want[0].1;
            chunkings.push(vec![cut, total - cut]);
        }
        for ch in &chunkings {
            for scan in [true, false] {
                let got = consume(&bytes, ch, scan);
                cases += 1;
                let same = got.len() == want.len() && got.iter().zip(want.iter()).all(|(g, (s, l))| g.as_slice() == &bytes[*s..*s + *l]);
                if !same {
                    println!("MISMATCH seed={} scan={} returned={} expected={} chunks={:?}", seed, scan, got.len(), want.len(), &ch[..ch.len().min(12)]);
                    std::process::exit(1);
                }
            }
        }
    }
    println!("MIRI-OK seed={} cases={}", seed, cases);
}
