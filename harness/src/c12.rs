//! C12 (in-process part) — registry queries return exactly the live registrations; disconnect removes own only.
//!
//! A stand-alone `NamingActor` receives exactly the messages the gRPC instance handler, the HTTP open-api instance handlers
//! (register / update / beat / delete), the console instance API and the connection manager (`RemoveClient`) send, from three
//! gRPC connection ids and HTTP writers on overlapping (service, ip, port) keys. A reference model of the DOCUMENTED rules
//! (see `expect_write` / `expect_dereg` / `expect_remove_client` / `expected_lists`) says which outcomes are allowed; where the
//! rules leave a choice every allowed outcome is accepted and the model adopts what the code did. After every operation the
//! touched instance is read back (`NamingCmd::Query`) and the four list queries are compared with the model for healthy-only
//! on/off. The Raft round trip a real node performs for persistent instances (NotifyUpdateRaftInstance / NotifyRemoveRaftInstance
//! -> raft -> NamingRaftReq applied on the same actor) is reproduced by the harness (`raft_echo`), because a stand-alone actor
//! has no raft router; everything found that depends on it is re-checked against the real binary by lib/c12.py.
use crate::c11::{meta_of, mk_ikey, pinst_of, PInst, Rig, Svc, ADDRS, GROUPS, NS, SVCS};
use crate::util::{rng, Args, Report};
use rand::rngs::StdRng;
use rand::Rng;
use rnacos::naming::core::{NamingCmd, NamingResult};
use rnacos::naming::model::actor_model::{InstanceRegisterParam, NamingRaftReq};
use rnacos::naming::model::{Instance, InstanceShortKey, InstanceUpdateTag, ServiceDetailDto};
use serde::{Deserialize, Serialize};
use serde_json::{json, Value};
use std::collections::BTreeMap;
use std::sync::Arc;
use std::time::{Duration, Instant};

pub const CONNS: [&str; 3] = ["1_127.0.0.1:50001", "1_127.0.0.1:50002", "1_127.0.0.1:50003"];
pub const THRESHOLDS: [f32; 4] = [0.0, 0.3, 0.8, 1.0];

#[derive(Clone, Debug, Serialize, Deserialize)]
pub enum COp {
    GrpcReg { client: usize, svc: Svc, a: usize, healthy: bool, enabled: bool, ephemeral: bool, weight: f32, meta: u8 },
    GrpcDereg { client: usize, svc: Svc, a: usize },
    /// POST/PUT /nacos/v1/ns/instance (console=false) or the console instance API (console=true); None = parameter absent
    HttpWrite { svc: Svc, a: usize, weight: Option<f32>, enabled: Option<bool>, ephemeral: Option<bool>, meta: Option<u8>, console: bool },
    HttpBeat { svc: Svc, a: usize },
    HttpDereg { svc: Svc, a: usize },
    RemoveClient { client: usize },
    Threshold { svc: Svc, th: f32 },
    Sniff { svc: Svc, a: usize, success: bool },
}

impl COp {
    fn kind(&self) -> &'static str {
        match self {
            COp::GrpcReg { .. } => "grpc-register",
            COp::GrpcDereg { .. } => "grpc-deregister",
            COp::HttpWrite { console: false, .. } => "http-write",
            COp::HttpWrite { console: true, .. } => "console-write",
            COp::HttpBeat { .. } => "http-beat",
            COp::HttpDereg { .. } => "http-deregister",
            COp::RemoveClient { .. } => "connection-end",
            COp::Threshold { .. } => "set-threshold",
            COp::Sniff { .. } => "health-probe",
        }
    }
    /// operation family used in violation signatures (the open-api and the console write build the same kind of request)
    fn sig_kind(&self) -> &'static str {
        match self {
            COp::HttpWrite { .. } => "http-write",
            _ => self.kind(),
        }
    }
    fn target(&self) -> Option<(Svc, usize)> {
        match self {
            COp::GrpcReg { svc, a, .. } | COp::GrpcDereg { svc, a, .. } | COp::HttpWrite { svc, a, .. } | COp::HttpBeat { svc, a } | COp::HttpDereg { svc, a } | COp::Sniff { svc, a, .. } => Some((*svc, *a)),
            _ => None,
        }
    }
    fn actor(&self) -> Option<usize> {
        match self {
            COp::GrpcReg { client, .. } | COp::GrpcDereg { client, .. } | COp::RemoveClient { client } => Some(*client),
            _ => None,
        }
    }
}

// ---------------------------------------------------------------- reference model
#[derive(Clone, Debug, PartialEq)]
pub struct MInst {
    pub owner: String,
    pub ephemeral: bool,
    pub enabled: bool,
    pub healthy: bool,
    pub weight: f32,
}

#[derive(Clone, Debug, Default)]
pub struct MSvc {
    pub exists: bool,
    pub th: f32,
    pub insts: BTreeMap<usize, MInst>,
}

#[derive(Clone, Debug, Default)]
pub struct Model {
    pub svcs: BTreeMap<Svc, MSvc>,
}

impl Model {
    fn get(&self, svc: &Svc, a: usize) -> Option<&MInst> {
        self.svcs.get(svc).and_then(|s| s.insts.get(&a))
    }
}

fn minst_of(p: &PInst) -> MInst {
    MInst { owner: p.client.clone(), ephemeral: p.ephemeral, enabled: p.enabled, healthy: p.healthy, weight: p.weight }
}

/// prior state class of an instance relative to the acting connection
fn class_of(m: Option<&MInst>, actor: Option<&str>) -> String {
    match m {
        None => "absent".into(),
        Some(i) => format!(
            "{}-{}",
            if i.ephemeral { "ephemeral" } else { "persistent" },
            if i.owner.is_empty() {
                "http"
            } else if Some(i.owner.as_str()) == actor {
                "owned-by-acting-connection"
            } else {
                "owned-by-other-connection"
            }
        ),
    }
}

/// allowed outcomes for one instance after an operation; an empty vector = "any"
#[derive(Debug, Default)]
struct Expect {
    exists: Option<bool>,
    owner: Vec<String>,
    ephemeral: Vec<bool>,
    enabled: Vec<bool>,
    healthy: Vec<bool>,
    weight: Vec<f32>,
    /// owner rule that depends on the resulting ephemeral flag: (owner required when the result is ephemeral)
    owner_if_ephemeral: Option<String>,
    is_new: bool,
}

fn expect_write(op: &COp, old: Option<&MInst>) -> Expect {
    let mut e = Expect { exists: Some(true), ..Default::default() };
    match op {
        COp::GrpcReg { client, healthy, enabled, ephemeral, weight, .. } => {
            let c = CONNS[*client].to_string();
            match old {
                None => {
                    // a newly registered instance carries the ephemeral flag, enabled flag and weight it was registered with
                    e.is_new = true;
                    e.ephemeral = vec![*ephemeral];
                    e.enabled = vec![*enabled];
                    e.weight = vec![*weight];
                    e.healthy = vec![*healthy];
                    e.owner_if_ephemeral = Some(c.clone());
                    e.owner = vec![c, String::new()]; // persistent: ownership may move to the raft state
                }
                Some(o) => {
                    // re-registration: last registration wins; flags kept by the update-tag heuristics are tolerated
                    e.ephemeral = vec![*ephemeral, o.ephemeral];
                    e.enabled = vec![*enabled, o.enabled];
                    e.weight = vec![*weight, o.weight];
                    e.healthy = vec![*healthy];
                    e.owner_if_ephemeral = Some(c.clone());
                    e.owner = vec![c, String::new(), o.owner.clone()];
                }
            }
        }
        COp::HttpWrite { weight, enabled, ephemeral, console, .. } => match old {
            None => {
                e.is_new = true;
                e.ephemeral = vec![ephemeral.unwrap_or(true)];
                e.enabled = vec![enabled.unwrap_or(true)];
                e.weight = vec![weight.unwrap_or(1.0)];
                e.healthy = vec![true];
                e.owner = vec![String::new()];
            }
            Some(o) => {
                e.ephemeral = vec![ephemeral.unwrap_or(o.ephemeral)];
                e.enabled = vec![enabled.unwrap_or(o.enabled)];
                e.weight = match weight {
                    Some(w) if *w == 1.0 && !*console => vec![*w, o.weight],
                    Some(w) => vec![*w],
                    None => vec![o.weight],
                };
                e.healthy = vec![true, o.healthy];
                // an HTTP ephemeral write onto a gRPC-owned instance keeps the gRPC owner
                e.owner_if_ephemeral = Some(o.owner.clone());
                e.owner = vec![o.owner.clone(), String::new()];
            }
        },
        COp::HttpBeat { .. } => match old {
            None => {
                e.exists = None; // a beat for an unknown instance: the property is silent
            }
            Some(o) => {
                e.ephemeral = vec![o.ephemeral];
                e.enabled = vec![o.enabled];
                e.weight = vec![o.weight];
                e.healthy = vec![true, o.healthy];
                e.owner = vec![o.owner.clone()];
            }
        },
        _ => {}
    }
    e
}

/// Some(true) = must still exist, Some(false) = must be gone, None = either
fn expect_dereg(by: &str, old: Option<&MInst>) -> Option<bool> {
    match old {
        None => Some(false),
        Some(o) if o.ephemeral => {
            if by.is_empty() || by == o.owner {
                Some(false)
            } else {
                Some(true) // an ephemeral instance can only be removed by its owner (or by an empty client id)
            }
        }
        Some(_) => None, // persistent: the property is silent
    }
}

// ---------------------------------------------------------------- actor side
fn base_instance(svc: &Svc, a: usize) -> Instance {
    let mut i = Instance::new(ADDRS[a].0.to_string(), ADDRS[a].1);
    i.namespace_id = Arc::new(NS[svc.ns].to_string());
    i.group_name = Arc::new(GROUPS[svc.g].to_string());
    i.service_name = Arc::new(SVCS[svc.s].to_string());
    i.generate_key();
    i
}

/// exactly what the handlers build (src/grpc/handler/naming_instance.rs, src/openapi/naming/instance.rs, src/console/v2/naming_api.rs)
fn to_cmd(op: &COp) -> Option<(NamingCmd, Option<InstanceUpdateTag>)> {
    match op {
        COp::GrpcReg { client, svc, a, healthy, enabled, ephemeral, weight, meta } => {
            let mut i = base_instance(svc, *a);
            i.healthy = *healthy;
            i.enabled = *enabled;
            i.ephemeral = *ephemeral;
            i.weight = *weight;
            i.metadata = Arc::new(meta_of(*meta));
            i.from_grpc = true;
            i.client_id = Arc::new(CONNS[*client].to_string());
            let tag = InstanceUpdateTag { weight: i.weight != 1.0, metadata: true, enabled: !i.enabled, ephemeral: false, from_update: false };
            Some((NamingCmd::Update(i, Some(tag.clone())), Some(tag)))
        }
        COp::GrpcDereg { client, svc, a } => {
            let mut i = base_instance(svc, *a);
            i.from_grpc = true;
            i.client_id = Arc::new(CONNS[*client].to_string());
            Some((NamingCmd::Delete(i), None))
        }
        COp::HttpWrite { svc, a, weight, enabled, ephemeral, meta, console } => {
            let mut i = base_instance(svc, *a);
            i.weight = weight.unwrap_or(1.0);
            i.enabled = enabled.unwrap_or(true);
            i.healthy = true;
            i.ephemeral = ephemeral.unwrap_or(true);
            i.metadata = Arc::new(meta_of(meta.unwrap_or(0)));
            let tag = if *console {
                InstanceUpdateTag { weight: weight.is_some(), metadata: meta.is_some(), enabled: enabled.is_some(), ephemeral: ephemeral.is_some(), from_update: true }
            } else {
                InstanceUpdateTag { weight: weight.map(|w| w != 1.0).unwrap_or(false), metadata: meta.map(|m| m > 0).unwrap_or(false), enabled: enabled.is_some(), ephemeral: ephemeral.is_some(), from_update: true }
            };
            Some((NamingCmd::Update(i, Some(tag.clone())), Some(tag)))
        }
        COp::HttpBeat { svc, a } => {
            let i = base_instance(svc, *a);
            let tag = InstanceUpdateTag { weight: false, metadata: false, enabled: false, ephemeral: false, from_update: false };
            Some((NamingCmd::Update(i, Some(tag.clone())), Some(tag)))
        }
        COp::HttpDereg { svc, a } => Some((NamingCmd::Delete(base_instance(svc, *a)), None)),
        COp::RemoveClient { client } => Some((NamingCmd::RemoveClient(Arc::new(CONNS[*client].to_string())), None)),
        COp::Threshold { svc, th } => Some((
            NamingCmd::UpdateService(ServiceDetailDto {
                namespace_id: Arc::new(NS[svc.ns].to_string()),
                group_name: Arc::new(GROUPS[svc.g].to_string()),
                service_name: Arc::new(SVCS[svc.s].to_string()),
                metadata: None,
                protect_threshold: Some(*th),
                grpc_instance_count: None,
            }),
            None,
        )),
        COp::Sniff { svc, a, success } => Some((
            NamingCmd::PerpetualHostSniffing { host: InstanceShortKey::new(Arc::new(ADDRS[*a].0.to_string()), ADDRS[*a].1), service_keys: vec![svc.key()], success: *success },
            None,
        )),
    }
}

async fn query_one(rig: &Rig, svc: &Svc, a: usize) -> anyhow::Result<Option<Arc<Instance>>> {
    match rig.cmd(NamingCmd::Query(base_instance(svc, a))).await? {
        NamingResult::Instance(i) => Ok(Some(i)),
        _ => Ok(None),
    }
}

/// what a real node does after the write through NamingCmd::NotifyUpdateRaftInstance / NotifyRemoveRaftInstance -> raft -> apply
/// (Service::update_instance's UpdatePerpetualType, src/naming/service.rs:185-231; NamingActor::update_instance core.rs:511-527)
async fn raft_echo(rig: &Rig, svc: &Svc, a: usize, old: Option<&Arc<Instance>>, tag: &InstanceUpdateTag, rep: &mut BTreeMap<String, u64>) -> anyhow::Result<()> {
    let new = match query_one(rig, svc, a).await? {
        Some(n) => n,
        None => return Ok(()),
    };
    let kind = match old {
        None => {
            if !new.ephemeral {
                "new"
            } else {
                ""
            }
        }
        Some(o) => {
            let mut changed = false;
            if !tag.is_none() {
                changed = (tag.enabled && o.enabled != new.enabled) || (tag.weight && o.weight != new.weight) || (tag.metadata && tag.from_update);
            }
            if !new.ephemeral && o.ephemeral {
                "new"
            } else if new.ephemeral && !o.ephemeral {
                "remove"
            } else if !new.ephemeral && changed {
                "update"
            } else {
                ""
            }
        }
    };
    match kind {
        "new" | "update" => {
            let param: InstanceRegisterParam = new.as_ref().into();
            rig.addr.send(NamingRaftReq::UpdateInstance { param }).await.map_err(|e| anyhow::anyhow!("mailbox {}", e))?.ok();
            *rep.entry("raft_echo_update".into()).or_insert(0) += 1;
        }
        "remove" => {
            rig.addr.send(NamingRaftReq::RemoveInstance(mk_ikey(svc, a))).await.map_err(|e| anyhow::anyhow!("mailbox {}", e))?.ok();
            *rep.entry("raft_echo_remove".into()).or_insert(0) += 1;
        }
        _ => {}
    }
    Ok(())
}

// ---------------------------------------------------------------- list expectations
fn reached(h: usize, t: usize, th: f32) -> bool {
    let th = if th <= 0.0 { 0.0 } else { th };
    (h as f32) / (t as f32) <= th
}

/// allowed results (address -> healthy flag as returned) + whether the protection threshold counts as reached
fn expected_lists(ms: &MSvc, healthy_only: bool) -> Vec<(bool, BTreeMap<usize, bool>)> {
    let enabled: Vec<(usize, bool)> = ms.insts.iter().filter(|(_, i)| i.enabled).map(|(a, i)| (*a, i.healthy)).collect();
    let h1 = enabled.iter().filter(|x| x.1).count();
    let mut defs = vec![];
    if ms.exists {
        defs.push(reached(h1, enabled.len(), ms.th)); // the code's definition: ratio over the enabled instances
        let hall = ms.insts.values().filter(|i| i.healthy).count();
        defs.push(reached(hall, ms.insts.len(), ms.th)); // tolerated alternative: ratio over all registered instances
    } else {
        defs.push(false);
    }
    let mut out: Vec<(bool, BTreeMap<usize, bool>)> = vec![];
    for r in defs {
        let m: BTreeMap<usize, bool> = if r {
            enabled.iter().map(|(a, _)| (*a, true)).collect()
        } else if healthy_only {
            enabled.iter().filter(|x| x.1).cloned().collect()
        } else {
            enabled.iter().cloned().collect()
        };
        if !out.iter().any(|(r2, m2)| *r2 == r && *m2 == m) {
            out.push((r, m));
        }
    }
    out
}

struct Row {
    a: usize,
    healthy: bool,
    enabled: Option<bool>,
    ephemeral: Option<bool>,
    weight: f32,
}

fn rows_of(list: &[Arc<Instance>]) -> Vec<Row> {
    list.iter()
        .map(|i| Row { a: ADDRS.iter().position(|x| x.0 == i.ip.as_str() && x.1 == i.port).unwrap_or(usize::MAX), healthy: i.healthy, enabled: Some(i.enabled), ephemeral: Some(i.ephemeral), weight: i.weight })
        .collect()
}

fn th_name(ms: &MSvc) -> String {
    if !ms.exists {
        "none".into()
    } else {
        format!("{}", ms.th)
    }
}

/// compare one query result with the model; returns (symptom, detail)
fn check_rows(ms: &MSvc, healthy_only: bool, rows: &[Row], flag: Option<bool>) -> Option<(String, Value)> {
    let mut got: BTreeMap<usize, bool> = BTreeMap::new();
    for r in rows {
        if got.insert(r.a, r.healthy).is_some() {
            return Some(("address-returned-twice".into(), json!({"addr": r.a})));
        }
    }
    for r in rows {
        match ms.insts.get(&r.a) {
            None => return Some(("unregistered-or-deregistered-instance-returned".into(), json!({"addr": ADDRS.get(r.a)}))),
            Some(i) if !i.enabled => return Some(("disabled-instance-returned".into(), json!({"addr": ADDRS.get(r.a)}))),
            Some(i) => {
                if r.ephemeral.map(|e| e != i.ephemeral).unwrap_or(false) || r.enabled.map(|e| e != i.enabled).unwrap_or(false) || r.weight != i.weight {
                    return Some(("returned-instance-differs-from-registration".into(), json!({"addr": ADDRS.get(r.a), "returned": {"ephemeral": r.ephemeral, "enabled": r.enabled, "weight": r.weight}, "registered": {"ephemeral": i.ephemeral, "enabled": i.enabled, "weight": i.weight}})));
                }
            }
        }
    }
    let alts = expected_lists(ms, healthy_only);
    for (r, m) in &alts {
        if *m == got && flag.map(|f| f == *r).unwrap_or(true) {
            return None;
        }
    }
    // classify against the code's own definition (first alternative)
    let (r0, m0) = &alts[0];
    let detail = json!({"returned": got.iter().map(|(a, h)| json!([ADDRS.get(*a), h])).collect::<Vec<_>>(), "allowed": alts.iter().map(|(r, m)| json!({"threshold_reached": r, "hosts": m.iter().map(|(a, h)| json!([ADDRS.get(*a), h])).collect::<Vec<_>>()})).collect::<Vec<_>>(),
        "registered": ms.insts.iter().map(|(a, i)| json!({"addr": ADDRS.get(*a), "enabled": i.enabled, "healthy": i.healthy, "ephemeral": i.ephemeral, "owner": i.owner})).collect::<Vec<_>>(), "reach_flag": flag});
    for (a, _) in m0 {
        if !got.contains_key(a) {
            let sym = if *r0 && !ms.insts[a].healthy { "threshold-reached-but-unhealthy-instance-filtered-out" } else { "registered-instance-missing-from-result" };
            return Some((sym.into(), detail));
        }
    }
    for (a, h) in &got {
        match m0.get(a) {
            None => return Some(("unhealthy-instance-returned-under-healthy-only-below-threshold".into(), detail)),
            Some(h0) if h0 != h => return Some(("healthy-flag-differs".into(), detail)),
            _ => {}
        }
    }
    Some(("reach-protection-threshold-flag-differs".into(), detail))
}

async fn check_service(rig: &Rig, svc: &Svc, ms: &MSvc, full: bool, rep: &mut Out) -> anyhow::Result<()> {
    let key = svc.key();
    for healthy_only in [false, true] {
        if !full && healthy_only {
            continue;
        }
        // QueryInstancePage, walked with page size 2
        let mut rows: Vec<Arc<Instance>> = vec![];
        let mut total = 0;
        for page in 1..=4 {
            if let NamingResult::InstanceInfoPage((t, l)) = rig.cmd(NamingCmd::QueryInstancePage { service_key: key.clone(), cluster: String::new(), only_healthy: healthy_only, page_size: 2, page_index: page }).await? {
                total = t;
                rows.extend(l);
            }
            if rows.len() >= total {
                break;
            }
        }
        rep.queries += 1;
        let mut res = check_rows(ms, healthy_only, &rows_of(&rows), None);
        if res.is_none() && total != rows.len() {
            res = Some(("page-total-differs-from-rows".into(), json!({"total": total, "rows": rows.len()})));
        }
        rep.query_result("QueryInstancePage", svc, ms, healthy_only, res);
        if !full {
            continue;
        }
        if let NamingResult::InstanceList(l) = rig.cmd(NamingCmd::QueryList(key.clone(), String::new(), healthy_only, None)).await? {
            rep.queries += 1;
            let res = check_rows(ms, healthy_only, &rows_of(&l), None);
            rep.query_result("QueryList", svc, ms, healthy_only, res);
        }
        if let NamingResult::InstanceListString(sv) = rig.cmd(NamingCmd::QueryListString(key.clone(), String::new(), healthy_only, None)).await? {
            rep.queries += 1;
            let v: Value = serde_json::from_str(&sv).unwrap_or(Value::Null);
            let rows: Vec<Row> = v["hosts"]
                .as_array()
                .cloned()
                .unwrap_or_default()
                .iter()
                .map(|h| Row {
                    a: ADDRS.iter().position(|x| Some(x.0) == h["ip"].as_str() && Some(x.1 as u64) == h["port"].as_u64()).unwrap_or(usize::MAX),
                    healthy: h["healthy"].as_bool().unwrap_or(false),
                    enabled: h["enabled"].as_bool(),
                    ephemeral: h["ephemeral"].as_bool(),
                    weight: h["weight"].as_f64().unwrap_or(-1.0) as f32,
                })
                .collect();
            let res = check_rows(ms, healthy_only, &rows, None);
            rep.query_result("QueryListString", svc, ms, healthy_only, res);
        }
        if let NamingResult::ServiceInfo(info) = rig.cmd(NamingCmd::QueryServiceInfo(key.clone(), String::new(), healthy_only)).await? {
            rep.queries += 1;
            let hosts = info.hosts.clone().unwrap_or_default();
            let res = check_rows(ms, healthy_only, &rows_of(&hosts), Some(info.reach_protection_threshold));
            rep.query_result("QueryServiceInfo", svc, ms, healthy_only, res);
        }
    }
    Ok(())
}

// ---------------------------------------------------------------- one history
#[derive(Default)]
pub struct Out {
    pub steps: u64,
    pub queries: u64,
    pub shapes: BTreeMap<String, u64>,
    pub counters: BTreeMap<String, u64>,
    /// (signature, index of the operation, detail)
    pub violations: Vec<(String, usize, Value)>,
    pub harness_error: Option<String>,
    cur_op: usize,
}

impl Out {
    fn query_result(&mut self, q: &str, svc: &Svc, ms: &MSvc, healthy_only: bool, res: Option<(String, Value)>) {
        let enabled = ms.insts.values().filter(|i| i.enabled).count();
        let unhealthy = ms.insts.values().filter(|i| i.enabled && !i.healthy).count();
        let disabled = ms.insts.len() - enabled;
        let alts = expected_lists(ms, healthy_only);
        match res {
            None => {
                if !ms.insts.is_empty() {
                    let shape = format!(
                        "query/{}/healthy_only={}/threshold={}/{}/{}{}{}",
                        q,
                        healthy_only,
                        th_name(ms),
                        if alts[0].0 { "reached" } else { "not-reached" },
                        if unhealthy > 0 { "some-unhealthy" } else { "all-healthy" },
                        if disabled > 0 { "+disabled" } else { "" },
                        if alts.len() > 1 { "+definitions-differ" } else { "" }
                    );
                    *self.shapes.entry(shape).or_insert(0) += 1;
                }
            }
            Some((sym, detail)) => {
                // threshold value and instance mix are in the witness; the signature names query kind, symptom and healthy-only only
                let sig = format!("inproc/query/{}/{}/healthy_only={}", q, sym, healthy_only);
                self.violations.push((sig, self.cur_op, json!({"service": svc.name(), "detail": detail})));
            }
        }
    }
}

fn cmp_field<T: PartialEq + std::fmt::Debug>(allowed: &[T], got: &T) -> bool {
    allowed.is_empty() || allowed.iter().any(|x| x == got)
}

pub async fn run_history(ops_in: Option<Vec<COp>>, seed: u64, n: usize) -> (Vec<COp>, Out) {
    let mut out = Out::default();
    let mut ops = vec![];
    let r = run_inner(ops_in, seed, n, &mut ops, &mut out).await;
    if let Err(e) = r {
        out.harness_error = Some(format!("{:?}", e));
    }
    (ops, out)
}

async fn run_inner(ops_in: Option<Vec<COp>>, seed: u64, n: usize, ops: &mut Vec<COp>, out: &mut Out) -> anyhow::Result<()> {
    let rig = Rig::new(false).await;
    let mut model = Model::default();
    let mut g = Gen::new(seed);
    let n = ops_in.as_ref().map(|v| v.len()).unwrap_or(n);
    for step in 0..n {
        let op = match &ops_in {
            Some(v) => v[step].clone(),
            None => g.op(&model),
        };
        ops.push(op.clone());
        out.cur_op = step;
        out.steps += 1;
        let actor = op.actor().map(|c| CONNS[c]);
        let kind = op.kind();
        let (cmd, tag) = to_cmd(&op).unwrap();
        match &op {
            COp::GrpcReg { svc, a, .. } | COp::HttpWrite { svc, a, .. } | COp::HttpBeat { svc, a } => {
                let old_m = model.get(svc, *a).cloned();
                let pc = class_of(old_m.as_ref(), actor);
                let exp = expect_write(&op, old_m.as_ref());
                let old_real = query_one(&rig, svc, *a).await?;
                rig.cmd(cmd).await?;
                raft_echo(&rig, svc, *a, old_real.as_ref(), tag.as_ref().unwrap(), &mut out.counters).await?;
                let got = query_one(&rig, svc, *a).await?.map(|i| pinst_of(&i));
                let req_note = match &op {
                    COp::HttpWrite { ephemeral, .. } => format!("[ephemeral={}]", ephemeral.map(|e| e.to_string()).unwrap_or_else(|| "unset".into())),
                    COp::GrpcReg { ephemeral, .. } => format!("[ephemeral={}]", ephemeral),
                    _ => String::new(),
                };
                let mut sym: Option<String> = None;
                match (&got, exp.exists) {
                    (None, Some(true)) => sym = Some("registered-instance-missing-after-write".into()),
                    (Some(p), _) => {
                        let fam = if exp.is_new { "new-instance" } else { "re-registration" };
                        if !cmp_field(&exp.ephemeral, &p.ephemeral) {
                            sym = Some(format!("{}-ephemeral-flag-differs", fam));
                        } else if !cmp_field(&exp.enabled, &p.enabled) {
                            sym = Some(format!("{}-enabled-flag-differs", fam));
                        } else if !cmp_field(&exp.weight, &p.weight) {
                            sym = Some(format!("{}-weight-differs", fam));
                        } else if !cmp_field(&exp.healthy, &p.healthy) {
                            sym = Some(format!("{}-healthy-flag-differs", fam));
                        } else if p.ephemeral && exp.owner_if_ephemeral.as_ref().map(|o| o != &p.client).unwrap_or(false) {
                            sym = Some(if matches!(op, COp::GrpcReg { .. }) { "grpc-registration-did-not-take-ownership".to_string() } else { "http-ephemeral-write-changed-grpc-ownership".to_string() });
                        } else if !cmp_field(&exp.owner, &p.client) {
                            sym = Some("unexpected-owner".into());
                        }
                    }
                    _ => {}
                }
                *out.shapes.entry(format!("op/{}{}@{}", kind, req_note, pc)).or_insert(0) += 1;
                if let Some(sym) = sym {
                    out.violations.push((format!("inproc/{}/{}{}@{}", sym, op.sig_kind(), req_note, pc), step, json!({"op": op, "model_before": old_m.as_ref().map(|m| format!("{:?}", m)), "allowed": format!("{:?}", exp), "observed": got.as_ref().map(|p| format!("{:?}", p))})));
                }
                // adopt what the code did
                let ms = model.svcs.entry(*svc).or_default();
                ms.exists = true;
                match got {
                    Some(p) => {
                        ms.insts.insert(*a, minst_of(&p));
                    }
                    None => {
                        ms.insts.remove(a);
                    }
                }
            }
            COp::GrpcDereg { svc, a, .. } | COp::HttpDereg { svc, a } => {
                let by = actor.unwrap_or("");
                let old_m = model.get(svc, *a).cloned();
                let pc = class_of(old_m.as_ref(), actor);
                let exp = expect_dereg(by, old_m.as_ref());
                rig.cmd(cmd).await?;
                let got = query_one(&rig, svc, *a).await?.map(|i| pinst_of(&i));
                *out.shapes.entry(format!("op/{}@{}/{}", kind, pc, if got.is_some() { "kept" } else { "gone" })).or_insert(0) += 1;
                let sym = match (exp, &got) {
                    (Some(true), None) => Some("ephemeral-instance-removed-by-foreign-client"),
                    (Some(false), Some(_)) => Some("deregistered-instance-still-registered"),
                    (Some(true), Some(p)) if Some(minst_of(p)) != old_m => Some("refused-deregistration-changed-the-instance"),
                    _ => None,
                };
                if let Some(sym) = sym {
                    out.violations.push((format!("inproc/{}/{}@{}", sym, kind, pc), step, json!({"op": op, "model_before": old_m.as_ref().map(|m| format!("{:?}", m)), "observed": got.as_ref().map(|p| format!("{:?}", p))})));
                }
                if let Some(ms) = model.svcs.get_mut(svc) {
                    match got {
                        Some(p) => {
                            ms.insts.insert(*a, minst_of(&p));
                        }
                        None => {
                            ms.insts.remove(a);
                        }
                    }
                }
            }
            COp::RemoveClient { client } => {
                let c = CONNS[*client];
                rig.cmd(cmd).await?;
                let mut own = 0;
                let keys: Vec<(Svc, usize, MInst)> = model.svcs.iter().flat_map(|(s, ms)| ms.insts.iter().map(move |(a, i)| (*s, *a, i.clone()))).collect();
                for (svc, a, m) in keys {
                    let got = query_one(&rig, &svc, a).await?.map(|i| pinst_of(&i));
                    let must_go = m.ephemeral && m.owner == c;
                    if must_go {
                        own += 1;
                    }
                    let pc = class_of(Some(&m), Some(c));
                    let sym = match (&got, must_go) {
                        (Some(_), true) => Some("connection-end-left-own-ephemeral-instance".to_string()),
                        (None, false) => Some(format!("connection-end-removed-{}-instance", if !m.ephemeral { "persistent" } else if m.owner.is_empty() { "http" } else { "other-connections" })),
                        (Some(p), false) if {
                            // a persistent instance may lose the closing connection as its owner, nothing else may change
                            let mut now = minst_of(p);
                            if !m.ephemeral && m.owner == c && now.owner.is_empty() {
                                now.owner = m.owner.clone();
                            }
                            now != m
                        } =>
                        {
                            Some("connection-end-changed-foreign-instance".to_string())
                        }
                        _ => None,
                    };
                    if let Some(sym) = sym {
                        out.violations.push((format!("inproc/{}/{}@{}", sym, kind, pc), step, json!({"op": op, "instance": {"service": svc.name(), "addr": ADDRS[a]}, "model_before": format!("{:?}", m), "observed": got.as_ref().map(|p| format!("{:?}", p))})));
                    }
                    let ms = model.svcs.get_mut(&svc).unwrap();
                    match got {
                        Some(p) => {
                            ms.insts.insert(a, minst_of(&p));
                        }
                        None => {
                            ms.insts.remove(&a);
                        }
                    }
                }
                let others = model.svcs.values().flat_map(|ms| ms.insts.values()).count();
                *out.shapes.entry(format!("op/{}/own={}/others-left={}", kind, own.min(3), others.min(3))).or_insert(0) += 1;
                *out.counters.entry("connection_end_removed_own_instances".into()).or_insert(0) += own as u64;
            }
            COp::Threshold { svc, th } => {
                rig.cmd(cmd).await?;
                let ms = model.svcs.entry(*svc).or_default();
                ms.exists = true;
                ms.th = *th;
                *out.shapes.entry(format!("op/{}={}", kind, th)).or_insert(0) += 1;
            }
            COp::Sniff { svc, a, success } => {
                let old_m = model.get(svc, *a).cloned();
                rig.cmd(cmd).await?;
                let got = query_one(&rig, svc, *a).await?.map(|i| pinst_of(&i));
                let sym = match (&old_m, &got) {
                    (Some(_), None) => Some("registered-instance-missing-after-health-probe"),
                    (None, Some(_)) => Some("health-probe-created-an-instance"),
                    (Some(o), Some(p)) => {
                        let mut o2 = o.clone();
                        o2.healthy = p.healthy;
                        if minst_of(p) != o2 || !(p.healthy == o.healthy || p.healthy == *success) {
                            Some("health-probe-changed-more-than-health")
                        } else {
                            None
                        }
                    }
                    _ => None,
                };
                if let Some(sym) = sym {
                    out.violations.push((format!("inproc/{}/{}", sym, kind), step, json!({"op": op, "model_before": old_m.as_ref().map(|m| format!("{:?}", m)), "observed": got.as_ref().map(|p| format!("{:?}", p))})));
                }
                if let (Some(ms), Some(p)) = (model.svcs.get_mut(svc), got) {
                    if ms.insts.contains_key(a) {
                        ms.insts.insert(*a, minst_of(&p));
                    }
                }
            }
        }
        // ---- queries: the touched service(s) with all four query kinds and both healthy-only settings, the others lightly
        let touched: Vec<Svc> = match op.target() {
            Some((s, _)) => vec![s],
            None => match &op {
                COp::Threshold { svc, .. } => vec![*svc],
                _ => model.svcs.keys().cloned().collect(),
            },
        };
        let empty = MSvc::default();
        for svc in Svc::all() {
            let ms = model.svcs.get(&svc).unwrap_or(&empty);
            let full = touched.contains(&svc);
            if !full && step % 7 != 0 {
                continue;
            }
            check_service(&rig, &svc, ms, full, out).await?;
        }
        if out.violations.len() >= 6 {
            break;
        }
    }
    Ok(())
}

// ---------------------------------------------------------------- generator
pub struct Gen {
    r: StdRng,
    hot: Vec<Svc>,
}

impl Gen {
    pub fn new(seed: u64) -> Gen {
        let mut r = rng(seed);
        let all = Svc::all();
        let n_hot = r.gen_range(1..=3);
        let hot = (0..n_hot).map(|_| all[r.gen_range(0..all.len())]).collect();
        Gen { r, hot }
    }
    fn svc(&mut self) -> Svc {
        if self.r.gen_bool(0.85) {
            self.hot[self.r.gen_range(0..self.hot.len())]
        } else {
            let all = Svc::all();
            all[self.r.gen_range(0..all.len())]
        }
    }
    fn addr(&mut self) -> usize {
        if self.r.gen_bool(0.7) {
            self.r.gen_range(0..3)
        } else {
            self.r.gen_range(0..ADDRS.len())
        }
    }
    fn present(&mut self, m: &Model) -> Option<(Svc, usize, MInst)> {
        let v: Vec<(Svc, usize, MInst)> = m.svcs.iter().flat_map(|(s, ms)| ms.insts.iter().map(move |(a, i)| (*s, *a, i.clone()))).collect();
        if v.is_empty() {
            None
        } else {
            Some(v[self.r.gen_range(0..v.len())].clone())
        }
    }
    fn opt<T: Copy>(&mut self, p: f64, vals: &[T]) -> Option<T> {
        if self.r.gen_bool(p) {
            Some(vals[self.r.gen_range(0..vals.len())])
        } else {
            None
        }
    }
    pub fn op(&mut self, m: &Model) -> COp {
        let x = self.r.gen_range(0..100);
        match x {
            0..=29 => {
                let (svc, a) = match self.present(m) {
                    Some((s, a, _)) if self.r.gen_bool(0.35) => (s, a), // re-registration of an address (maybe by another client)
                    _ => (self.svc(), self.addr()),
                };
                COp::GrpcReg { client: self.r.gen_range(0..3), svc, a, healthy: self.r.gen_bool(0.7), enabled: self.r.gen_bool(0.85), ephemeral: self.r.gen_bool(0.85), weight: *crate::util::pick(&mut self.r, &[1.0f32, 1.0, 2.0, 0.5]), meta: self.r.gen_range(0..3) }
            }
            30..=49 => {
                let (svc, a) = match self.present(m) {
                    Some((s, a, _)) if self.r.gen_bool(0.5) => (s, a),
                    _ => (self.svc(), self.addr()),
                };
                COp::HttpWrite { svc, a, weight: self.opt(0.4, &[1.0f32, 2.0, 0.5]), enabled: self.opt(0.4, &[true, false, false]), ephemeral: self.opt(0.45, &[true, false]), meta: self.opt(0.4, &[0u8, 1, 2]), console: self.r.gen_bool(0.35) }
            }
            50..=54 => match self.present(m) {
                Some((s, a, _)) if self.r.gen_bool(0.8) => COp::HttpBeat { svc: s, a },
                _ => COp::HttpBeat { svc: self.svc(), a: self.addr() },
            },
            55..=69 => {
                // deregistration with matching / foreign client id
                match self.present(m) {
                    Some((s, a, i)) if self.r.gen_bool(0.85) => {
                        let owner = CONNS.iter().position(|c| *c == i.owner);
                        let client = match owner {
                            Some(o) if self.r.gen_bool(0.5) => o,
                            _ => self.r.gen_range(0..3),
                        };
                        COp::GrpcDereg { client, svc: s, a }
                    }
                    _ => COp::GrpcDereg { client: self.r.gen_range(0..3), svc: self.svc(), a: self.addr() },
                }
            }
            70..=76 => match self.present(m) {
                Some((s, a, _)) if self.r.gen_bool(0.85) => COp::HttpDereg { svc: s, a },
                _ => COp::HttpDereg { svc: self.svc(), a: self.addr() },
            },
            77..=86 => COp::RemoveClient { client: self.r.gen_range(0..3) },
            87..=93 => COp::Threshold { svc: self.svc(), th: *crate::util::pick(&mut self.r, &THRESHOLDS) },
            _ => match self.present(m) {
                Some((s, a, _)) => COp::Sniff { svc: s, a, success: self.r.gen_bool(0.4) },
                None => COp::Sniff { svc: self.svc(), a: self.addr(), success: false },
            },
        }
    }
}

/// keep a sub-list if its LAST operation still shows the signature
async fn shrink(ops: Vec<COp>, sig: &str, budget: Duration) -> Vec<COp> {
    let t0 = Instant::now();
    let mut cur = ops;
    let mut chunk = cur.len() / 2;
    while chunk >= 1 && t0.elapsed() < budget {
        let mut i = 0;
        let mut progressed = false;
        while i < cur.len() && t0.elapsed() < budget {
            let end = (i + chunk).min(cur.len().saturating_sub(1));
            if end <= i {
                break;
            }
            let mut cand = cur.clone();
            cand.drain(i..end);
            let (_, o) = run_history(Some(cand.clone()), 0, 0).await;
            let last = cand.len() - 1;
            if o.violations.iter().any(|(s, at, _)| s == sig && *at == last) {
                cur = cand;
                progressed = true;
            } else {
                i = end;
            }
        }
        if !progressed {
            chunk /= 2;
        }
    }
    cur
}

pub fn run(args: &Args) -> anyhow::Result<()> {
    let seed = args.u64("seed", 1);
    let n_hist = args.u64("histories", 20);
    let n_ops = args.u64("ops", 120) as usize;
    let sys = actix_rt::System::new();
    let mut rep = Report::default();
    if let Some(path) = args.get("replay") {
        let w: Value = serde_json::from_str(&std::fs::read_to_string(path)?)?;
        let w = if w.get("witness").is_some() { w["witness"].clone() } else { w };
        let ops: Vec<COp> = serde_json::from_value(w["ops"].clone())?;
        let (_, o) = sys.block_on(run_history(Some(ops), 0, 0));
        if let Some(e) = &o.harness_error {
            println!("REPLAY harness-error {}", e);
        }
        for (s, at, d) in &o.violations {
            println!("REPLAY reproduced signature={} at-op-index={} detail={}", s, at, d);
        }
        if o.violations.is_empty() {
            println!("REPLAY not-reproduced steps={}", o.steps);
        }
        return Ok(());
    }
    sys.block_on(async {
        let mut seen_sigs: Vec<String> = vec![];
        for i in 0..n_hist {
            let hs = seed.wrapping_mul(1_000_003).wrapping_add(i);
            let (ops, o) = run_history(None, hs, n_ops).await;
            rep.evaluations += o.steps + o.queries;
            rep.count("inproc_operations", o.steps);
            rep.count("inproc_queries_compared", o.queries);
            rep.count("inproc_histories", 1);
            for (k, v) in &o.shapes {
                *rep.shapes.entry(format!("inproc/{}", k)).or_insert(0) += v;
            }
            for (k, v) in &o.counters {
                rep.count(k, *v);
            }
            if let Some(e) = &o.harness_error {
                rep.inconclusive.push(format!("in-process history seed {}: {}", hs, e));
                continue;
            }
            for (sig, at, detail) in &o.violations {
                if seen_sigs.contains(sig) {
                    rep.violation(sig.clone(), Value::Null);
                    continue;
                }
                seen_sigs.push(sig.clone());
                let mut prefix = ops.clone();
                prefix.truncate(at + 1);
                let small = shrink(prefix, sig, Duration::from_secs(10)).await;
                let (_, again) = run_history(Some(small.clone()), 0, 0).await;
                let det = again.violations.iter().find(|(s, a, _)| s == sig && *a == small.len() - 1).map(|x| x.2.clone()).unwrap_or_else(|| detail.clone());
                rep.violation(sig.clone(), json!({"rig": "in-process NamingActor", "history_seed": hs, "ops": small, "detail": det, "replay": "vh c12 --replay <this file>"}));
            }
            if o.violations.is_empty() && rep.samples.len() < 2 {
                let first: Vec<&COp> = ops.iter().take(10).collect();
                rep.sample(json!({"rig": "in-process NamingActor", "history_seed": hs, "operations": o.steps, "queries_compared": o.queries, "first_ops": first, "verdict": "every read-back and every query result was allowed by the reference model"}), 2);
            }
        }
    });
    rep.write(args)
}
