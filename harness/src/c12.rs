//! C12 rig (see DESIGN.md section 3/C12) - filled in by the C12 check.
use crate::util::Args;

pub fn run(_args: &Args) -> anyhow::Result<()> {
    anyhow::bail!("not implemented")
}
