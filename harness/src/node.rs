//! `vh node-session` — a complete in-process r-nacos node (config_factory + build_share_data, no HTTP/gRPC
//! servers) on the data directory given by RNACOS_DATA_DIR. JSON-line operations on stdin, one JSON answer
//! each. Writes go through raft.client_write (leader path) or directly through the RaftStorage methods
//! (follower / replay paths, C07). `dump` reads the observable state through the public actor queries only.
use crate::store::stdin_channel;
use crate::util::{hex, Args};
use actix::prelude::*;
use async_raft_ext::raft::{ClientWriteRequest, Entry, EntryNormal, EntryPayload};
use async_raft_ext::RaftStorage;
use rnacos::common::appdata::AppShareData;
use rnacos::common::model::privilege::NamespacePrivilegeGroup;
use rnacos::common::AppSysConfig;
use rnacos::config::config_index::ConfigQueryParam;
use rnacos::config::core::{ConfigAsyncCmd, ConfigCmd, ConfigKey, ConfigResult};
use rnacos::config::dal::ConfigHistoryParam;
use rnacos::mcp::model::actor_model::{McpManagerReq, McpManagerResult, McpToolSpecQueryParam};
use rnacos::mcp::model::mcp::McpQueryParam;
use rnacos::namespace::model::{NamespaceQueryReq, NamespaceQueryResult};
use rnacos::naming::core::{NamingCmd, NamingResult};
use rnacos::naming::model::ServiceKey;
use rnacos::raft::db::table::{TableManagerQueryReq, TableManagerResult};
use rnacos::raft::filestore::raftapply::{StateApplyManager, StateApplyRequest, StateApplyResponse};
use rnacos::raft::store::ClientRequest;
use rnacos::sequence::{SequenceRequest, SequenceResult};
use rnacos::starter::{build_share_data, config_factory};
use serde_json::{json, Value};
use std::io::Write;
use std::sync::Arc;
use std::time::{Duration, Instant};

fn s(v: &Value, k: &str) -> String {
    v[k].as_str().unwrap_or("").to_string()
}

pub struct NodeCtx {
    pub app: Arc<AppShareData>,
    pub apply: Addr<StateApplyManager>,
    pub index: Addr<rnacos::raft::filestore::raftindex::RaftIndexManager>,
    pub t0: Instant,
}

impl NodeCtx {
    fn now(&self) -> f64 {
        self.t0.elapsed().as_secs_f64()
    }

    async fn metrics(&self) -> Value {
        let m = self.app.raft.metrics().borrow().clone();
        json!({"state": format!("{:?}", m.state), "term": m.current_term, "last_log_index": m.last_log_index, "last_applied": m.last_applied,
               "leader": m.current_leader})
    }

    /// recovery barrier: start-up replay finished (apply manager answers) and raft re-applied its log suffix
    async fn barrier(&self, min_index: u64, bound_ms: u64) -> Value {
        let t = Instant::now();
        let mut timeline = vec![];
        let applied = match self.apply.send(StateApplyRequest::GetLastAppliedLog).await {
            Ok(Ok(StateApplyResponse::LastAppliedLog(v))) => v,
            _ => 0,
        };
        let mut stable_since: Option<Instant> = None;
        let mut last = (0u64, 0u64);
        loop {
            let m = self.app.raft.metrics().borrow().clone();
            let cur = (m.last_applied, m.last_log_index);
            let leader = format!("{:?}", m.state) == "Leader";
            if timeline.len() < 40 && cur != last {
                timeline.push(json!([t.elapsed().as_millis() as u64, cur.0, cur.1, format!("{:?}", m.state)]));
            }
            if cur.0 == cur.1 && cur.1 >= min_index && leader {
                if cur == last && stable_since.is_some() {
                    if stable_since.unwrap().elapsed() >= Duration::from_millis(300) {
                        return json!({"ok": true, "ms": t.elapsed().as_millis() as u64, "apply_manager_last_applied": applied, "last_applied": cur.0, "last_log_index": cur.1, "timeline": timeline});
                    }
                } else {
                    stable_since = Some(Instant::now());
                }
            } else {
                stable_since = None;
            }
            last = cur;
            if t.elapsed() > Duration::from_millis(bound_ms) {
                return json!({"ok": false, "recovered": false, "ms": t.elapsed().as_millis() as u64, "last_applied": cur.0, "last_log_index": cur.1, "min_index": min_index, "leader": leader, "timeline": timeline});
            }
            tokio::time::sleep(Duration::from_millis(20)).await;
        }
    }

    async fn dump(&self, op: &Value) -> anyhow::Result<Value> {
        let app = &self.app;
        // ---- configs: every key the driver ever used (GET + history) plus a listing per tenant (detects resurrected keys)
        let mut configs = serde_json::Map::new();
        let mut tenants: Vec<String> = vec![];
        for k in op["config_keys"].as_array().cloned().unwrap_or_default() {
            let (d, g, t) = (s(&k, "data_id"), s(&k, "group"), s(&k, "tenant"));
            if !tenants.contains(&t) {
                tenants.push(t.clone());
            }
            let key = ConfigKey::new(&d, &g, &t);
            let name = format!("{}|{}|{}", t, g, d);
            let got = app.config_addr.send(ConfigCmd::GET(key.clone())).await??;
            let mut entry = match got {
                ConfigResult::Data { value, md5, config_type, desc, last_modified } => {
                    json!({"content_md5": format!("{:x}", md5::compute(value.as_bytes())), "len": value.len(), "md5": md5.as_str(), "type": config_type.as_ref().map(|x| x.as_str()), "desc": desc.as_ref().map(|x| x.as_str()), "last_modified": last_modified,
                           "content": if value.len() <= 64 { json!(value.as_str()) } else { Value::Null }})
                }
                _ => json!(null),
            };
            let hp = ConfigHistoryParam { id: None, data_id: Some(d.clone()), group: Some(g.clone()), tenant: Some(t.clone()), order_by: None, order_by_desc: None, limit: Some(1000), offset: Some(0) };
            if let ConfigResult::ConfigHistoryInfoPage(total, list) = app.config_addr.send(ConfigCmd::QueryHistoryPageInfo(Box::new(hp))).await?? {
                if !entry.is_null() || total > 0 {
                    let h: Vec<Value> = list.iter().map(|x| json!([x.id, x.content.as_ref().map(|c| format!("{:x}", md5::compute(c.as_bytes()))), x.modified_time, x.op_user])).collect();
                    if entry.is_null() {
                        entry = json!({"absent_but_history": true});
                    }
                    entry["history_total"] = json!(total);
                    entry["history"] = json!(h);
                }
            }
            configs.insert(name, entry);
        }
        let mut listing = vec![];
        for t in &tenants {
            let qp = ConfigQueryParam { tenant: Some(Arc::new(t.clone())), group: None, data_id: None, like_group: None, like_data_id: None, namespace_privilege: NamespacePrivilegeGroup::new(rnacos::common::model::privilege::PrivilegeGroup::all()), query_context: false, offset: 0, limit: 100000 };
            if let ConfigResult::ConfigInfoPage(total, list) = app.config_addr.send(ConfigCmd::QueryPageInfo(Box::new(qp))).await?? {
                let mut names: Vec<String> = list.iter().map(|x| format!("{}|{}|{}", x.tenant, x.group, x.data_id)).collect();
                names.sort();
                listing.push(json!({"tenant": t, "total": total, "keys": names}));
            }
        }
        // ---- namespaces (keyed by id so that a difference names the namespace)
        let namespaces = match app.namespace_addr.send(NamespaceQueryReq::List).await?? {
            NamespaceQueryResult::List(l) => {
                let mut m = serde_json::Map::new();
                for n in l.iter() {
                    // what the namespace API serves: id, name and the api type ("0" system / "2" other); the weak-reference bits of flag are internal
                    m.insert(format!("ns:{}", n.namespace_id), json!([n.namespace_name, if n.flag == 1 { "0" } else { "2" }]));
                }
                Value::Object(m)
            }
            _ => json!(null),
        };
        // ---- tables (users, caches, ...): raw bytes, keyed by row key
        let mut tables = serde_json::Map::new();
        if let TableManagerResult::TableNames(names) = app.raft_table_manage.send(TableManagerQueryReq::QueryTableNames).await?? {
            let mut names: Vec<String> = names.iter().map(|x| x.to_string()).collect();
            names.sort();
            for n in names {
                let r = app.raft_table_manage.send(TableManagerQueryReq::QueryPageList { table_name: Arc::new(n.clone()), like_key: None, offset: None, limit: None, is_rev: false }).await??;
                if let TableManagerResult::PageListResult(total, list) = r {
                    let mut rows = serde_json::Map::new();
                    for (k, v) in list.iter() {
                        rows.insert(String::from_utf8_lossy(k).to_string(), json!([format!("{:x}", md5::compute(v)), v.len()]));
                    }
                    tables.insert(n, json!({"total": total, "rows": rows}));
                }
            }
        }
        // ---- MCP
        let mut mcp = serde_json::Map::new();
        if let McpManagerResult::ServerPageInfo(total, list) = app.mcp_manager.send(McpManagerReq::QueryServer(McpQueryParam { offset: 0, limit: 100000, namespace_id: None, name_filter: None })).await?? {
            let mut servers = vec![];
            for sv in &list {
                let mut j = serde_json::to_value(sv)?;
                if let McpManagerResult::ServerHistoryPageInfo(ht, hl) = app.mcp_manager.send(McpManagerReq::QueryServerHistory(sv.id, 0, 1000, None, None)).await?? {
                    j["_history_total"] = json!(ht);
                    j["_history"] = serde_json::to_value(&hl)?;
                }
                // the server must also be found through its unique key (the look-up the MCP gateway uses): a map of its own
                let by_key = match app.mcp_manager.send(McpManagerReq::GetServerByKey(sv.unique_key.clone())).await?? {
                    McpManagerResult::ServerInfo(Some(x)) => json!(x.id),
                    McpManagerResult::ServerInfo(None) => Value::Null,
                    _ => json!("unexpected answer"),
                };
                j["_found_by_unique_key"] = by_key;
                servers.push(j);
            }
            let mut sm = serde_json::Map::new();
            for sv in servers {
                sm.insert(format!("id{}", sv["id"]), sv);
            }
            mcp.insert("servers_total".into(), json!(total));
            mcp.insert("servers".into(), Value::Object(sm));
        }
        if let McpManagerResult::ToolSpecPageInfo(total, list) = app.mcp_manager.send(McpManagerReq::QueryToolSpec(McpToolSpecQueryParam { offset: 0, limit: 100000, namespace_id: None, group_filter: None, tool_name_filter: None })).await?? {
            let mut sm = serde_json::Map::new();
            for x in list.iter() {
                sm.insert(format!("{}:{}:{}", x.namespace, x.group, x.tool_name), serde_json::to_value(x).unwrap_or(Value::Null));
            }
            mcp.insert("toolspecs_total".into(), json!(total));
            mcp.insert("toolspecs".into(), Value::Object(sm));
        }
        // ---- persistent instances (restart-invariant fields only)
        let mut naming = serde_json::Map::new();
        for k in op["service_keys"].as_array().cloned().unwrap_or_default() {
            let key = ServiceKey::new(&s(&k, "namespace"), &s(&k, "group"), &s(&k, "service"));
            let name = format!("{}|{}|{}", s(&k, "namespace"), s(&k, "group"), s(&k, "service"));
            if let NamingResult::InstanceList(list) = app.naming_addr.send(NamingCmd::QueryAllInstanceList(key)).await?? {
                let mut im = serde_json::Map::new();
                for i in list.iter() {
                    let mut md = serde_json::Map::new();
                    for (a, b) in i.metadata.iter() {
                        md.insert(a.clone(), json!(b));
                    }
                    im.insert(format!("{}:{}", i.ip, i.port), json!({"weight": i.weight, "enabled": i.enabled, "ephemeral": i.ephemeral, "cluster": i.cluster_name, "app": i.app_name, "metadata": md}));
                }
                naming.insert(name, Value::Object(im));
            }
        }
        Ok(json!({"configs": configs, "config_listing": listing, "namespaces": namespaces, "tables": tables, "mcp": mcp, "naming": naming}))
    }

    pub async fn exec(&self, op: &Value) -> anyhow::Result<Value> {
        let name = op["op"].as_str().unwrap_or("");
        let app = &self.app;
        Ok(match name {
            "write" => {
                let req: ClientRequest = serde_json::from_value(op["req"].clone())?;
                let t_call = self.now();
                let r = app.raft.client_write(ClientWriteRequest::new(req)).await;
                match r {
                    Ok(resp) => json!({"index": resp.index, "resp": serde_json::to_value(&resp.data)?, "t_call": t_call, "t_ret": self.now()}),
                    Err(e) => json!({"err": format!("{:?}", e), "t_call": t_call, "t_ret": self.now()}),
                }
            }
            // ---- a compaction that runs AMONG writes: n client writes are in flight at once (appended, some not yet applied) when the
            // compaction is started; everything is awaited. The requests are given by the caller (fresh keys: re-applying them is idempotent)
            "burst_with_compaction" => {
                let reqs: Vec<ClientRequest> = op["reqs"].as_array().cloned().unwrap_or_default().into_iter().map(serde_json::from_value).collect::<Result<_, _>>()?;
                let before = op["compact_after"].as_u64().unwrap_or(3) as usize;
                let mut handles = vec![];
                let mut compaction = None;
                for (i, req) in reqs.into_iter().enumerate() {
                    let raft = app.raft.clone();
                    handles.push(actix_rt::spawn(async move { raft.client_write(ClientWriteRequest::new(req)).await.map(|r| r.index).map_err(|e| format!("{:?}", e)) }));
                    if i + 1 == before {
                        let store = app.raft_store.clone();
                        // let the first writes get under way (log appends and applies are separate steps of the raft core)
                        tokio::time::sleep(Duration::from_micros(op["lead_us"].as_u64().unwrap_or(300))).await;
                        compaction = Some(actix_rt::spawn(async move { store.do_log_compaction().await.map(|sn| sn.index).map_err(|e| e.to_string()) }));
                    }
                    if i % 3 == 2 {
                        tokio::task::yield_now().await;
                    }
                }
                let mut acked = vec![];
                let mut refused = 0;
                for h in handles {
                    match h.await {
                        Ok(Ok(i)) => acked.push(i),
                        _ => refused += 1,
                    }
                }
                let snap_index = match compaction {
                    Some(c) => match c.await {
                        Ok(Ok(i)) => json!(i),
                        Ok(Err(e)) => json!({"err": e}),
                        Err(e) => json!({"err": e.to_string()}),
                    },
                    None => Value::Null,
                };
                json!({"acked": acked.len(), "refused": refused, "max_index": acked.iter().max(), "min_index": acked.iter().min(), "snapshot_index": snap_index})
            }
            "publish" => {
                // the leader-local publish path: history id issued by the config actor's own sequence
                let key = ConfigKey::new(&s(op, "data_id"), &s(op, "group"), &s(op, "tenant"));
                let t_call = self.now();
                app.config_addr.send(ConfigAsyncCmd::Add { key, value: Arc::new(s(op, "content")), op_user: op["user"].as_str().map(|x| Arc::new(x.to_string())), config_type: op["type"].as_str().map(|x| Arc::new(x.to_string())), desc: op["desc"].as_str().map(|x| Arc::new(x.to_string())) }).await??;
                json!({"t_call": t_call, "t_ret": self.now()})
            }
            "remove" => {
                let key = ConfigKey::new(&s(op, "data_id"), &s(op, "group"), &s(op, "tenant"));
                app.config_addr.send(ConfigAsyncCmd::Delete(key)).await??;
                json!({})
            }
            "seq_next" => {
                let t_call = self.now();
                match app.sequence_manager.send(SequenceRequest::GetNextId(Arc::new(s(op, "key")))).await? {
                    Ok(SequenceResult::NextId(id)) => json!({"id": id, "t_call": t_call, "t_ret": self.now()}),
                    Ok(_) => json!({"err": "unexpected result"}),
                    Err(e) => json!({"err": e.to_string(), "t_call": t_call, "t_ret": self.now()}),
                }
            }
            "seq_range" => {
                let t_call = self.now();
                match app.sequence_manager.send(SequenceRequest::GetDirectRange(Arc::new(s(op, "key")), op["n"].as_u64().unwrap_or(1))).await? {
                    Ok(SequenceResult::Range(r)) => json!({"range": format!("{:?}", r), "t_call": t_call, "t_ret": self.now()}),
                    Ok(_) => json!({"err": "unexpected result"}),
                    Err(e) => json!({"err": e.to_string()}),
                }
            }
            "seq_burst" => {
                // n concurrent GetNextId calls on one key (they interleave inside the actor while a range is fetched through raft)
                let n = op["n"].as_u64().unwrap_or(10);
                let key = Arc::new(s(op, "key"));
                let mut futs = vec![];
                for _ in 0..n {
                    let addr = app.sequence_manager.clone();
                    let key = key.clone();
                    let t_call = self.now();
                    futs.push(async move { (t_call, addr.send(SequenceRequest::GetNextId(key)).await) });
                }
                let rs = futures_util::future::join_all(futs).await;
                let t_ret = self.now();
                let mut ids = vec![];
                let mut errs = 0;
                for (t_call, r) in rs {
                    match r {
                        Ok(Ok(SequenceResult::NextId(id))) => ids.push(json!([id, t_call, t_ret])),
                        _ => errs += 1,
                    }
                }
                json!({"ids": ids, "errors": errs})
            }
            "metrics" => self.metrics().await,
            "barrier" => self.barrier(op["min_index"].as_u64().unwrap_or(0), op["bound_ms"].as_u64().unwrap_or(15000)).await,
            "dump" => self.dump(op).await?,
            "serde_probe" => {
                // the leader applies the in-memory request; followers and the start-up replay apply what the log / the wire carry (serde_json).
                // A request that does not survive that encoding unchanged is applied differently on the three paths.
                let req: ClientRequest = serde_json::from_value(op["req"].clone())?;
                let wire = serde_json::to_string(&req)?;
                let back: ClientRequest = serde_json::from_str(&wire)?;
                let (a, b) = (format!("{:?}", req), format!("{:?}", back));
                if a == b {
                    json!({"same": true})
                } else {
                    let n = a.bytes().zip(b.bytes()).take_while(|(x, y)| x == y).count();
                    json!({"same": false, "in_memory": a.chars().skip(n.saturating_sub(60)).take(160).collect::<String>(),
                           "after_encoding": b.chars().skip(n.saturating_sub(60)).take(160).collect::<String>()})
                }
            }
            "raft_meta" => {
                // what the raft store serves for membership and node addresses (RaftStorage::get_membership_config / get_target_addr read the same record)
                use rnacos::raft::filestore::raftindex::{RaftIndexRequest, RaftIndexResponse};
                match self.index.send(RaftIndexRequest::LoadMember).await? {
                    Ok(RaftIndexResponse::MemberShip { member, member_after_consensus, node_addrs }) => {
                        let mut a = serde_json::Map::new();
                        let mut ids: Vec<&u64> = node_addrs.keys().collect();
                        ids.sort();
                        for id in ids {
                            a.insert(id.to_string(), json!(node_addrs[id].as_str()));
                        }
                        let mut m = member.clone();
                        m.sort();
                        json!({"members": m, "members_after": member_after_consensus, "node_addrs": a})
                    }
                    Ok(_) => json!({"err": "unexpected answer"}),
                    Err(e) => json!({"err": e.to_string()}),
                }
            }
            "compact" => {
                // what the raft core does when the snapshot threshold is reached
                match app.raft_store.do_log_compaction().await {
                    Ok(sn) => json!({"index": sn.index, "term": sn.term}),
                    Err(e) => json!({"err": e.to_string()}),
                }
            }
            // ---- C07: drive the storage paths directly (raft core must be idle: no auto-init, no join address)
            "leader_apply" => {
                let req: ClientRequest = serde_json::from_value(op["req"].clone())?;
                let (index, term) = (op["index"].as_u64().unwrap_or(0), op["term"].as_u64().unwrap_or(1));
                let e = Entry { index, term, payload: EntryPayload::Normal(EntryNormal { data: req.clone() }) };
                app.raft_store.append_entry_to_log(&e).await?;
                let r = app.raft_store.apply_entry_to_state_machine(&index, &req).await?;
                json!({"resp": serde_json::to_value(&r)?})
            }
            "follower_batch" => {
                let mut es = vec![];
                for x in op["entries"].as_array().cloned().unwrap_or_default() {
                    let req: ClientRequest = serde_json::from_value(x["req"].clone())?;
                    es.push(Entry { index: x["index"].as_u64().unwrap_or(0), term: x["term"].as_u64().unwrap_or(1), payload: EntryPayload::Normal(EntryNormal { data: req }) });
                }
                // a follower receives its entries over the wire: the leader's in-memory entries go through serde_json
                // (raft/network/core.rs: serde_json::to_string(&AppendEntriesRequest), raft_append.rs: from_slice) before they reach the store
                let wire = serde_json::to_string(&es)?;
                let es: Vec<Entry<ClientRequest>> = serde_json::from_str(&wire)?;
                app.raft_store.replicate_to_log(&es).await?;
                let pairs: Vec<(&u64, &ClientRequest)> = es.iter().filter_map(|e| match &e.payload { EntryPayload::Normal(n) => Some((&e.index, &n.data)), _ => None }).collect();
                app.raft_store.replicate_to_state_machine(&pairs).await?;
                json!({})
            }
            "preamble" => {
                // what every real member of a cluster has on disk before it ever receives entries: term/vote, membership, addresses
                use rnacos::raft::filestore::raftindex::RaftIndexRequest;
                let hs = async_raft_ext::storage::HardState { current_term: op["term"].as_u64().unwrap_or(1), voted_for: op["voted_for"].as_u64() };
                app.raft_store.save_hard_state(&hs).await?;
                let mut addrs = std::collections::HashMap::new();
                for i in 1..=3u64 {
                    addrs.insert(i, Arc::new(format!("127.0.0.1:{}", 1000 + i)));
                }
                let members: Vec<u64> = op["members"].as_array().map(|a| a.iter().filter_map(|x| x.as_u64()).collect()).unwrap_or_else(|| vec![1, 2, 3]);
                addrs.retain(|k, _| members.contains(k));
                self.index.send(RaftIndexRequest::SaveMember { member: members, member_after_consensus: None, node_addr: Some(addrs) }).await??;
                json!({})
            }
            // ---- what the raft core does when the leader streams a snapshot: create, write, finalize
            "install_snapshot" => {
                use tokio::io::AsyncWriteExt;
                let bytes = tokio::fs::read(s(op, "path")).await?;
                let (id, mut file) = app.raft_store.create_snapshot().await?;
                file.write_all(&bytes).await?;
                file.flush().await?;
                app.raft_store
                    .finalize_snapshot_installation(op["index"].as_u64().unwrap_or(0), op["term"].as_u64().unwrap_or(1), op["delete_through"].as_u64(), id, file)
                    .await?;
                json!({"bytes": bytes.len()})
            }
            // ---- what the raft core reads from its storage when it starts: end of the log, applied index, hard state, membership;
            // plus a walk over the whole log (contiguity, kinds) and the snapshot the catalogue points at
            "store_state" => {
                let st = app.raft_store.get_initial_state().await?;
                let mut members: Vec<u64> = st.membership.members.iter().copied().collect();
                members.sort();
                let entries = app.raft_store.get_log_entries(0, st.last_log_index.saturating_add(2)).await?;
                let mut contiguous = true;
                let mut prev: Option<u64> = None;
                let mut pointers = vec![];
                let mut normals = 0u64;
                for e in entries.iter() {
                    if let Some(p) = prev {
                        if e.index != p + 1 {
                            contiguous = false;
                        }
                    }
                    prev = Some(e.index);
                    match &e.payload {
                        EntryPayload::SnapshotPointer(sp) => pointers.push(json!([e.index, e.term, sp.id])),
                        EntryPayload::Normal(_) => normals += 1,
                        _ => {}
                    }
                }
                let snap = match app.raft_store.get_current_snapshot().await? {
                    Some(sn) => json!({"index": sn.index, "term": sn.term}),
                    None => Value::Null,
                };
                json!({"last_log_index": st.last_log_index, "last_log_term": st.last_log_term, "last_applied": st.last_applied_log,
                       "term": st.hard_state.current_term, "voted_for": st.hard_state.voted_for, "members": members,
                       "log_first": entries.first().map(|e| e.index), "log_last": entries.last().map(|e| e.index), "log_count": entries.len(),
                       "contiguous": contiguous, "pointers": pointers, "normals": normals, "snapshot": snap,
                       "last_entry": entries.last().map(|e| json!([e.index, e.term, match &e.payload { EntryPayload::Blank => "blank", EntryPayload::Normal(_) => "normal", EntryPayload::ConfigChange(_) => "config", EntryPayload::SnapshotPointer(_) => "pointer" }]))})
            }
            // ---- what the raft core of a restarted member does when the leader's commit index arrives: the entries behind its
            // applied index are taken from its own log and handed to the state machine (replicate_to_state_machine_if_needed)
            "raft_catch_up" => {
                let st = app.raft_store.get_initial_state().await?;
                let es = app.raft_store.get_log_entries(st.last_applied_log + 1, st.last_log_index.saturating_add(1)).await?;
                let pairs: Vec<(&u64, &ClientRequest)> = es.iter().filter_map(|e| match &e.payload { EntryPayload::Normal(n) => Some((&e.index, &n.data)), _ => None }).collect();
                let n = pairs.len();
                if n > 0 {
                    app.raft_store.replicate_to_state_machine(&pairs).await?;
                }
                json!({"applied": n, "from": st.last_applied_log + 1, "to": st.last_log_index})
            }
            // ---- the follower side of one AppendEntries RPC exactly as async-raft-ext 0.6.3 handles it (core/append_entries.rs), the raft
            // core's in-memory (last_log_index, last_log_term) being kept by the caller. `first` = first RPC after the start: the entries
            // behind the applied index are then taken from the node's own log (initial_replicate_to_state_machine)
            "follower_append" => {
                let (prev_index, prev_term) = (op["prev_index"].as_u64().unwrap_or(0), op["prev_term"].as_u64().unwrap_or(0));
                let (mut fl, mut ft) = (op["last_log_index"].as_u64().unwrap_or(0), op["last_log_term"].as_u64().unwrap_or(0));
                let mut es = vec![];
                for x in op["entries"].as_array().cloned().unwrap_or_default() {
                    let req: ClientRequest = serde_json::from_value(x["req"].clone())?;
                    es.push(Entry { index: x["index"].as_u64().unwrap_or(0), term: x["term"].as_u64().unwrap_or(1), payload: EntryPayload::Normal(EntryNormal { data: req }) });
                }
                let wire = serde_json::to_string(&es)?;
                let es: Vec<Entry<ClientRequest>> = serde_json::from_str(&wire)?;
                let mut path = "fast";
                let mut proceed = es.is_empty() || prev_index == 0 || (prev_index == fl && prev_term == ft);
                let mut conflict: Option<(u64, u64)> = None;
                if !proceed {
                    let got = app.raft_store.get_log_entries(prev_index, prev_index + 1).await?;
                    match got.first() {
                        None => {
                            path = "prev-entry-missing";
                            conflict = Some((fl, ft));
                        }
                        Some(t) if t.term == prev_term => {
                            path = "consistency-check";
                            if fl > t.index {
                                app.raft_store.delete_logs_from(t.index + 1, None).await?;
                                let _ = app.raft_store.get_membership_config().await?;
                            }
                            proceed = true;
                        }
                        Some(_) => {
                            path = "prev-term-differs";
                            let start = prev_index.saturating_sub(50);
                            let old = app.raft_store.get_log_entries(start, prev_index).await?;
                            conflict = Some(match old.iter().find(|e| e.term == prev_term) {
                                Some(e) => (e.index, e.term),
                                None => (fl, ft),
                            });
                        }
                    }
                }
                if let Some((ci, ct)) = conflict {
                    json!({"success": false, "conflict": [ci, ct], "path": path})
                } else {
                    let _ = proceed;
                    if !es.is_empty() {
                        app.raft_store.replicate_to_log(&es).await?;
                        fl = es.last().map(|e| e.index).unwrap_or(fl);
                        ft = es.last().map(|e| e.term).unwrap_or(ft);
                    }
                    let commit = op["commit"].as_u64().unwrap_or(fl);
                    let mut applied = 0usize;
                    if op["first"].as_bool().unwrap_or(false) {
                        let st = app.raft_store.get_initial_state().await?;
                        let stop = std::cmp::min(commit, fl) + 1;
                        let own = app.raft_store.get_log_entries(st.last_applied_log + 1, stop).await?;
                        let pairs: Vec<(&u64, &ClientRequest)> = own.iter().filter_map(|e| match &e.payload { EntryPayload::Normal(n) => Some((&e.index, &n.data)), _ => None }).collect();
                        applied = pairs.len();
                        if !pairs.is_empty() {
                            app.raft_store.replicate_to_state_machine(&pairs).await?;
                        }
                    } else {
                        let pairs: Vec<(&u64, &ClientRequest)> = es.iter().filter(|e| e.index <= commit).filter_map(|e| match &e.payload { EntryPayload::Normal(n) => Some((&e.index, &n.data)), _ => None }).collect();
                        applied = pairs.len();
                        if !pairs.is_empty() {
                            app.raft_store.replicate_to_state_machine(&pairs).await?;
                        }
                    }
                    json!({"success": true, "path": path, "last_log_index": fl, "last_log_term": ft, "applied": applied})
                }
            }
            "membership" => {
                let m = app.raft_store.get_membership_config().await?;
                let mut members: Vec<u64> = m.members.iter().copied().collect();
                members.sort();
                let mut addrs = serde_json::Map::new();
                for id in &members {
                    if let Ok(a) = app.raft_store.get_target_addr(*id).await {
                        addrs.insert(id.to_string(), json!(a.as_str()));
                    }
                }
                json!({"members": members, "after": m.members_after_consensus.as_ref().map(|x| { let mut v: Vec<u64> = x.iter().copied().collect(); v.sort(); v }), "addrs": addrs})
            }
            "history_seq_probe" => {
                // where would the config actor continue its history-id sequence? (consumes ids: call after the dumps only)
                match app.config_addr.send(ConfigCmd::GetSequenceSection(1)).await?? {
                    ConfigResult::SequenceSection { start, end } => json!({"start": start, "end": end}),
                    _ => json!({"err": "unexpected result"}),
                }
            }
            "actor_barrier" => {
                // one query per component actor: mailbox order guarantees earlier fire-and-forget sends were processed
                let _ = app.config_addr.send(ConfigCmd::GET(ConfigKey::new("-", "-", "-"))).await;
                let _ = app.namespace_addr.send(NamespaceQueryReq::List).await;
                let _ = app.raft_table_manage.send(TableManagerQueryReq::QueryTableNames).await;
                let _ = app.mcp_manager.send(McpManagerReq::GetServer(0)).await;
                let _ = app.naming_addr.send(NamingCmd::QueryClientInstanceCount).await;
                let _ = self.apply.send(StateApplyRequest::GetLastAppliedLog).await;
                tokio::time::sleep(Duration::from_millis(op["ms"].as_u64().unwrap_or(50))).await;
                let _ = app.config_addr.send(ConfigCmd::GET(ConfigKey::new("-", "-", "-"))).await;
                json!({})
            }
            "sleep" => {
                tokio::time::sleep(Duration::from_millis(op["ms"].as_u64().unwrap_or(0))).await;
                json!({})
            }
            _ => json!({"err": format!("unknown op {}", name)}),
        })
    }
}

pub fn run(_args: &Args) -> anyhow::Result<()> {
    let sys_config = Arc::new(AppSysConfig::init_from_env());
    let sys = actix_rt::System::new();
    sys.block_on(async move {
        let t0 = Instant::now();
        let out = std::io::stdout();
        let boot = async {
            let factory_data = config_factory(sys_config.clone()).await?;
            let app = build_share_data(factory_data.clone())?;
            let apply: Addr<StateApplyManager> = factory_data.get_actor().ok_or_else(|| anyhow::anyhow!("no apply manager"))?;
            let index = factory_data.get_actor().ok_or_else(|| anyhow::anyhow!("no index manager"))?;
            Ok::<_, anyhow::Error>(NodeCtx { app, apply, index, t0 })
        };
        let ctx = match boot.await {
            Ok(c) => c,
            Err(e) => {
                let mut o = out.lock();
                let _ = writeln!(o, "{}", json!({"ready": false, "err": e.to_string()}));
                let _ = o.flush();
                return;
            }
        };
        {
            let mut o = out.lock();
            let _ = writeln!(o, "{}", json!({"ready": true, "boot_ms": t0.elapsed().as_millis() as u64}));
            let _ = o.flush();
        }
        let mut rx = stdin_channel();
        while let Some(line) = rx.recv().await {
            let op: Value = match serde_json::from_str(&line) {
                Ok(v) => v,
                Err(_) => continue,
            };
            if op["op"] == "exit" {
                break;
            }
            let r = tokio::time::timeout(Duration::from_secs(op["timeout_s"].as_u64().unwrap_or(60)), ctx.exec(&op)).await;
            let resp = match r {
                Ok(Ok(mut v)) => {
                    let ok = v.get("err").is_none() && v.get("ok").and_then(|x| x.as_bool()).unwrap_or(true);
                    v["ok"] = json!(ok);
                    v
                }
                Ok(Err(e)) => json!({"ok": false, "err": e.to_string()}),
                Err(_) => json!({"ok": false, "timeout": true}),
            };
            let mut o = out.lock();
            let _ = writeln!(o, "{}", resp);
            let _ = o.flush();
        }
    });
    std::process::exit(0);
}
